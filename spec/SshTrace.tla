------------------------------ MODULE SshTrace ------------------------------
(* C20: validation of SSH sessions against the REAL listener               *)
(* (anonssh.Serve with the CLI entry point as its main function, or the    *)
(* gokr-rsync binary itself).  One record per session:                     *)
(*   admit, both, canonical  what SshFront says about the scenario          *)
(*   admitted                the SSH handshake succeeded                   *)
(*   outcome                 daemon-protocol (the channel starts with the  *)
(*                           @RSYNCD: greeting) | refused (request answered *)
(*                           with failure, or ended with an error status   *)
(*                           without a byte on the channel) | command       *)
(*                           (anything else) | none (not admitted)         *)
(*   modules, listed         the module list obtained over the channel     *)
(*   canary, outsideread, dropped   side effects outside the modules        *)
(*   alive                   the listener still answers afterwards         *)
EXTENDS Integers, Sequences, Json, IOUtils, TLC
Traces == ndJsonDeserialize(IOEnv.VERIF_TRACE)
VARIABLES t, st
vars == <<t, st>>
Tr == Traces[t]
Anon == Tr.listener = "anon"
Accepts ==
  /\ Tr.admitted = Tr.admit                                      \* SshFront!OnlyAuthorised (and anonymous listeners admit everyone)
  /\ (Anon \/ ~Tr.admitted) => Tr.alive                           \* nobody but an authorised user can stop the listener
  /\ (Tr.admitted /\ Anon) =>
       /\ Tr.outcome \in {"daemon-protocol", "refused"}           \* SshFront!AnonOnlyDaemon
       /\ ~Tr.canary /\ ~Tr.outsideread /\ ~Tr.dropped           \* nothing ran, nothing outside the modules was read or written
  /\ Tr.admitted =>
       /\ (Tr.outcome = "daemon-protocol") => /\ Tr.req = "exec" /\ Tr.both           \* SshFront!DaemonNeedsBoth
                                                /\ Tr.listed /\ Tr.modules = <<"m">>      \* SshFront!OnlyConfiguredModules
       /\ Tr.canonical => Tr.outcome = "daemon-protocol"          \* SshFront!DaemonReachable
Init == t \in 1..Len(Traces) /\ st = "run"
Check == /\ st = "run"
         /\ IF Accepts THEN st' = "acc" ELSE (PrintT(<<"REJECT", Tr.id, 0>>) /\ st' = "rej")
         /\ UNCHANGED t
Done == st # "run" /\ UNCHANGED vars
Spec == Init /\ [][Check \/ Done]_vars
=============================================================================
