----------------------------- MODULE RecvSide -----------------------------
(* Behaviours of the receiving side: delete pass, then generator and       *)
(* receiver interleaved, built from the step operators of RecvOps.         *)
EXTENDS RecvOps

(* ------------------------------------------------------------ behaviours *)
VARIABLES fs0,      \* destination before the session
          list,     \* the sender's file list (sorted)
          opts, ioerr, prot,
          fs,       \* destination now
          gi,       \* generator: entries handled
          pend,     \* requests sent and not yet committed by the receiver (FIFO)
          reqs,     \* request log (history)
          pc        \* "delete" | "run" | "done"
vars == <<fs0, list, opts, ioerr, prot, fs, gi, pend, reqs, pc>>

DeletePass ==
  /\ pc = "delete"
  /\ fs' = AfterDelete(fs, list, opts, ioerr, prot)
  /\ pc' = "run"
  /\ UNCHANGED <<fs0, list, opts, ioerr, prot, gi, pend, reqs>>

Gen ==
  /\ pc = "run" /\ gi < Len(list)
  /\ LET e == list[gi + 1] g == GenStep(fs, e, opts) IN
       /\ fs' = g.fs
       /\ pend' = IF g.req \in {"full", "delta"} THEN Append(pend, e) ELSE pend
       /\ reqs' = IF g.req = "none" THEN reqs ELSE Append(reqs, [name |-> e.name, kind |-> g.req])
  /\ gi' = gi + 1
  /\ UNCHANGED <<fs0, list, opts, ioerr, prot, pc>>

Rcv ==
  /\ pc = "run" /\ pend # <<>>
  /\ fs' = RcvStep(fs, Head(pend), opts)
  /\ pend' = Tail(pend)
  /\ UNCHANGED <<fs0, list, opts, ioerr, prot, gi, reqs, pc>>

Finish ==
  /\ pc = "run" /\ gi = Len(list) /\ pend = <<>>
  /\ pc' = "done"
  /\ UNCHANGED <<fs0, list, opts, ioerr, prot, fs, gi, pend, reqs>>

Stutter == pc = "done" /\ UNCHANGED vars
Next == DeletePass \/ Gen \/ Rcv \/ Finish \/ Stutter

(* ------------------------------------------------------------ properties *)
(* every interleaving of generator and receiver ends in the state the      *)
(* whole-run function predicts (so replay may use the function)            *)
Confluent == pc = "done" => /\ fs = Expected(fs0, list, opts, ioerr, prot).fs
                            /\ reqs = Expected(fs0, list, opts, ioerr, prot).reqs
(* C10 *)
DryRunNoChange == opts.n => fs = fs0
(* C09: nothing listed, protected or (without --delete / with sender errors) at all is removed *)
NoCollateralDelete ==
  \A p \in Paths : (Exists(fs0, p) /\ ~Exists(fs, p)) =>
      \/ (DeleteApplies(list, opts, ioerr) /\ Extraneous(fs0, list, prot, p))
      \/ \E i \in 1..Len(list) : /\ IsAncestorOrSelf(list[i].name, p)
                                 /\ list[i].t # fs0[list[i].name].t              \* made room for a listed entry of another type
(* C09: with --delete every extraneous entry is gone at the end *)
DeleteComplete ==
  (pc = "done" /\ DeleteApplies(list, opts, ioerr)) =>
      \A p \in Paths : Exists(fs, p) => (p \in ListedNames(list) \/ ~Extraneous(fs0, list, prot, p))
(* C01 (receiving half): after success every listed regular file has the source's content *)
ContentIdentical ==
  (pc = "done" /\ ~opts.n) =>
      \A i \in 1..Len(list) : list[i].t = "reg" =>
          \/ fs[list[i].name].c = list[i].c /\ fs[list[i].name].t = "reg"
          \/ ~NeedsTransfer(list[i], AfterDelete(fs0, list, opts, ioerr, prot)[list[i].name], opts)
(* C12: a repeated -t sync requests nothing *)
RepeatIsNoOp ==
  (pc = "done" /\ opts.t /\ ~opts.n /\ ~opts.I) =>
      \A i \in 1..Len(list) : list[i].t = "reg" => ~NeedsTransfer(list[i], fs[list[i].name], opts)
=============================================================================
