---------------------------- MODULE DaemonTrace ----------------------------
(* C07: validation of upload attempts against the REAL daemon (over a      *)
(* connection and over stdin/stdout) for modules of every kind.  For a     *)
(* module that is not writable Daemon!ReadOnlyIntact and Daemon!Refused    *)
(* must hold on the recorded outcome: nothing in the module (or anywhere   *)
(* else in the sandbox) changed, and the session was refused with an       *)
(* error before the server requested anything.                             *)
EXTENDS Integers, Sequences, Json, IOUtils, TLC

Traces == ndJsonDeserialize(IOEnv.VERIF_TRACE)
VARIABLES t, st
vars == <<t, st>>
Tr == Traces[t]
Writable(k) == k = "rw"
Accepts ==
  IF Writable(Tr.kind) THEN TRUE                    \* effectiveness controls: not judged here
  ELSE /\ ~Tr.changed                               \* ReadOnlyIntact
       /\ Tr.refused /\ Tr.requests = 0             \* Refused: an error, before anything was asked for
Init == t \in 1..Len(Traces) /\ st = "run"
Check == /\ st = "run"
         /\ IF Accepts THEN st' = "acc" ELSE (PrintT(<<"REJECT", Tr.id, 0>>) /\ st' = "rej")
         /\ UNCHANGED t
Done == st # "run" /\ UNCHANGED vars
Spec == Init /\ [][Check \/ Done]_vars
=============================================================================
