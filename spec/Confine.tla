------------------------------ MODULE Confine ------------------------------
(* C05: a receiver never touches anything outside its destination root.    *)
(*                                                                         *)
(* Layout:   box/            the sandbox (outside region, with canaries)   *)
(*           box/dst/        the destination root (inside region)          *)
(*           box/outside/    an outside directory holding `file`           *)
(* Inside the root there may be pre-existing symlinks                      *)
(*           l  -> ../outside          (directory link leaving the root)   *)
(*           lf -> ../outside/file     (file link leaving the root)        *)
(* and the hostile list itself may first send  s -> ../outside  and then    *)
(* descend through it.  A name is a sequence of components, optionally      *)
(* absolute.  Resolution is modelled twice: `Rooted` (what os.Root does:    *)
(* every step must stay inside, symlinks are followed only while they stay  *)
(* inside) and `Naive` (plain path joining, follows everything).  The      *)
(* property is stated on Rooted; Naive tells which scenarios are effective  *)
(* (would escape if some operation were done by joined path).              *)
EXTENDS PathOps, Json, CSV, IOUtils

Comps == {"a", "l", "lf", "s", ".."}
Names == UNION {[1..k -> Comps] : k \in 1..3}
Types == {"reg", "dir", "lnk", "fifo", "sock", "chr"}

(* operations the receiver performs for an entry of a type (generator.go / *)
(* receiver.go): each takes the list-supplied name through the root         *)
OpsOf(ty, exists) ==
  CASE ty = "reg"  -> (IF exists THEN {"lstat", "open-basis", "unlink-to-make-room"} ELSE {"lstat"}) \cup {"create-temp", "rename", "chmod", "chtimes", "chown"}
    [] ty = "dir"  -> {"lstat", "mkdir", "chmod", "chtimes", "chown", "unlink-to-make-room"}
    [] ty = "lnk"  -> {"lstat", "readlink", "symlink", "rename"}
    [] OTHER       -> {"lstat", "open-parent", "mknod"}

(* file data may arrive for ANY index of the list, requested or not and      *)
(* whatever the entry's type (receiver.go RecvFiles does not track requests): *)
(* a hostile sender reaches these operations for every entry                  *)
UnrequestedDataOps == {"open-basis", "create-temp", "rename", "chmod", "chtimes"}

(* DEFERRED operations: some operations for an entry happen long after the generator handled it - the      *)
(* permission touch-up of read-only directories after the transfer (generator.go touchUpDirs), the commit   *)
(* of file data that arrives later (receiver.go) - and a LATER entry of the same list may meanwhile have     *)
(* re-pointed a symlink on the first entry's path (through an alias of the root: c -> ., then c/b -> outside *)
(* replaces b -> a).  Resolution happens at the time of USE and must refuse then.                           *)
DeferredOps == {"touchup-chmod", "commit-create-temp", "commit-rename", "commit-chmod", "commit-chtimes"}
LinkState == {"inside", "outside"}                    \* where the symlink on the path points when an operation runs
DeferredLoc(stateAtUse) == IF stateAtUse = "outside" THEN "refused" ELSE "in"
DeferredConfined == \A st \in LinkState : DeferredLoc(st) # "out"

Escapes(name, abs, sentS) ==
  \/ NaiveLoc(name, abs, sentS, TRUE).reg = "out"
  \/ NaiveLoc(name, abs, sentS, FALSE).reg = "out"

(* ---- behaviours: the receiver processes a hostile list *)
VARIABLES list,      \* sequence of entries [name, abs, t, tslash]
          sendS,     \* the list starts with the symlink  s -> ../outside
          k,         \* entries processed
          touched,   \* outside locations an operation was applied to
          naive      \* outside locations a path-joining receiver would have touched
vars == <<list, sendS, k, touched, naive>>

(* tslash: the name is spelled with a TRAILING SLASH ("l/", "a/../l/"): to the operating system a request to  *)
(* follow a final symlink - resolution through the root must refuse that as well                               *)
Entries == [name : Names, abs : BOOLEAN, t : Types, tslash : BOOLEAN]
Init == /\ sendS \in BOOLEAN
        /\ list \in [1..1 -> Entries]
        /\ k = 0 /\ touched = {} /\ naive = {}

Process ==
  /\ k < Len(list)
  /\ LET e == list[k + 1]
         r == RootedLoc(e.name, e.abs, sendS, e.t = "dir" \/ e.tslash)
         n == NaiveLoc(e.name, e.abs, sendS, e.t = "dir" \/ e.tslash)
     IN /\ touched' = (IF r.reg = "out" THEN touched \cup {r} ELSE touched)
        /\ naive' = (IF n.reg = "out" THEN naive \cup {n} ELSE naive)
  /\ k' = k + 1 /\ UNCHANGED <<list, sendS>>
Done == k = Len(list) /\ UNCHANGED vars
Next == Process \/ Done
Spec == Init /\ [][Next]_vars

Confined == touched = {}

(* ---- scenario emission: every (name, absolute?, type, s sent first?) with its effectiveness *)
NameStr(name, abs) ==
  LET F[i \in 0..Len(name)] == IF i = 0 THEN "" ELSE (IF i = 1 THEN name[1] ELSE F[i-1] \o "/" \o name[i])
  IN (IF abs THEN "/ABS/" ELSE "") \o F[Len(name)]
OutFile == IOEnv.VERIF_OUT
Emit == (k = 0) =>
  CSVWrite("%1$s", <<ToJson([name |-> NameStr(list[1].name, list[1].abs) \o (IF list[1].tslash THEN "/" ELSE ""), abs |-> list[1].abs, t |-> list[1].t, sends |-> sendS, tslash |-> list[1].tslash,
                             escapes |-> Escapes(list[1].name, list[1].abs, sendS)])>>, OutFile)
GenNext == FALSE /\ UNCHANGED vars
GenSpec == Init /\ [][GenNext]_vars
=============================================================================
