------------------------------ MODULE SshFront ------------------------------
(* C20: SSH listeners admit only authorised keys and expose only the rsync *)
(* daemon (internal/anonssh/anonssh.go; the exec request hands the command *)
(* line to the CLI entry point internal/maincmd).                          *)
(*   authorised listener: a session is granted only to a client key listed *)
(*                        in authorized_keys                               *)
(*   anonymous listener:  anyone may connect, but a session can only speak *)
(*                        the rsync daemon protocol: every other command   *)
(*                        line, request type or channel type is refused    *)
EXTENDS Integers, Sequences, FiniteSets, TLC, Json, CSV, IOUtils

Listeners == {"anon", "auth"}
KeyFiles == {"empty", "blank-lines", "comments-only", "one-key", "several-keys"}     \* authorized_keys shapes
\* a client may offer SEVERAL keys on one connection: "borrowed" is the public half of a listed key, offered by somebody
\* who cannot sign for it, before or between the client's own unlisted keys - what counts is the key that signs
ClientKeys == {"listed-ed25519", "listed-ecdsa", "unlisted-ed25519", "unlisted-ecdsa", "unlisted-rsa", "forged-cert",
               "borrowed-then-unlisted", "unlisted-then-borrowed"}
Lists(kf) == kf \in {"one-key", "several-keys"}
IsListed(kf, k) == /\ Lists(kf)
                   /\ \/ k = "listed-ed25519"
                      \/ k = "listed-ecdsa" /\ kf = "several-keys"

Bases == {<<>>, <<"--server">>, <<"--daemon">>, <<"--server", "--daemon">>, <<"--server", "--sender">>, <<"--server", "--daemon", "--sender">>}
Extras == {<<>>, <<"-e CANARY">>, <<"--rsh=CANARY">>, <<"-a">>, <<"--version">>, <<"--help">>, <<"-e CANARY", "-a">>, <<"-a", "--version">>,
           \* options of the LISTENING daemon's own command line, sent by the peer: they must not reconfigure the session
           <<"--gokr.modulemap=evil=OUTSIDE">>, <<"--gokr.config=OUTSIDE/evil.toml">>,
           \* the WORDS --daemon / --server as the ARGUMENT of another option: the parsed options do not have them
           <<"-e --daemon">>, <<"--rsh --daemon">>, <<"--exclude --server", "-e --daemon">>, <<"--filter --daemon">>}
PathArgs == {<<>>, <<".">>, <<".", "OUTSIDE">>, <<"host:path", "DROP">>, <<"OUTSIDE/", "DROP">>, <<"OUTSIDE/">>}
\* the FIRST word of an exec line names the program and is not an option: whatever it spells, it selects nothing
Progs == {"rsync", "/usr/local/bin/rsync", "--daemon", "--server", "--no-detach", "--config=OUTSIDE/evil.toml"}
Requests == {"exec", "shell", "env", "subsystem", "pty-req", "channel:direct-tcpip"}

ConfiguredModules == {"m"}

VARIABLES listener, keyfile, key, req, prog, base, extra, paths, admitted, outcome,
          visible,         \* the modules the session can list
          wantreply        \* the want-reply flag of the exec request: the peer's to choose, it decides nothing
vars == <<listener, keyfile, key, req, prog, base, extra, paths, admitted, outcome, visible, wantreply>>

Init == /\ listener \in Listeners /\ keyfile \in KeyFiles /\ key \in ClientKeys
        /\ (listener = "anon" => keyfile = "one-key")            \* the key file plays no role for anonymous listeners
        /\ req \in Requests
        /\ base \in Bases /\ extra \in Extras /\ paths \in PathArgs
        /\ prog \in Progs
        /\ (req # "exec" => base = <<>> /\ extra = <<>> /\ paths = <<>>)
        /\ wantreply \in BOOLEAN /\ (req # "exec" => wantreply)
        /\ (prog # "rsync" => req = "exec" /\ extra = <<>> /\ wantreply)      \* (bound: unusual program words with the plain option lines only)
        /\ admitted = "unknown" /\ outcome = "none" /\ visible = {}

Admit(l, kf, k) == l = "anon" \/ IsListed(kf, k)
Handshake == /\ admitted = "unknown"
             /\ admitted' = (IF Admit(listener, keyfile, key) THEN "yes" ELSE "no")
             /\ UNCHANGED <<listener, keyfile, key, req, prog, base, extra, paths, outcome, visible, wantreply>>

HasBoth(b) == \E i \in 1..Len(b) : b[i] = "--server" /\ \E j \in 1..Len(b) : b[j] = "--daemon"
Canonical == req = "exec" /\ prog = "rsync" /\ base = <<"--server", "--daemon">> /\ extra = <<>> /\ paths = <<".">>     \* what rsync -e ssh sends for host::module
(* an anonymous session: only "exec" of a command line that selects the daemon *)
(* (--server --daemon) may proceed, and then only as the daemon protocol        *)
Serve == /\ admitted = "yes" /\ outcome = "none"
         /\ outcome' \in (IF req = "exec" /\ HasBoth(base) THEN {"daemon-protocol", "refused"}     \* (a command line the parser rejects is refused too)
                          ELSE IF listener = "anon" THEN {"refused"}
                          ELSE {"refused", "command"})              \* an authorised user may run rsync over ssh
         /\ visible' = (IF outcome' = "daemon-protocol" THEN ConfiguredModules ELSE {})
         /\ (Canonical => outcome' = "daemon-protocol")           \* the daemon itself stays reachable
         /\ UNCHANGED <<listener, keyfile, key, req, prog, base, extra, paths, admitted, wantreply>>
Done == (admitted = "no" \/ outcome # "none") /\ UNCHANGED vars
Next == Handshake \/ Serve \/ Done
Spec == Init /\ [][Next]_vars

OnlyAuthorised == (admitted = "yes") => Admit(listener, keyfile, key)
AnonOnlyDaemon == (listener = "anon" /\ outcome # "none") => outcome \in {"daemon-protocol", "refused"}
DaemonNeedsBoth == outcome = "daemon-protocol" => req = "exec" /\ HasBoth(base)
OnlyConfiguredModules == visible \subseteq ConfiguredModules /\ (outcome = "daemon-protocol" => visible = ConfiguredModules)
DaemonReachable == (Canonical /\ outcome # "none") => outcome = "daemon-protocol"

OutFile == IOEnv.VERIF_OUT
Emit == (admitted = "unknown") =>
  CSVWrite("%1$s", <<ToJson([listener |-> listener, keyfile |-> keyfile, key |-> key, req |-> req, prog |-> prog, base |-> base, extra |-> extra, paths |-> paths,
                             admit |-> Admit(listener, keyfile, key), both |-> HasBoth(base), canonical |-> (Canonical /\ wantreply), noreply |-> ~wantreply])>>, OutFile)
GenNext == FALSE /\ UNCHANGED vars
GenSpec == Init /\ [][GenNext]_vars
=============================================================================
