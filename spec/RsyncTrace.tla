---------------------------- MODULE RsyncTrace ----------------------------
(* ACTION-LEVEL validation of complete real sessions (real client and real  *)
(* server on the two ends of an instrumented in-memory transport, pull and  *)
(* push) against the composed specification Rsync.tla.                      *)
(*                                                                          *)
(* The transport records every accepted write with a sequence number taken  *)
(* under the pipe mutex; the harness parses the two byte streams (protocol  *)
(* version words, seed, filter rules, file-list entries, the generator's    *)
(* requests with their checksum heads, the sender's answers with the token  *)
(* stream summarised as literal / matched byte counts, phase markers,       *)
(* statistics, goodbye) with the reference codec, maps them onto the role   *)
(* channels of Rsync.tla (up = generator -> sender, down = sender ->        *)
(* receiver) and orders them by the write that completed each.              *)
(*                                                                          *)
(* Every logged event must be a PUT of exactly that item by the process     *)
(* Rsync.tla says may put it in the current state, with the data the        *)
(* specification derives from the scenario:                                 *)
(*   rule k   is the k-th rule of the user's list                            *)
(*   ent      names an entry of SenderList(source, options, rules) not yet  *)
(*            transmitted, with that entry's type, size, mtime, permission  *)
(*            bits and link target                                          *)
(*   idx i    is the request RecvSide's generator makes next (GenStep /     *)
(*            NeedsTransfer on the CURRENT abstract destination), with      *)
(*            block checksums only for a delta request                      *)
(*   tok i    denotes exactly list[i].sz bytes; a whole-file request is     *)
(*            answered with literals only; a basis with the same content    *)
(*            costs no literal byte                                         *)
(* Gets are not observable (both ends read ahead through bufio): all steps  *)
(* that put nothing are silent and taken eagerly - the processes are        *)
(* deterministic, silent steps commute with each other and with puts when   *)
(* the channels are unbounded (the cfg sets capacities no trace reaches).   *)
(* At the end the session must be Finished with empty channels and the      *)
(* destination snapshot must match the specification's tree.                *)
EXTENDS Rsync

Traces == ndJsonDeserialize(IOEnv.VERIF_TRACE)
VARIABLES t, l, st
tvars == <<rvars, t, l, st>>
Tr == Traces[t]
Ev == Tr.events[l]
ToFs(nodes) == [p \in Paths |->
                  IF \E i \in 1..Len(nodes) : nodes[i].p = p
                  THEN LET n == nodes[CHOOSE i \in 1..Len(nodes) : nodes[i].p = p]
                       IN [t |-> n.t, c |-> n.c, sz |-> n.sz, mt |-> n.mt, ns |-> n.ns, perm |-> n.perm, tgt |-> n.tgt, uid |-> n.uid, gid |-> n.gid]
                  ELSE Absent]
J == {Tr.judge[i] : i \in 1..Len(Tr.judge)}

NoPut == Len(up') <= Len(up) /\ Len(down') <= Len(down)
Silent == /\ st = "run"
          /\ RSteps /\ NoPut
          /\ UNCHANGED <<t, l, st>>

LastUp == up'[Len(up')]
LastDown == down'[Len(down')]
(* data carried by an event, checked against what the specification derives *)
EntryOK(i) == LET e == list[i] IN
  /\ Ev.name = e.name /\ Ev.t = e.t
  /\ e.t = "reg" => Ev.sz = e.sz /\ Ev.mt = e.mt
  /\ e.t = "lnk" /\ opts.l => Ev.tgt = e.tgt
  /\ Ev.perm = e.perm
DataOK ==
  CASE Ev.item = "rule" -> /\ Ev.f \in 1..NRules /\ Ev.inc = rulesv[Ev.f].inc /\ Ev.pat = rulesv[Ev.f].pat \o (IF rulesv[Ev.f].dir THEN "/" ELSE "")
    [] Ev.item = "args" -> \* C14: every option that changes what the remote side must do reaches it, and nothing else does
                           /\ Ev.sender = Pull
                           /\ \A k \in {"r", "l", "p", "t", "dv", "sp", "c", "I", "n", "del"} : Ev.sopts[k] = opts[k]
    [] Ev.item = "ent"  -> IsListed(Ev.name) /\ Ev.f = 0 /\ EntryOK(IdxOfName(Ev.name))
    [] Ev.item = "lend" -> Ev.f = ioerr
    [] Ev.item = "idx"  -> /\ Ev.f \in 1..Len(list) /\ Ev.name = list[Ev.f].name
                           /\ Len(reqs') = Len(reqs) + 1 /\ reqs'[Len(reqs')].name = Ev.name
                           /\ LET k == reqs'[Len(reqs')].kind IN
                                /\ (k = "dry") = Ev.dry
                                /\ k = "full" => Ev.n = 0
                                /\ Ev.n > 0 => k = "delta"
    [] Ev.item = "tok"  -> /\ Ev.f \in 1..Len(list) /\ Requested(Ev.f)
                           /\ Ev.lit + Ev.match = list[Ev.f].sz
                           /\ KindOfReq(Ev.f) = "full" => Ev.match = 0
                           \* C16: a basis with the very same content costs no literal byte (the file is still
                           \* the basis here: its commit needs the end item, which follows this one)
                           /\ LET b == fs[list[Ev.f].name] IN
                                (b.t = "reg" /\ b.c = list[Ev.f].c /\ b.sz = list[Ev.f].sz /\ b.sz > 0) => Ev.lit = 0
    [] OTHER -> TRUE
(* the index an event names: entries are named, everything else carries it  *)
ItemOf == <<Ev.item, IF Ev.item = "ent" THEN IdxOfName(Ev.name) ELSE Ev.f>>
Logged == /\ st = "run" /\ l <= Len(Tr.events)
          /\ ~ENABLED Silent
          /\ RSteps
          /\ DataOK
          /\ IF Ev.ch = "up" THEN Len(up') = Len(up) + 1 /\ Len(down') <= Len(down) /\ LastUp = ItemOf
                             ELSE Len(down') = Len(down) + 1 /\ Len(up') <= Len(up) /\ LastDown = ItemOf
          /\ l' = l + 1 /\ UNCHANGED <<t, st>>
Accept == /\ st = "run" /\ l = Len(Tr.events) + 1
          /\ ~ENABLED Silent
          /\ Finished /\ up = <<>> /\ down = <<>> /\ pc = "done"
          /\ Tr.result = "ok"
          /\ TreeMatchesJ(fs, ToFs(Tr.final), J)
          /\ "extra" \in J => Len(Tr.extra) = 0
          /\ st' = "acc" /\ UNCHANGED <<rvars, t, l>>
Step == Silent \/ Logged \/ Accept
Reject == /\ st = "run" /\ ~ENABLED Step
          /\ PrintT(<<"REJECT", Tr.id, l>>)
          /\ st' = "rej" /\ UNCHANGED <<rvars, t, l>>
Done == st # "run" /\ UNCHANGED tvars

TInit == /\ t \in 1..Len(Traces) /\ l = 1 /\ st = "run"
         /\ srcv = ToFs(Tr.src) /\ rulesv = Tr.rules /\ opts = Tr.opts
         /\ fs0 = ToFs(Tr.dst) /\ fs = fs0
         /\ list = SenderList(srcv, opts, rulesv) /\ ioerr = Tr.ioerr /\ prot = Protected(rulesv)     \* ioerr: the sender could not read a source argument
         /\ gi = 0 /\ pend = <<>> /\ reqs = <<>> /\ pc = "delete"
         /\ dirv = Tr.dir /\ modev = Tr.mode /\ ordv = "any"
         /\ up = <<>> /\ down = <<>> /\ sent = {}
         /\ snd = P("hs", 1) /\ main = P("hs", 1)
         /\ gen = P("wait", 0) /\ rcv = P("wait", 0)
TNext == Step \/ Reject \/ Done
TSpec == TInit /\ [][TNext]_tvars
=============================================================================
