--------------------------- MODULE DiscloseTrace ---------------------------
(* C06: validation of requests sent to the REAL serving daemon.  One trace *)
(* line = one request path; the reference receiver decoded the file list,  *)
(* fetched every listed regular file, scanned the server's raw byte stream *)
(* for the canaries that mark everything outside the module (names,        *)
(* contents, link targets of outside links, size+mtime, MD4 of the outside *)
(* file) and watched the outside region with inotify.  Disclose!OnlyInside *)
(* on the recorded observation: nothing outside was sent or even opened.   *)
EXTENDS Integers, Sequences, Json, IOUtils, TLC

Traces == ndJsonDeserialize(IOEnv.VERIF_TRACE)
VARIABLES t, st
vars == <<t, st>>
Tr == Traces[t]
OnlyInside == /\ Len(Tr.leaks) = 0
              /\ Len(Tr.events) = 0
              /\ Tr.result \in {"ok", "err"}       \* an empty listing or an error, never a crash or a hang
Init == t \in 1..Len(Traces) /\ st = "run"
Check == /\ st = "run"
         /\ IF OnlyInside THEN st' = "acc" ELSE (PrintT(<<"REJECT", Tr.id, 0>>) /\ st' = "rej")
         /\ UNCHANGED t
Done == st # "run" /\ UNCHANGED vars
Spec == Init /\ [][Check \/ Done]_vars
=============================================================================
