------------------------------ MODULE Hostile ------------------------------
(* C08: malformed or hostile peer input ends only that session, with an    *)
(* error.  The peer may damage any ONE field of an otherwise valid session *)
(* with any class of damage; the process under attack (a daemon serving    *)
(* other connections, or a client) must survive, the attacked session must *)
(* end, and (for a daemon) the next canonical request must succeed.        *)
(* This module is the structure-aware mutation enumerator: TLC visits      *)
(* every (victim, field, class) and states the outcome the property        *)
(* demands; the harness concretises each on a recorded valid session.      *)
EXTENDS Integers, Sequences, FiniteSets, TLC, Json, CSV, IOUtils

(* fields of the byte stream a hostile CLIENT sends to a daemon (serving, i.e. sender mode) *)
ToDaemonSender == {"greeting", "module", "args.server", "args.flags", "args.dot", "args.path", "args.end",
                   "filter.len", "filter.rule", "filter.end",
                   "req.index", "req.count", "req.blk", "req.s2", "req.rem", "req.weak", "req.strong",
                   "phase1", "phase2", "goodbye"}
(* ... and to a daemon receiving an upload (writable module) *)
ToDaemonReceiver == {"greeting", "module", "args.flags", "args.path", "filter.len",
                     "list.flags", "list.namelen", "list.name", "list.size", "list.mtime", "list.mode", "list.linklen", "list.link", "list.end", "list.ioerr",
                     "list2.flags", "list2.l1", "list2.namelen", "list2.name",       \* a second entry sharing a name prefix with the first (XMIT_SAME_NAME)
                     "data.index", "data.count", "data.blk", "data.s2", "data.rem", "data.toklen", "data.tok", "data.ref", "data.end", "data.sum",
                     "phase1", "phase2"}
(* fields a hostile SERVER sends to a pulling client *)
ToClient == {"version", "seed", "mux.tag", "mux.len",
             "list.flags", "list.namelen", "list.name", "list.size", "list.mtime", "list.mode", "list.linklen", "list.link", "list.uid", "list.end",
             "idlist.id", "idlist.len", "idlist.name", "list.ioerr",
             "list2.flags", "list2.l1", "list2.namelen", "list2.name",
             "data.index", "data.count", "data.blk", "data.s2", "data.rem", "data.toklen", "data.tok", "data.ref", "data.end", "data.sum",
             "phase1", "phase2", "stats"}
Classes == {"zero", "minus-one", "int-min", "plus-one", "minus-one-rel", "huge", "wrong-type", "truncated-here", "garbage"}
(* the TEXT of a filter rule a client sends: a modifier prefix and a pattern, each possibly empty or degenerate.   *)
(* The list stays well-formed on the wire; what the rule parser makes of the text is the daemon's problem.       *)
RulePrefixes == {"- ", "+ ", "", "-", "+", "P ", "! ", "-/ "}
RulePatterns == {"", "/", "//", "x/", "/x", "*", "[", " ", "x//"}
RuleClasses == {"rule:" \o p \o "|" \o q : p \in RulePrefixes, q \in RulePatterns}
Victims == {"daemon-sender", "daemon-receiver", "client"}
FieldsOf(v) == CASE v = "daemon-sender" -> ToDaemonSender [] v = "daemon-receiver" -> ToDaemonReceiver [] OTHER -> ToClient

(* PAIR mutations: two fields of the same checksum header damaged together (a zero block length is harmless  *)
(* while a non-zero remainder covers for it, and so on): header groups x two distinct fields x small classes *)
HeaderGroup(v) == IF v = "daemon-sender" THEN {"req.count", "req.blk", "req.s2", "req.rem"} ELSE {"data.count", "data.blk", "data.s2", "data.rem"}
(* ... and the two length fields of a name that shares a prefix with its predecessor: each bounds the other *)
PairGroups(v) == {HeaderGroup(v)} \cup (IF v = "daemon-sender" THEN {} ELSE {{"list2.l1", "list2.namelen"}})
PairClasses == {"zero", "minus-one", "plus-one", "huge"}
NoPair == "none"

VARIABLES victim, field, class, field2, class2, display, pc, alive, nextOK
vars == <<victim, field, class, field2, class2, display, pc, alive, nextOK>>
(* what the victim was asked to DISPLAY must not matter either: "progress" = the client runs with --progress, *)
(* the daemon gets a --progress argument line (its computations on peer-declared sizes then run)            *)
Displays == {"quiet", "progress"}
Init == /\ victim \in Victims /\ field \in FieldsOf(victim)
        /\ class \in Classes \cup (IF victim = "daemon-sender" /\ field = "filter.rule" THEN RuleClasses ELSE {})
        /\ display \in Displays /\ (display = "progress" => (field2 = NoPair /\ class \in {"zero", "minus-one", "plus-one", "huge", "garbage"}))
        /\ \/ field2 = NoPair /\ class2 = NoPair
           \/ /\ class \in PairClasses /\ class2 \in PairClasses
              /\ \E G \in PairGroups(victim) : field \in G /\ field2 \in G \ {field}
        /\ pc = "session" /\ alive = TRUE /\ nextOK = "untested"
(* the damaged field arrives: the session ends - with an error, or (if the damage happens to be harmless) normally *)
EndSession == /\ pc = "session" /\ pc' \in {"ended-error", "ended-ok"} /\ UNCHANGED <<victim, field, class, field2, class2, display, alive, nextOK>>
(* a daemon then serves the canonical request of another client *)
NextRequest == /\ pc \in {"ended-error", "ended-ok"} /\ victim # "client" /\ nextOK = "untested"
               /\ nextOK' = "ok" /\ UNCHANGED <<victim, field, class, field2, class2, display, pc, alive>>
Done == /\ (nextOK # "untested" \/ (victim = "client" /\ pc # "session")) /\ UNCHANGED vars
Next == EndSession \/ NextRequest \/ Done
Spec == Init /\ [][Next]_vars /\ WF_vars(Next)

Survives == alive                                   \* no crash, no exit
SessionEnds == <>(pc # "session")
DaemonKeepsServing == <>(victim = "client" \/ nextOK = "ok")

OutFile == IOEnv.VERIF_OUT
Emit == (pc = "session") => CSVWrite("%1$s", <<ToJson([victim |-> victim, field |-> field, class |-> class, field2 |-> (IF field2 = NoPair THEN "" ELSE field2), class2 |-> (IF class2 = NoPair THEN "" ELSE class2), progress |-> (display = "progress")])>>, OutFile)
GenNext == FALSE /\ UNCHANGED vars
GenSpec == Init /\ [][GenNext]_vars
=============================================================================
