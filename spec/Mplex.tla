------------------------------- MODULE Mplex -------------------------------
(* C17: multiplex framing is transparent.  After the seed a server's       *)
(* output is cut into frames  header = (7 + tag) << 24 | length  with tag  *)
(* 0 data, 1 error, 2 info (internal/rsyncwire/wire.go).  Whatever the     *)
(* cut - any data frame sizes 0..Max, informational frames anywhere, long  *)
(* runs of them - the client must see the same logical stream; an error    *)
(* frame ends the transfer with the server's message.                      *)
EXTENDS Integers, Sequences, FiniteSets, TLC, Json, CSV, IOUtils

CONSTANTS StreamLen,    \* the logical stream is <<1, 2, .., StreamLen>>
          MaxFrame,     \* largest data frame
          MaxInfo       \* at most this many info / empty frames are interleaved

Stream == [i \in 1..StreamLen |-> i]

VARIABLES sent,       \* logical bytes already framed by the server side
          frames,     \* frames on the wire, in order: [tag, len, payload]
          extra,      \* info / empty frames used so far
          rpos,       \* frames the client has consumed
          delivered,  \* logical stream as the client sees it
          result      \* "run" | "ok" | "err"
vars == <<sent, frames, extra, rpos, delivered, result>>

Init == sent = 0 /\ frames = <<>> /\ extra = 0 /\ rpos = 0 /\ delivered = <<>> /\ result = "run"

HasError == \E k \in 1..Len(frames) : frames[k].tag = 1
Closed == HasError \/ (Len(frames) > 0 /\ frames[Len(frames)].tag = 9)

(* server side / adversarial re-framer *)
DataFrame == /\ ~Closed /\ sent < StreamLen
             /\ \E n \in 1..MaxFrame : /\ sent + n <= StreamLen
                                      /\ frames' = Append(frames, [tag |-> 0, len |-> n, payload |-> SubSeq(Stream, sent + 1, sent + n)])
                                      /\ sent' = sent + n
             /\ UNCHANGED <<extra, rpos, delivered, result>>
EmptyFrame == /\ ~Closed /\ extra < MaxInfo
              /\ frames' = Append(frames, [tag |-> 0, len |-> 0, payload |-> <<>>])
              /\ extra' = extra + 1 /\ UNCHANGED <<sent, rpos, delivered, result>>
InfoFrame == /\ ~Closed /\ extra < MaxInfo
             /\ \E n \in {0, 1} :      \* an informational frame may be empty as well
                  frames' = Append(frames, [tag |-> 2, len |-> n, payload |-> IF n = 0 THEN <<>> ELSE <<"info">>])
             /\ extra' = extra + 1 /\ UNCHANGED <<sent, rpos, delivered, result>>
ErrorFrame == /\ ~Closed
              /\ frames' = Append(frames, [tag |-> 1, len |-> 1, payload |-> <<"msg">>])
              /\ UNCHANGED <<sent, extra, rpos, delivered, result>>
EndOfStream == /\ ~Closed /\ sent = StreamLen
               /\ frames' = Append(frames, [tag |-> 9, len |-> 0, payload |-> <<>>])    \* orderly close (not a frame on the wire)
               /\ UNCHANGED <<sent, extra, rpos, delivered, result>>

(* client side: MultiplexReader.Read *)
Recv == /\ result = "run" /\ rpos < Len(frames)
        /\ LET f == frames[rpos + 1] IN
             CASE f.tag = 0 -> delivered' = delivered \o f.payload /\ result' = result
               [] f.tag = 2 -> UNCHANGED <<delivered, result>>             \* logged, otherwise ignored
               [] f.tag = 1 -> result' = "err" /\ UNCHANGED delivered      \* the server's message surfaces
               [] OTHER -> result' = (IF delivered = Stream THEN "ok" ELSE "err") /\ UNCHANGED delivered
        /\ rpos' = rpos + 1 /\ UNCHANGED <<sent, frames, extra>>
Done == result # "run" /\ UNCHANGED vars
Next == DataFrame \/ EmptyFrame \/ InfoFrame \/ ErrorFrame \/ EndOfStream \/ Recv \/ Done
Spec == Init /\ [][Next]_vars /\ WF_vars(Recv)

(* what the data frames carry, in order *)
Carried == LET F[k \in 0..Len(frames)] == IF k = 0 THEN <<>> ELSE (IF frames[k].tag = 0 THEN F[k-1] \o frames[k].payload ELSE F[k-1]) IN F[Len(frames)]
WellFormed == /\ \A k \in 1..Len(frames) : frames[k].tag \in {0, 1, 2, 9} /\ frames[k].len <= MaxFrame /\ frames[k].len = Len(frames[k].payload)
              /\ Carried = SubSeq(Stream, 1, sent)
PrefixDelivered == delivered = SubSeq(Stream, 1, Len(delivered))
Transparent == (result = "ok") => delivered = Stream
ErrorSurfaces == (result = "err") => HasError
NoSpuriousError == (rpos = Len(frames) /\ Closed /\ ~HasError /\ result # "run") => result = "ok"
Terminates == <>(result # "run" \/ ~Closed)

(* framing patterns for replay: the finished frame sequences *)
OutFile == IOEnv.VERIF_OUT
Emit == (Closed /\ rpos = 0) =>
  CSVWrite("%1$s", <<ToJson([pattern |-> [k \in 1..Len(frames) |-> [tag |-> frames[k].tag, len |-> frames[k].len]], units |-> StreamLen])>>, OutFile)
GenNext == DataFrame \/ EmptyFrame \/ InfoFrame \/ ErrorFrame \/ EndOfStream \/ (Closed /\ UNCHANGED vars)
GenSpec == Init /\ [][GenNext]_vars
=============================================================================
