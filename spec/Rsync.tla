------------------------------- MODULE Rsync -------------------------------
(* The composed specification of one rsync session (protocol 27 as          *)
(* gokrazy/rsync speaks it), from the first byte to the goodbye:            *)
(*                                                                          *)
(*   handshake (version exchange, seed) -> filter rules -> file list ->     *)
(*   delete pass -> generator || sender || receiver pipeline -> join ->     *)
(*   statistics (server sender only) -> goodbye                             *)
(*                                                                          *)
(* It is the CONJUNCTION of two specifications that were written            *)
(* separately:                                                              *)
(*   RecvSide (via RecvScen)  what happens to the destination tree: the     *)
(*            delete pass, the generator's per-entry decision (GenStep,     *)
(*            NeedsTransfer), the receiver's commit (RcvStep)               *)
(*   Session  who writes what to which channel in which order (Gen, Snd,    *)
(*            Rcv, Main and the two bounded channels)                       *)
(* Every action below that touches the destination is a RecvSide action     *)
(* conjoined with its wire effect, so that `RefinesRecvSide` holds by       *)
(* construction and is checked by TLC; the wire part repeats Session's      *)
(* process structure with the file identity made explicit (an item for      *)
(* file f of Session is here an item for index i of the sorted list).       *)
(*                                                                          *)
(* Roles, not hosts: `up` is the channel generator -> sender, `down` the    *)
(* channel sender -> receiver.  When the client receives (pull) the client  *)
(* is the receiving side; when it sends (push, local copy) the client is    *)
(* the sending side.  Only the handshake, the direction of the rule list    *)
(* and the statistics depend on that (`dirv`).                              *)
EXTENDS RecvScen

CONSTANTS CapUp, CapDown,     \* channel capacities in items; 0 = rendezvous (io.Pipe)
          Modes,              \* handshake modes explored: subset of {"cmd", "daemon"}
          ListOrders,         \* orders in which the sender may transmit the list: subset of {"asc", "desc", "any"}
                              \* (the protocol fixes none - the receiver sorts; "any" explores all 2^n prefixes)
          RcvAfterGen         \* FALSE: generator and receiver run concurrently (the code, receiver/do.go);
                              \* TRUE: a mutant in which the receiver starts when the generator is done -
                              \* it must deadlock under small capacities (control that the model can tell)

VARIABLES dirv,               \* "pull" | "push"
          modev,              \* "cmd": command mode (remote shell, local copy, library): binary version exchange;
                              \* "daemon": the daemon protocol: text greetings, module line, OK, argument lines
          up, down,           \* channel contents: sequences of <<kind, n>>
          snd,                \* the sending side (one goroutine): [pc, f]
          gen, rcv, main,     \* the receiving side: generator, receiver, main routine
          sent,               \* indices of the (sorted) list already transmitted
          ordv                \* the order this sender transmits the list in
wvars == <<dirv, modev, up, down, snd, gen, rcv, main, sent, ordv>>
rvars == <<svars, wvars>>

P(p, f) == [pc |-> p, f |-> f]
Pull == dirv = "pull"
(* the client transmits its filter rules to a sending server always, to a   *)
(* receiving server only when it also asked for --delete                    *)
RulesOnWire == Pull \/ opts.del
NRules == Len(rulesv)
IsListed(n) == \E i \in 1..Len(list) : list[i].name = n
IdxOfName(n) == IF IsListed(n) THEN CHOOSE i \in 1..Len(list) : list[i].name = n ELSE 0
Requested(i) == i \in 1..Len(list) /\ \E j \in 1..Len(reqs) : reqs[j].name = list[i].name
KindOfReq(i) == IF Requested(i) THEN LET k == CHOOSE j \in 1..Len(reqs) : reqs[j].name = list[i].name IN reqs[k].kind ELSE "none"

(* ---- the handshake as two scripts of <<operation, item>>                                   *)
(* command mode (rsyncd.go handleConn negotiate / clientmaincmd.go ClientRun): the client     *)
(* writes its protocol version, the server reads it, answers with its own and the checksum    *)
(* seed.  Daemon protocol (rsyncd.go HandleDaemonConn / clientserver.go StartInbandExchange): *)
(* BOTH ends write their "@RSYNCD: 27" greeting before reading the other's (so this exchange  *)
(* needs a transport that buffers - a socket; over zero-capacity pipes it cannot start, which *)
(* TLC confirms); module line, "@RSYNCD: OK", the argument lines (the client's options as the *)
(* server must see them, C14), then the seed                                                  *)
ClientScript == IF modev = "cmd" THEN << <<"put", "ver">>, <<"get", "ver">>, <<"get", "seed">> >>
                ELSE << <<"put", "greet">>, <<"get", "greet">>, <<"put", "module">>, <<"get", "ok">>, <<"put", "args">>, <<"get", "seed">> >>
ServerScript == IF modev = "cmd" THEN << <<"get", "ver">>, <<"put", "ver">>, <<"put", "seed">> >>
                ELSE << <<"put", "greet">>, <<"get", "greet">>, <<"get", "module">>, <<"put", "ok">>, <<"get", "args">>, <<"put", "seed">> >>
SndScript == IF Pull THEN ServerScript ELSE ClientScript       \* pulling: the server sends
MainScript == IF Pull THEN ClientScript ELSE ServerScript
HsGets(p, script) == p.pc = "hs" /\ p.f <= Len(script) /\ script[p.f][1] = "get"

(* ---- channels; with capacity 0 a put needs the reader parked in its get *)
CanPut(ch, cap, readerReady) == IF cap = 0 THEN ch = <<>> /\ readerReady ELSE Len(ch) < cap
UpReaderReady == HsGets(snd, SndScript) \/ snd.pc \in {"getrules", "read", "sums", "bye"}
DownReaderReady == HsGets(main, MainScript) \/ main.pc \in {"getrules", "getlist", "stats"} \/ rcv.pc \in {"read", "toks", "end"}
PutUp(x) == CanPut(up, CapUp, UpReaderReady) /\ up' = Append(up, x)
PutDown(x) == CanPut(down, CapDown, DownReaderReady) /\ down' = Append(down, x)
GetUp(kind) == up # <<>> /\ Head(up)[1] = kind /\ up' = Tail(up)
GetDown(kind) == down # <<>> /\ Head(down)[1] = kind /\ down' = Tail(down)

RInit == /\ ScnInit
         /\ dirv \in {"pull", "push"} /\ modev \in Modes /\ ordv \in ListOrders
         /\ up = <<>> /\ down = <<>> /\ sent = {}
         /\ snd = P("hs", 1) /\ main = P("hs", 1)
         /\ gen = P("wait", 0) /\ rcv = P("wait", 0)

(* ================================================================ sending side *)
(* handshake and rules: the server reads the client's version, answers with  *)
(* its own and the checksum seed; rsyncd.go handleConn / clientmaincmd.go    *)
SndHandshake ==
  /\ CASE snd.pc = "hs" ->
            /\ LET st == SndScript[snd.f] IN
                 IF st[1] = "put" THEN PutDown(<<st[2], 0>>) /\ UNCHANGED up ELSE GetUp(st[2]) /\ UNCHANGED down
            /\ snd' = IF snd.f < Len(SndScript) THEN P("hs", snd.f + 1)
                      ELSE IF Pull THEN P("getrules", 1) ELSE IF RulesOnWire THEN P("putrules", 1) ELSE P("list", 0)
       [] snd.pc = "getrules" ->        \* a sending server reads the client's rule list
            /\ UNCHANGED down
            /\ IF snd.f <= NRules THEN GetUp("rule") /\ Head(up)[2] = snd.f /\ snd' = P("getrules", snd.f + 1)
               ELSE GetUp("rend") /\ snd' = P("list", 0)
       [] snd.pc = "putrules" ->        \* a sending client transmits the rules a deleting server must honour
            /\ UNCHANGED up
            /\ IF snd.f <= NRules THEN PutDown(<<"rule", snd.f>>) /\ snd' = P("putrules", snd.f + 1)
               ELSE PutDown(<<"rend", 0>>) /\ snd' = P("list", 0)
       [] OTHER -> FALSE
  /\ UNCHANGED <<svars, dirv, modev, gen, rcv, main, sent, ordv>>

(* file list: every entry of SenderList(source, options, rules) exactly     *)
(* once, in whatever order the walk produces; then the terminator with the  *)
(* id lists and the I/O error word                                          *)
SndList ==
  /\ snd.pc = "list" /\ UNCHANGED up
  /\ \/ \E i \in (1..Len(list)) \ sent :
            /\ ordv = "asc" => \A j \in (1..Len(list)) \ sent : i <= j
            /\ ordv = "desc" => \A j \in (1..Len(list)) \ sent : i >= j
            /\ PutDown(<<"ent", i>>) /\ sent' = sent \cup {i} /\ snd' = snd
     \/ /\ sent = 1..Len(list) /\ PutDown(<<"lend", ioerr>>) /\ snd' = P("read", 0) /\ UNCHANGED sent
  /\ UNCHANGED <<svars, dirv, modev, gen, rcv, main, ordv>>

(* the transfer loop: sender.go SendFiles; under -n the request is the      *)
(* index alone and so is the answer                                         *)
SndLoop ==
  /\ CASE snd.pc = "read" ->
            /\ up # <<>> /\ Head(up)[1] \in {"idx", "m"} /\ up' = Tail(up) /\ UNCHANGED down
            /\ LET x == Head(up) IN
                 snd' = IF x[1] = "idx" THEN (IF opts.n THEN P("ans", x[2]) ELSE P("sums", x[2]))
                        ELSE IF x[2] = 1 THEN P("ack1", 0) ELSE P("ack2", 0)
       [] snd.pc = "sums" -> /\ GetUp("sum") /\ Head(up)[2] = snd.f /\ UNCHANGED down /\ snd' = P("ans", snd.f)
       [] snd.pc = "ans"  -> /\ PutDown(<<"ans", snd.f>>) /\ UNCHANGED up
                             /\ snd' = IF opts.n THEN P("read", 0) ELSE P("toks", snd.f)
       [] snd.pc = "toks" -> /\ PutDown(<<"tok", snd.f>>) /\ UNCHANGED up /\ snd' = P("end", snd.f)
       [] snd.pc = "end"  -> /\ PutDown(<<"end", snd.f>>) /\ UNCHANGED up /\ snd' = P("read", 0)
       [] snd.pc = "ack1" -> /\ PutDown(<<"ack", 1>>) /\ UNCHANGED up /\ snd' = P("read", 0)
       [] snd.pc = "ack2" -> /\ PutDown(<<"ack", 2>>) /\ UNCHANGED up /\ snd' = P(IF Pull THEN "stats" ELSE "bye", 0)
       [] snd.pc = "stats" -> /\ PutDown(<<"stats", 0>>) /\ UNCHANGED up /\ snd' = P("bye", 0)
       [] snd.pc = "bye"  -> /\ GetUp("bye") /\ UNCHANGED down /\ snd' = P("done", 0)
       [] OTHER -> FALSE
  /\ UNCHANGED <<svars, dirv, modev, gen, rcv, main, sent, ordv>>

(* ================================================================ receiving side: main routine *)
MainHandshake ==
  /\ CASE main.pc = "hs" ->
            /\ LET st == MainScript[main.f] IN
                 IF st[1] = "put" THEN PutUp(<<st[2], 0>>) /\ UNCHANGED down ELSE GetDown(st[2]) /\ UNCHANGED up
            /\ main' = IF main.f < Len(MainScript) THEN P("hs", main.f + 1)
                       ELSE IF Pull THEN P("putrules", 1) ELSE IF RulesOnWire THEN P("getrules", 1) ELSE P("getlist", 0)
       [] main.pc = "putrules" ->       \* a receiving client always transmits its rule list
            /\ UNCHANGED down
            /\ IF main.f <= NRules THEN PutUp(<<"rule", main.f>>) /\ main' = P("putrules", main.f + 1)
               ELSE PutUp(<<"rend", 0>>) /\ main' = P("getlist", 0)
       [] main.pc = "getrules" ->       \* a receiving server that was told to --delete reads the rules first
            /\ UNCHANGED up
            /\ IF main.f <= NRules THEN GetDown("rule") /\ Head(down)[2] = main.f /\ main' = P("getrules", main.f + 1)
               ELSE GetDown("rend") /\ main' = P("getlist", 0)
       [] OTHER -> FALSE
  /\ UNCHANGED <<svars, dirv, modev, snd, gen, rcv, sent, ordv>>

MainList ==
  /\ main.pc = "getlist" /\ down # <<>> /\ Head(down)[1] \in {"ent", "lend"}
  /\ down' = Tail(down) /\ UNCHANGED up
  /\ main' = IF Head(down)[1] = "ent" THEN P("getlist", main.f + 1) ELSE P("delete", 0)
  /\ UNCHANGED <<svars, dirv, modev, snd, gen, rcv, sent, ordv>>

(* receiver/do.go Do: the delete pass precedes the generator *)
MainDelete ==
  /\ main.pc = "delete" /\ SDeletePass
  /\ main' = P("join", 0) /\ gen' = P("idx", 0) /\ rcv' = P("read", 0)
  /\ UNCHANGED <<dirv, modev, up, down, snd, sent, ordv>>

MainJoin ==
  /\ main.pc = "join" /\ gen.pc = "done" /\ rcv.pc = "done" /\ SFinish
  /\ main' = P(IF Pull THEN "stats" ELSE "bye", 0)
  /\ UNCHANGED <<dirv, modev, up, down, snd, gen, rcv, sent, ordv>>

MainEnd ==
  /\ CASE main.pc = "stats" -> /\ GetDown("stats") /\ UNCHANGED up /\ main' = P("bye", 0)
       [] main.pc = "bye"   -> /\ PutUp(<<"bye", 0>>) /\ UNCHANGED down /\ main' = P("done", 0)
       [] OTHER -> FALSE
  /\ UNCHANGED <<svars, dirv, modev, snd, gen, rcv, sent, ordv>>

(* ================================================================ receiving side: generator *)
(* one file-list entry: RecvSide's Gen (GenStep on the destination) and, if *)
(* the update rule asks for the file, the index on the wire                 *)
GenEntry ==
  /\ gen.pc = "idx" /\ pc = "run" /\ gi < Len(list)
  /\ LET g == GenStep(fs, list[gi + 1], opts) IN
       IF g.req = "none" THEN UNCHANGED up /\ gen' = gen
       ELSE /\ PutUp(<<"idx", gi + 1>>)
            /\ gen' = IF g.req = "dry" THEN gen ELSE P("sums", gi + 1)
  /\ SGen
  /\ UNCHANGED <<dirv, modev, down, snd, rcv, main, sent, ordv>>
GenSums ==
  /\ gen.pc = "sums" /\ PutUp(<<"sum", gen.f>>) /\ gen' = P("idx", 0)
  /\ UNCHANGED <<svars, dirv, modev, down, snd, rcv, main, sent, ordv>>
GenMarkers ==
  /\ \/ gen.pc = "idx" /\ pc = "run" /\ gi = Len(list) /\ PutUp(<<"m", 1>>) /\ gen' = P("m2", 0)
     \/ gen.pc = "m2" /\ PutUp(<<"m", 2>>) /\ gen' = P("done", 0)
  /\ UNCHANGED <<svars, dirv, modev, down, snd, rcv, main, sent, ordv>>

(* ================================================================ receiving side: receiver *)
RcvMayRun == ~RcvAfterGen \/ gen.pc = "done"
RcvRead ==
  /\ RcvMayRun
  /\ rcv.pc = "read" /\ down # <<>> /\ Head(down)[1] \in {"ans", "ack"}
  /\ down' = Tail(down)
  /\ LET y == Head(down) IN
       rcv' = IF y[1] = "ans" THEN (IF opts.n THEN rcv ELSE P("toks", y[2]))
              ELSE IF y[2] = 1 THEN P("read", 0) ELSE P("done", 0)
  /\ UNCHANGED <<svars, dirv, modev, up, snd, gen, main, sent, ordv>>
RcvToks ==
  /\ RcvMayRun
  /\ rcv.pc = "toks" /\ GetDown("tok") /\ Head(down)[2] = rcv.f /\ rcv' = P("end", rcv.f)
  /\ UNCHANGED <<svars, dirv, modev, up, snd, gen, main, sent, ordv>>
(* the whole-file checksum arrived and matched: RecvSide's Rcv (rename over  *)
(* the destination, attributes) - the ONLY step that changes a listed       *)
(* regular file                                                             *)
RcvCommit ==
  /\ RcvMayRun
  /\ rcv.pc = "end" /\ GetDown("end") /\ Head(down)[2] = rcv.f
  /\ pend # <<>> /\ Head(pend).name = list[rcv.f].name
  /\ SRcv
  /\ rcv' = P("read", 0)
  /\ UNCHANGED <<dirv, modev, up, snd, gen, main, sent, ordv>>

Finished == main.pc = "done" /\ snd.pc = "done"
RStutter == Finished /\ UNCHANGED rvars
SndAct == SndHandshake \/ SndList \/ SndLoop
MainAct == MainHandshake \/ MainList \/ MainDelete \/ MainJoin \/ MainEnd
GenAct == GenEntry \/ GenSums \/ GenMarkers
RcvAct == RcvRead \/ RcvToks \/ RcvCommit
RSteps == SndAct \/ MainAct \/ GenAct \/ RcvAct
RNext == RSteps \/ RStutter
RSpec == RInit /\ [][RNext]_rvars /\ WF_rvars(SndAct) /\ WF_rvars(MainAct) /\ WF_rvars(GenAct) /\ WF_rvars(RcvAct)

(* ================================================================ properties *)
(* the composed system never does anything to the destination that RecvSide *)
(* does not allow (so Confluent, DryRunNoChange, NoCollateralDelete,         *)
(* DeleteComplete, ContentIdentical, RepeatIsNoOp carry over)                *)
RefinesRecvSide == [][ScnNext]_svars
(* C18 on the composed system *)
Termination == <>Finished
CleanEnd == Finished => up = <<>> /\ down = <<>> /\ pc = "done"
ChannelsBounded == Len(up) <= (IF CapUp = 0 THEN 1 ELSE CapUp) /\ Len(down) <= (IF CapDown = 0 THEN 1 ELSE CapDown)
(* C01/C15: both ends pair index and file the same way - every data item on *)
(* the wire is for an entry the generator asked for, and it is a regular file *)
IndexPairing ==
  \A k \in 1..Len(down) : down[k][1] \in {"ans", "tok", "end"} =>
      /\ down[k][2] \in 1..Len(list) /\ list[down[k][2]].t = "reg" /\ Requested(down[k][2])
(* C10: a dry run moves no file data *)
NoDataUnderN == opts.n => \A k \in 1..Len(down) : down[k][1] \notin {"tok", "end"}
(* C03/C04: a listed regular file changes only in the step that consumed its *)
(* verified end-of-file item                                                 *)
CommitOnlyVerified ==
  [][\A i \in 1..Len(list) :
       (list[i].t = "reg" /\ fs[list[i].name].t = "reg" /\ fs'[list[i].name].t = "reg" /\ fs'[list[i].name].c # fs[list[i].name].c)
          => (rcv.pc = "end" /\ rcv.f = i /\ Head(down) = <<"end", i>>)]_rvars
(* C12 at the wire: exactly the files the update rule selects are requested, in list order *)
RequestsFollowRule == pc = "done" => reqs = Expected(fs0, list, opts, ioerr, prot).reqs
=============================================================================
