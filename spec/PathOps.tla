------------------------------ MODULE PathOps ------------------------------
(* Path resolution over a root directory inside a sandbox, modelled twice:  *)
(* Rooted (what os.Root does: every step must stay inside the root;          *)
(* symlinks are followed only while they stay inside) and Naive (plain path  *)
(* joining, follows everything).  Shared by Confine (C05) and Disclose (C06).*)
(* Layout: box/ (outside region) > box/root/ (inside) and box/outside/file.  *)
(* Components: a (plain), l -> ../outside, lf -> ../outside/file, li -> a,   *)
(* s -> ../outside (only once the peer created it), "." and "..".            *)
EXTENDS Integers, Sequences, FiniteSets, TLC

(* ---- locations: [reg |-> "in" | "out", path |-> sequence below dst / below box] *)
In(p) == [reg |-> "in", path |-> p]
Out(p) == [reg |-> "out", path |-> p]
Root == In(<<>>)

(* where a symlink component leads (sentS: the list already created s) *)
LinkTarget(c, sentS) ==
  CASE c \in {"l", "labs", "ldd", "lsib"} -> Out(<<"outside">>)   \* relative, absolute, absolute via "<root>/../outside", sibling "<root>-private"
    [] c = "li" -> In(<<"a">>)              \* a link that stays inside
    [] c = "lf" -> Out(<<"outside", "file">>)
    [] c = "s" /\ sentS -> Out(<<"outside">>)
    [] OTHER -> Root          \* not a link
IsLink(c, sentS) == c \in {"l", "lf", "li", "labs", "ldd", "lsib"} \/ (c = "s" /\ sentS)

(* one naive step from a location *)
NaiveStep(loc, c, sentS, last, follow) ==
  IF c = "." THEN loc
  ELSE IF c = ".." THEN
     IF loc.reg = "in" THEN (IF loc.path = <<>> THEN Out(<<>>) ELSE In(SubSeq(loc.path, 1, Len(loc.path) - 1)))
     ELSE Out(IF loc.path = <<>> THEN <<>> ELSE SubSeq(loc.path, 1, Len(loc.path) - 1))
  ELSE IF loc.reg = "in" /\ loc.path = <<>> /\ IsLink(c, sentS) /\ (~last \/ follow)
       THEN LinkTarget(c, sentS)
       ELSE [loc EXCEPT !.path = Append(loc.path, c)]
NaiveLoc(name, abs, sentS, follow) ==
  LET F[k \in 0..Len(name)] ==
        IF k = 0 THEN (IF abs THEN Out(<<"abs">>) ELSE Root)
        ELSE NaiveStep(F[k-1], name[k], sentS, k = Len(name), follow)
  IN F[Len(name)]
Refused == [reg |-> "refused", path |-> <<>>]
(* the rooted resolution refuses as soon as a step would leave the root *)
RootedLoc(name, abs, sentS, follow) ==
  LET F[k \in 0..Len(name)] ==
        IF k = 0 THEN (IF abs THEN Refused ELSE Root)
        ELSE IF F[k-1].reg = "refused" THEN Refused
             ELSE LET n == NaiveStep(F[k-1], name[k], sentS, k = Len(name), follow)
                  IN IF n.reg = "out" THEN Refused ELSE n
  IN F[Len(name)]

=============================================================================
