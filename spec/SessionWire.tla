---------------------------- MODULE SessionWire ----------------------------
(* C18: ACTION-LEVEL validation of real pull sessions against Session.tla. *)
(* The instrumented transport records every write it accepts with a        *)
(* sequence number taken under the pipe's mutex; the harness parses the    *)
(* two byte streams into the items of Session.tla                          *)
(*   up:   idx f | sum f (sum head and block sums) | m 1 | m 2 | bye       *)
(*   down: ans f (index and sum head) | tok f (all tokens) | end f (end    *)
(*         token and file checksum) | ack 1 | ack 2 | stats                *)
(* (NSums = NToks = 1) and orders them by the sequence number of the write *)
(* that completed them.  Each logged event must be a put of exactly that   *)
(* item by Session's GenStep / MainStep (up) or SndStep (down).            *)
(* Reads are NOT logged: both ends read through bufio and read ahead, so   *)
(* the moment a process consumes an item is not observable.  All steps     *)
(* that do not append to a channel (gets, pc changes, the join) are silent *)
(* and taken eagerly: the processes are deterministic and their silent     *)
(* steps commute, so the eager schedule accepts whenever any does.         *)
(* Capacities: a rendezvous transport (0 bytes) is Session's capacity 0 -  *)
(* a put needs the reader parked in its get; any byte capacity > 0 is      *)
(* validated against an unbounded channel (a superset of its behaviours).  *)
EXTENDS Session, Json, IOUtils
Traces == ndJsonDeserialize(IOEnv.VERIF_TRACE)
VARIABLES t, l, st
wvars == <<vars, t, l, st>>
Tr == Traces[t]
Ev == Tr.events[l]

NoAppend == Len(up') <= Len(up) /\ Len(down') <= Len(down)
SilentGen == GenStep /\ NoAppend
SilentSnd == SndStep /\ NoAppend
SilentRcv == RcvStep /\ NoAppend
SilentMain == MainStep /\ NoAppend
Silent == /\ st = "run"
          /\ (SilentGen \/ SilentSnd \/ SilentRcv \/ SilentMain)
          /\ UNCHANGED <<t, l, st>>

PutUp == /\ Ev.ch = "up"
         /\ (IF Ev.item = "bye" THEN MainStep ELSE GenStep)
         /\ Len(up') = Len(up) + 1 /\ up'[Len(up')] = <<Ev.item, Ev.f>>
PutDown == /\ Ev.ch = "down"
           /\ SndStep
           /\ Len(down') = Len(down) + 1 /\ down'[Len(down')] = <<Ev.item, Ev.f>>
Logged == /\ st = "run" /\ l <= Len(Tr.events)
          /\ ~ENABLED Silent
          /\ (PutUp \/ PutDown)
          /\ l' = l + 1 /\ UNCHANGED <<t, st>>
Accept == /\ st = "run" /\ l = Len(Tr.events) + 1
          /\ ~ENABLED Silent
          /\ main.pc = "done" /\ snd.pc = "done" /\ up = <<>> /\ down = <<>>     \* Session!CleanEnd
          /\ st' = "acc" /\ UNCHANGED <<vars, t, l>>
Step == Silent \/ Logged \/ Accept
Reject == /\ st = "run" /\ ~ENABLED Step
          /\ PrintT(<<"REJECT", Tr.id, l>>)
          /\ st' = "rej" /\ UNCHANGED <<vars, t, l>>
Done == st # "run" /\ UNCHANGED wvars

WInit == Init /\ t \in {i \in 1..Len(Traces) : Traces[i].nf = NF /\ Traces[i].cu = CapUp /\ Traces[i].cd = CapDown} /\ l = 1 /\ st = "run"
WNext == Step \/ Reject \/ Done
WSpec == WInit /\ [][WNext]_wvars
=============================================================================
