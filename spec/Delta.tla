------------------------------ MODULE Delta ------------------------------
(* The rsync delta transfer of ONE file, as gokrazy/rsync implements it:   *)
(*   sender  : internal/sender/match.go hashSearch/matched, sender.go      *)
(*             sendFile (whole-file path when the receiver sent no sums)   *)
(*   receiver: internal/receiver/receiver.go receiveData                   *)
(* The receiver holds `basis`, the sender holds `target`.  The receiver's  *)
(* request (block length blk, strong-sum length s2, one weak+strong sum    *)
(* per block of basis) is implicit in (basis, blk, s2).                    *)
EXTENDS DeltaOps, TLC

CONSTANTS AlphaNeg, AlphaPos,  \* files are made of the signed-char values -AlphaNeg..AlphaPos
          MaxLen,        \* longest basis / target
          MaxBlk,        \* block lengths 1..MaxBlk
          S2Set,         \* strong-sum lengths offered: subset of {0, 16}
          FlushAt        \* unmatched run after which the sender flushes early

VARIABLES basis, target, blk, s2,   \* the scenario (fixed after Init)
          off,                      \* sender: byte offset being examined (match.go `offset`)
          lastMatch,                \* sender: end of what has been described (st.lastMatch)
          toks,                     \* the token stream on the wire so far
          trailer,                  \* whole-file sum the sender appended (meaningful once pc = "done")
          rpos,                     \* receiver: tokens consumed
          out,                      \* receiver: bytes written to the temp file
          result,                   \* receiver: "run" | "ok" (renamed into place) | "corrupt"
          pc                        \* sender: "search" | "whole" | "done"

Alphabet == (0 - AlphaNeg)..AlphaPos

vars == <<basis, target, blk, s2, off, lastMatch, toks, trailer, rpos, out, result, pc>>

NB == NBlocks(basis, blk)
End == Len(target) + 1 - LastBlockLen(basis, blk)     \* match.go: end

Init ==
  /\ basis \in SeqsUpTo(Alphabet, MaxLen)
  /\ target \in SeqsUpTo(Alphabet, MaxLen)
  /\ blk \in 1..MaxBlk
  /\ s2 \in S2Set
  /\ off = 0 /\ lastMatch = 0 /\ toks = <<>> /\ trailer = <<>>
  /\ rpos = 0 /\ out = <<>> /\ result = "run"
  /\ pc = IF NBlocks(basis, blk) = 0 THEN "whole" ELSE "search"

Unmatched(o) == IF o > lastMatch THEN <<[lit |-> SubSeq(target, lastMatch + 1, o)]>> ELSE <<>>

(* sender.go sendFile: no sums received -> the whole file as literal data *)
SendWhole ==
  /\ pc = "whole"
  /\ toks' = IF Len(target) > 0 THEN <<[lit |-> target]>> ELSE <<>>
  /\ lastMatch' = Len(target) /\ off' = Len(target)
  /\ trailer' = target               \* H(seed || target), H abstractly injective
  /\ pc' = "done"
  /\ UNCHANGED <<basis, target, blk, s2, rpos, out, result>>

(* match.go: a block with equal weak sum, equal length and equal strong sum *)
Match(i) ==
  /\ pc = "search" /\ off < End /\ Len(target) > 0
  /\ IsCand(basis, target, blk, s2, off, i)
  /\ toks' = toks \o Unmatched(off) \o <<[ref |-> i]>>
  /\ lastMatch' = off + BlockLen(basis, blk, i)
  /\ off' = off + BlockLen(basis, blk, i)
  /\ UNCHANGED <<basis, target, blk, s2, trailer, rpos, out, result, pc>>

(* match.go: no candidate at this offset: roll the checksum one byte on *)
Slide ==
  /\ pc = "search" /\ off < End /\ Len(target) > 0
  /\ Cands(basis, target, blk, s2, off) = {}
  /\ off' = off + 1
  /\ UNCHANGED <<basis, target, blk, s2, lastMatch, toks, trailer, rpos, out, result, pc>>

(* match.go: "prevent offset-lastMatch from growing too large": literal flush *)
FlushEarly ==
  /\ pc = "search" /\ off < End /\ off - lastMatch >= FlushAt + blk
  /\ toks' = toks \o <<[lit |-> SubSeq(target, lastMatch + 1, off - blk)]>>
  /\ lastMatch' = off - blk
  /\ UNCHANGED <<basis, target, blk, s2, off, trailer, rpos, out, result, pc>>

(* match.go: matched(size, -1) and the whole-file checksum *)
Finish ==
  /\ pc = "search" /\ (off >= End \/ Len(target) = 0)
  /\ toks' = toks \o Unmatched(Len(target))
  /\ lastMatch' = Len(target)
  /\ trailer' = target
  /\ pc' = "done"
  /\ UNCHANGED <<basis, target, blk, s2, off, rpos, out, result>>

(* receiver.go receiveData: one token at a time into the temp file *)
RcvLit ==
  /\ result = "run" /\ rpos < Len(toks) /\ IsLit(toks[rpos + 1])
  /\ out' = out \o toks[rpos + 1].lit
  /\ rpos' = rpos + 1
  /\ UNCHANGED <<basis, target, blk, s2, off, lastMatch, toks, trailer, result, pc>>
RcvRef ==
  /\ result = "run" /\ rpos < Len(toks) /\ ~IsLit(toks[rpos + 1])
  /\ toks[rpos + 1].ref \in 0..NB - 1
  /\ LET i == toks[rpos + 1].ref IN
       out' = out \o SubSeq(basis, i * blk + 1, i * blk + BlockLen(basis, blk, i))
  /\ rpos' = rpos + 1
  /\ UNCHANGED <<basis, target, blk, s2, off, lastMatch, toks, trailer, result, pc>>
(* receiver.go: a reference to a block the basis does not have (ReadAt fails): *)
(* the transfer of this file fails; cannot happen with an undamaged stream     *)
RcvBadRef ==
  /\ result = "run" /\ rpos < Len(toks) /\ ~IsLit(toks[rpos + 1])
  /\ toks[rpos + 1].ref \notin 0..NB - 1
  /\ result' = "corrupt"
  /\ UNCHANGED <<basis, target, blk, s2, off, lastMatch, toks, trailer, rpos, out, pc>>
(* receiver.go: compare MD4(seed || written bytes) with the trailer, then rename *)
RcvEnd ==
  /\ result = "run" /\ pc = "done" /\ rpos = Len(toks)
  /\ result' = IF out = trailer THEN "ok" ELSE "corrupt"
  /\ UNCHANGED <<basis, target, blk, s2, off, lastMatch, toks, trailer, rpos, out, pc>>

Terminated == result # "run" /\ UNCHANGED vars

MatchAny == \E i \in 0..NB - 1 : Match(i)

Next == SendWhole \/ MatchAny \/ Slide \/ FlushEarly \/ Finish
        \/ RcvLit \/ RcvRef \/ RcvBadRef \/ RcvEnd \/ Terminated
Spec == Init /\ [][Next]_vars /\ WF_vars(Next)

--------------------------------------------------------------------------
(* a reference whose block differs from the bytes it stands for (possible  *)
(* only when the strong sum is truncated)                                  *)
Diverged == Denote(toks, basis, blk) # SubSeq(target, 1, lastMatch)

TypeOK == /\ off \in 0..Len(target) + MaxBlk /\ lastMatch \in 0..Len(target)
          /\ rpos \in 0..Len(toks) /\ result \in {"run", "ok", "corrupt"}
          /\ pc \in {"search", "whole", "done"}

(* C02: what has been sent denotes exactly the described prefix of target *)
PrefixExact == s2 = 16 => ~Diverged
(* C02: with full strong sums a weak collision alone never yields a reference *)
NoWeakOnlyRef == s2 = 16 => \A k \in 1..Len(toks) : ~IsLit(toks[k]) =>
                   \E o \in 0..Len(target) : Block(basis, blk, toks[k].ref) = Window(target, blk, o)
(* C02: the finished stream denotes the whole file and carries its checksum *)
Exact == pc = "done" => /\ trailer = target
                        /\ lastMatch = Len(target)
                        /\ (s2 = 16 => Denote(toks, basis, blk) = target)
(* C02 (receiver half): the receiver writes exactly what the tokens denote *)
RcvFaithful == out = Denote(SubSeq(toks, 1, rpos), basis, blk)
(* C03: only data that passes the whole-file check is accepted *)
ChecksumGate == (result = "ok" => out = target) /\ (result = "corrupt" => out # target)
(* C16 on arbitrary data: an identical file costs no literal bytes *)
IdenticalFree == (pc = "done" /\ target = basis /\ Len(basis) > 0) => LitBytes(toks) = 0

(* every transfer finishes *)
Termination == <>(result # "run")
=============================================================================
