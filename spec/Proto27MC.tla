----------------------------- MODULE Proto27MC -----------------------------
(* Exhaustive check of the protocol-27 file-list codec in small scope:     *)
(* every list of 1..MaxEntries entries from a pool (names with shared      *)
(* prefixes, sizes 0 / 2^31-1 / 2^31 / 2^40, every entry type, equal and   *)
(* different modes, times and ids) under each option set, encoded with     *)
(* EVERY valid choice of the optional compressions (inherited name prefix  *)
(* of any length, one-byte or four-byte name length, "same as previous"    *)
(* flags, top-dir flag), must decode to exactly the entries encoded.       *)
(* Each finished encoding is emitted for replay on the real decoder.       *)
EXTENDS Proto27, Json, CSV, IOUtils

CONSTANT MaxEntries

Sz(a, b, c, d) == <<a, b, c, d>>
E(name, size, mtime, mode, uid, gid, rdev, link) ==
  [name |-> name, size |-> size, mtime |-> mtime, mode |-> mode, uid |-> uid, gid |-> gid, rdev |-> rdev, link |-> link,
   sum |-> <<1, 2, 3, 4, 5, 6, 7, 8, 9, 10, 11, 12, 13, 14, 15, 16>>]
NameA == <<97>>  NameAB == <<97, 98>>  NameAsB == <<97, 47, 98>>  NameB == <<98>>  NameHi == <<97, 200, 255>>
Pool == {
  E(NameA,   Sz(0, 0, 0, 0),         1000, 33188, 0, 0, 0, <<>>),            \* empty regular file
  E(NameAB,  Sz(65535, 32767, 0, 0), 1000, 33188, 0, 1000, 0, <<>>),         \* 2^31-1 bytes
  E(NameAsB, Sz(0, 32768, 0, 0),     2000, 33188, 1000, 1000, 0, <<>>),      \* 2^31 bytes
  E(NameB,   Sz(0, 0, 256, 0),       0 - 5, 33060, 1000, 0, 0, <<>>),        \* 2^40 bytes, pre-1970 mtime, other mode
  E(NameHi,  Sz(7, 0, 0, 0),         1000, 33188, 0, 0, 0, <<>>),            \* name with bytes >= 0x80
  E(NameA,   Sz(4096, 0, 0, 0),      1000, 16877, 0, 0, 0, <<>>),            \* directory
  E(NameAB,  Sz(3, 0, 0, 0),         1000, 41471, 0, 0, 0, <<116, 47, 255>>),\* symlink
  E(NameB,   Sz(0, 0, 0, 0),         1000, 8624, 0, 0, 259, <<>>),           \* character device
  E(NameAsB, Sz(0, 0, 0, 0),         2000, 8624, 0, 0, 259, <<>>),           \* second device, same rdev
  E(NameAB,  Sz(0, 0, 0, 0),         1000, 4516, 1000, 1000, 0, <<>>) }      \* fifo
Lists == UNION {[1..n -> Pool] : n \in 1..MaxEntries}
OptSets == { [uid |-> u, gid |-> g, links |-> l, devices |-> d, specials |-> s, checksum |-> c] :
               <<u, g, l, d, s, c>> \in { <<FALSE, FALSE, FALSE, FALSE, FALSE, FALSE>>, <<TRUE, TRUE, TRUE, TRUE, TRUE, TRUE>>,
                                          <<TRUE, FALSE, FALSE, FALSE, FALSE, FALSE>>, <<FALSE, TRUE, TRUE, FALSE, FALSE, TRUE>>,
                                          <<FALSE, FALSE, FALSE, TRUE, FALSE, FALSE>>, <<FALSE, FALSE, FALSE, FALSE, TRUE, FALSE>> } }

(* fields that are not on the wire under the option set come back as zero / empty *)
Project(e, o) == [e EXCEPT !.uid = IF o.uid THEN e.uid ELSE 0, !.gid = IF o.gid THEN e.gid ELSE 0,
                           !.rdev = IF HasRdev(e, o) THEN e.rdev ELSE 0,
                           !.link = IF o.links /\ IsLnk(e) THEN e.link ELSE <<>>,
                           !.sum = IF o.checksum THEN e.sum ELSE <<>>]

VARIABLES lst, o, k, enc, chosen
vars == <<lst, o, k, enc, chosen>>
Init == lst \in Lists /\ o \in OptSets /\ k = 0 /\ enc = <<>> /\ chosen = <<>>
EncodeOne ==
  /\ k < Len(lst)
  /\ \E ch \in Choices :
       /\ ValidChoice(lst[k + 1], IF k = 0 THEN NoEntry ELSE lst[k], k = 0, o, ch)
       /\ (ch.su => o.uid) /\ (ch.sg => o.gid)
       /\ enc' = enc \o EncodeEntry(Project(lst[k + 1], o), o, ch)
       /\ chosen' = Append(chosen, ch)
  /\ k' = k + 1 /\ UNCHANGED <<lst, o>>
Finish == /\ k = Len(lst) /\ k' = k + 1
          /\ enc' = enc \o Trailer(o, 0) /\ UNCHANGED <<lst, o, chosen>>
Done == k = Len(lst) + 1 /\ UNCHANGED vars
Next == EncodeOne \/ Finish \/ Done
Spec == Init /\ [][Next]_vars

Complete == k = Len(lst) + 1
RoundTrip == Complete =>
  LET d == Decode(enc, o) IN
    /\ d.ok /\ d.ioerr = 0
    /\ d.entries = [i \in 1..Len(lst) |-> Project(lst[i], o)]
(* both ends sort bytewise by name: the order is total on distinct names *)
OrderTotal == \A x \in Pool, y \in Pool : x.name # y.name => (NameLess(x.name, y.name) # NameLess(y.name, x.name))

OutFile == IOEnv.VERIF_OUT
Emit == Complete =>
  CSVWrite("%1$s", <<ToJson([opts |-> o, entries |-> [i \in 1..Len(lst) |-> Project(lst[i], o)], bytes |-> enc,
                             flags |-> [i \in 1..Len(chosen) |-> FlagsOf(Project(lst[i], o), chosen[i])]])>>, OutFile)
=============================================================================
