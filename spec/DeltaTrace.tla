--------------------------- MODULE DeltaTrace ---------------------------
(* Validation of token streams recorded from the REAL sender (one trace    *)
(* per scripted request) against the delta specification.                  *)
(*                                                                         *)
(* A trace line carries the request (block length, strong-sum length,      *)
(* counts), the tokens the sender answered with and the facts the          *)
(* independent reference receiver established about each token.  For       *)
(* small cases the raw basis/target bytes are included and this module     *)
(* re-derives every fact itself with DeltaOps (so the reference receiver   *)
(* is validated too); for large cases it relies on the logged facts.       *)
(*                                                                         *)
(* A token stream is accepted iff each literal equals the target bytes at  *)
(* its position, each reference is a legal candidate (IsCand) for the      *)
(* window at its position, the stream ends exactly at the end of the       *)
(* target and the trailer is the target's whole-file checksum.  Nothing    *)
(* is required about literal chunking, flushing or tie-breaking.           *)
EXTENDS DeltaOps, Json, IOUtils, TLC

Traces == ndJsonDeserialize(IOEnv.VERIF_TRACE)

VARIABLES t,     \* index of the trace being validated
          l,     \* next token of that trace
          pos,   \* bytes of the target described so far
          lit,   \* literal bytes so far
          div,   \* a reference stood for different bytes (truncated strong sum only)
          st     \* "run" | "acc" | "rej"
vars == <<t, l, pos, lit, div, st>>

Tr == Traces[t]
Ev == Tr.toks[l]

Init == t \in 1..Len(Traces) /\ l = 1 /\ pos = 0 /\ lit = 0 /\ div = FALSE /\ st = "run"

LitOK(e) ==
  /\ e.n > 0 /\ pos + e.n <= Tr.tlen /\ e.eq
  /\ Tr.small => /\ Len(e.d) = e.n
                 /\ e.d = SubSeq(Tr.target, pos + 1, pos + e.n)

RefOK(e) ==
  /\ e.i \in 0..Tr.count - 1
  /\ e.fit /\ e.wk /\ e.ss
  /\ Tr.s2 = 16 => e.same                     \* NoWeakOnlyRef
  /\ Tr.small => /\ IsCand(Tr.basis, Tr.target, Tr.blk, Tr.s2, pos, e.i)
                 /\ e.bl = BlockLen(Tr.basis, Tr.blk, e.i)
                 /\ e.same = (Block(Tr.basis, Tr.blk, e.i) = Window(Tr.target, Tr.blk, pos))

HeaderOK ==
  /\ Tr.idxok /\ Tr.hdrok
  /\ Tr.small => /\ Tr.count = NBlocks(Tr.basis, Tr.blk)
                 /\ Tr.rem = Remainder(Tr.basis, Tr.blk)
                 /\ Tr.tlen = Len(Tr.target)

StepLit == /\ st = "run" /\ l <= Len(Tr.toks) /\ Ev.k = "lit" /\ LitOK(Ev)
           /\ pos' = pos + Ev.n /\ lit' = lit + Ev.n /\ l' = l + 1
           /\ UNCHANGED <<t, div, st>>
StepRef == /\ st = "run" /\ l <= Len(Tr.toks) /\ Ev.k = "ref" /\ RefOK(Ev)
           /\ pos' = pos + Ev.bl /\ div' = (div \/ ~Ev.same) /\ l' = l + 1
           /\ UNCHANGED <<t, lit, st>>
(* a run of consecutive references, each established as a legal candidate  *)
(* with equal content by the reference receiver (large traces only)        *)
StepRun == /\ st = "run" /\ l <= Len(Tr.toks) /\ Ev.k = "refrun" /\ ~Tr.small
           /\ Ev.n > 0 /\ pos + Ev.bytes <= Tr.tlen
           /\ pos' = pos + Ev.bytes /\ l' = l + 1
           /\ UNCHANGED <<t, lit, div, st>>
StepEnd == /\ st = "run" /\ l = Len(Tr.toks) + 1
           /\ Tr.ended /\ Tr.sumok /\ Tr.err = "" /\ HeaderOK
           /\ pos = Tr.tlen
           /\ Tr.bounded => lit <= LiteralBoundOf(Tr.inserted, Tr.slack, Tr.blk, Tr.nedits)   \* C16
           /\ st' = "acc" /\ UNCHANGED <<t, l, pos, lit, div>>
Step == StepLit \/ StepRef \/ StepRun \/ StepEnd

Reject == /\ st = "run" /\ ~ENABLED Step
          /\ PrintT(<<"REJECT", Tr.id, l>>)
          /\ st' = "rej" /\ UNCHANGED <<t, l, pos, lit, div>>
Done == st # "run" /\ UNCHANGED vars

Next == Step \/ Reject \/ Done
Spec == Init /\ [][Next]_vars
=============================================================================
