---------------------------- MODULE DeltaColl ----------------------------
(* Weak-checksum collisions in small scope.  Files are assembled from a    *)
(* pool of 3-byte blocks that contains two families of blocks with EQUAL   *)
(* weak checksum and different content (e.g. <<-1,1,-1>> and <<0,-1,0>>),  *)
(* so that a collision sits at every possible position relative to a      *)
(* genuine match (before it, directly after it, in the remainder).  With   *)
(* the full strong sum no reference may stand on a collision; with a       *)
(* zero-length strong sum the sender is misled, and the receiver's         *)
(* whole-file check (ChecksumGate) must catch it.                          *)
EXTENDS Delta, Json, CSV, IOUtils

CONSTANTS MaxBlocks     \* files of 1..MaxBlocks pool blocks

Blocks3 == [1..3 -> Alphabet]
Coll == {b \in Blocks3 : \E c \in Blocks3 : c # b /\ Weak(c) = Weak(b)}
Pool == {b \in Coll : S1(b) \in {65535, 1}}

Concat(ss) == LET F[k \in 0..Len(ss)] == IF k = 0 THEN <<>> ELSE F[k-1] \o ss[k] IN F[Len(ss)]
Files == {Concat(ss) : ss \in UNION {[1..k -> Pool] : k \in 1..MaxBlocks}}

CollInit ==
  /\ basis \in Files /\ target \in Files
  /\ blk = 3 /\ s2 \in S2Set
  /\ off = 0 /\ lastMatch = 0 /\ toks = <<>> /\ trailer = <<>>
  /\ rpos = 0 /\ out = <<>> /\ result = "run"
  /\ pc = "search"
CollSpec == CollInit /\ [][Next]_vars

(* a misled transfer (possible only with s2 = 0) never ends as "ok" *)
CollisionCaught == (pc = "done" /\ Diverged /\ result # "run") => result = "corrupt"

OutFile == IOEnv.VERIF_OUT
Emit == CSVWrite("%1$s", <<ToJson([basis |-> basis, target |-> target, blk |-> blk, s2 |-> s2])>>, OutFile)
GenNext == FALSE /\ UNCHANGED vars
GenSpec == CollInit /\ [][GenNext]_vars
=============================================================================
