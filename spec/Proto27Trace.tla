--------------------------- MODULE Proto27Trace ---------------------------
(* C15: conformance of the REAL file-list encoder and decoder to Proto27.  *)
(*  decode: an encoding produced by Proto27MC (any valid use of the        *)
(*          optional compressions) was fed to the real ReceiveFileList;    *)
(*          what it returned must be exactly Proto27!Decode of those bytes *)
(*  encode: the real sender listed a small tree; TLC itself decodes the    *)
(*          captured bytes with Proto27!Decode and must obtain exactly the *)
(*          entries lstat reports for the tree                             *)
(*  big:    lists beyond TLC's reach are judged by the reference codec     *)
(*          (which is itself validated through the two routes above)       *)
EXTENDS Proto27, Json, IOUtils

Traces == ndJsonDeserialize(IOEnv.VERIF_TRACE)
VARIABLES t, st
vars == <<t, st>>
Tr == Traces[t]
AsSet(s) == {s[i] : i \in 1..Len(s)}
Accepts ==
  IF Tr.mode = "big" THEN Tr.err = "" /\ Tr.mismatch = 0
  ELSE LET d == Decode(Tr.bytes, Tr.opts) IN
       /\ Tr.err = ""
       /\ d.ok
       /\ Len(d.entries) = Len(Tr.decoded)
       /\ AsSet(d.entries) = AsSet(Tr.decoded)           \* (the receiver sorts the list; order is judged by the index checks)
       /\ Tr.mode = "decode" => Tr.ioerr = d.ioerr
Init == t \in 1..Len(Traces) /\ st = "run"
Check == /\ st = "run"
         /\ IF Accepts THEN st' = "acc" ELSE (PrintT(<<"REJECT", Tr.id, 0>>) /\ st' = "rej")
         /\ UNCHANGED t
Done == st # "run" /\ UNCHANGED vars
Spec == Init /\ [][Check \/ Done]_vars
=============================================================================
