----------------------------- MODULE Universes -----------------------------
(* Path universes (bytewise sorted, "." first) and parent maps of the      *)
(* RecvScen scenario families                                              *)
LOCAL INSTANCE TLC          \* :> and @@
U12 == <<".", "a", "f", "z">>
P12 == [p \in {".", "a", "f", "z"} |-> "."]
U10 == <<".", "d", "d/f", "dev", "f", "l", "s", "x", "x/f", "y">>
P10 == [p \in {".", "d", "d/f", "dev", "f", "l", "s", "x", "x/f", "y"} |-> IF p = "d/f" THEN "d" ELSE IF p = "x/f" THEN "x" ELSE "."]
(* "+p" sorts before ".", "d-" between "d" and "d/a": the bytewise order of the file list differs from the order of a directory walk *)
U09 == <<"+p", ".", "a", "ab", "d", "d-", "d/a", "e", "e/a">>
P09 == [p \in {"+p", ".", "a", "ab", "d", "d-", "d/a", "e", "e/a"} |->
          IF p = "d/a" THEN "d" ELSE IF p = "e/a" THEN "e" ELSE "."]
U09q == <<"+p", ".", "a", "ab", "d", "d-", "d/a">>
P09q == [p \in {"+p", ".", "a", "ab", "d", "d-", "d/a"} |-> IF p = "d/a" THEN "d" ELSE "."]
U11 == <<".", "d", "d/f", "dev", "e", "f", "g", "k", "l", "ro", "ro/f", "z">>
P11 == [p \in {".", "d", "d/f", "dev", "e", "f", "g", "k", "l", "ro", "ro/f", "z"} |-> IF p = "d/f" THEN "d" ELSE IF p = "ro/f" THEN "ro" ELSE "."]

U13 == <<".", "_b", "a", "b", "ba", "bl", "c", "d", "d/a", "d/b", "d/e", "d/e/a">>     \* "ba" merely ENDS with the pattern "a"; "_b" starts with a separator character of the rule syntax; "bl" is a symlink (neither file nor directory) with siblings after it
P13 == [p \in {".", "_b", "a", "b", "ba", "bl", "c", "d", "d/a", "d/b", "d/e", "d/e/a"} |-> IF p \in {"d/a", "d/b", "d/e"} THEN "d" ELSE IF p = "d/e/a" THEN "d/e" ELSE "."]
U14 == <<".", "d", "d/f", "dev", "f", "k", "l", "z">>
P14 == [p \in {".", "d", "d/f", "dev", "f", "k", "l", "z"} |-> IF p = "d/f" THEN "d" ELSE "."]
U01 == <<".", "a", "b", "d", "d-", "d/a">>
P01 == [p \in {".", "a", "b", "d", "d-", "d/a"} |-> IF p = "d/a" THEN "d" ELSE "."]
(* C15 index agreement: walk order differs from bytewise order ("data/inner" vs "data-old", "data.txt"; names below ".") *)
U15 == <<"+p", "-d", ".", ".h", "Z", "a b", "data", "data-old", "data.txt", "data/inner">>
P15 == [p \in {"+p", "-d", ".", ".h", "Z", "a b", "data", "data-old", "data.txt", "data/inner"} |-> IF p = "data/inner" THEN "data" ELSE "."]
(* C18, concurrent sessions: the tree every session of the concurrency harness transfers (conc.go) *)
Uconc == <<".", "d", "d/e", "d/e/h02", "d/e/h05", "d/e/h08", "d/e/h11", "d/e/h14", "d/e/h17", "d/e/h20", "d/e/h23", "d/g01", "d/g04", "d/g07", "d/g10", "d/g13", "d/g16", "d/g19", "d/g22", "f00", "f03", "f06", "f09", "f12", "f15", "f18", "f21", "lnk">>
Pconc == "." :> "." @@ "d" :> "." @@ "d/e" :> "d" @@ "d/e/h02" :> "d/e" @@ "d/e/h05" :> "d/e" @@ "d/e/h08" :> "d/e" @@ "d/e/h11" :> "d/e" @@ "d/e/h14" :> "d/e" @@ "d/e/h17" :> "d/e" @@ "d/e/h20" :> "d/e" @@ "d/e/h23" :> "d/e" @@ "d/g01" :> "d" @@ "d/g04" :> "d" @@ "d/g07" :> "d" @@ "d/g10" :> "d" @@ "d/g13" :> "d" @@ "d/g16" :> "d" @@ "d/g19" :> "d" @@ "d/g22" :> "d" @@ "f00" :> "." @@ "f03" :> "." @@ "f06" :> "." @@ "f09" :> "." @@ "f12" :> "." @@ "f15" :> "." @@ "f18" :> "." @@ "f21" :> "." @@ "lnk" :> "."
Bconc == "." :> "." @@ "d" :> "d" @@ "d/e" :> "e" @@ "d/e/h02" :> "h02" @@ "d/e/h05" :> "h05" @@ "d/e/h08" :> "h08" @@ "d/e/h11" :> "h11" @@ "d/e/h14" :> "h14" @@ "d/e/h17" :> "h17" @@ "d/e/h20" :> "h20" @@ "d/e/h23" :> "h23" @@ "d/g01" :> "g01" @@ "d/g04" :> "g04" @@ "d/g07" :> "g07" @@ "d/g10" :> "g10" @@ "d/g13" :> "g13" @@ "d/g16" :> "g16" @@ "d/g19" :> "g19" @@ "d/g22" :> "g22" @@ "f00" :> "f00" @@ "f03" :> "f03" @@ "f06" :> "f06" @@ "f09" :> "f09" @@ "f12" :> "f12" @@ "f15" :> "f15" @@ "f18" :> "f18" @@ "f21" :> "f21" @@ "lnk" :> "lnk"
(* last path component of every path used in any universe *)
BaseAll == [p \in {".", "a", "ab", "b", "c", "d", "d/a", "d/b", "d/c", "d/e", "d/e/a", "d/f", "e", "e/a", "f", "l", "ro", "ro/f", "s", "x", "x/f", "y", "z", "k", "d/l", "dev", "+p", "-d", "d-", "g", "ba", "bl", "_b", ".h", "Z", "a b", "data", "data-old", "data.txt", "data/inner"} |->
   CASE p \in {"d/a", "d/e/a", "e/a"} -> "a" [] p = "d/b" -> "b" [] p = "d/c" -> "c" [] p = "d/e" -> "e"
     [] p \in {"d/f", "ro/f", "x/f"} -> "f" [] p = "d/l" -> "l" [] p = "data/inner" -> "inner" [] OTHER -> p]
=============================================================================
