----------------------------- MODULE Universes -----------------------------
(* Path universes (bytewise sorted, "." first) and parent maps of the      *)
(* RecvScen scenario families                                              *)
U12 == <<".", "a", "f", "z">>
P12 == [p \in {".", "a", "f", "z"} |-> "."]
U10 == <<".", "d", "d/f", "f", "l", "s", "x", "x/f", "y">>
P10 == [p \in {".", "d", "d/f", "f", "l", "s", "x", "x/f", "y"} |-> IF p = "d/f" THEN "d" ELSE IF p = "x/f" THEN "x" ELSE "."]
U09 == <<".", "a", "ab", "b", "c", "d", "d/a", "d/b", "e", "e/a">>
P09 == [p \in {".", "a", "ab", "b", "c", "d", "d/a", "d/b", "e", "e/a"} |->
          IF p \in {"d/a", "d/b"} THEN "d" ELSE IF p = "e/a" THEN "e" ELSE "."]
U09q == <<".", "a", "ab", "b", "d", "d/a", "e">>
P09q == [p \in {".", "a", "ab", "b", "d", "d/a", "e"} |-> IF p = "d/a" THEN "d" ELSE "."]
U11 == <<".", "d", "d/f", "f", "l", "ro", "ro/f">>
P11 == [p \in {".", "d", "d/f", "f", "l", "ro", "ro/f"} |-> IF p = "d/f" THEN "d" ELSE IF p = "ro/f" THEN "ro" ELSE "."]
=============================================================================
