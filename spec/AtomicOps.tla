----------------------------- MODULE AtomicOps -----------------------------
(* Pure operators of the atomic-replacement model (shared by Atomic and    *)
(* AtomicTrace): the wire units of one file transfer and the destination   *)
(* state after a number of delivered units.                                *)
EXTENDS Integers, Sequences, FiniteSets, TLC

Units(n) == <<"idx", "head">> \o [k \in 1..n |-> "tok"] \o <<"end", "sum">>

(* destination state after `delivered` complete units of the whole session, *)
(* given per-file token counts (sequence) and kinds (sequence)              *)
UnitsOf(nt) == Len(Units(nt))
ExpectedDst(kinds, ntoks, delivered) ==
  LET F[i \in 0..Len(kinds)] ==      \* units consumed by files 1..i
        IF i = 0 THEN 0 ELSE F[i-1] + UnitsOf(ntoks[i])
  IN [f \in 1..Len(kinds) |->
        IF delivered >= F[f] THEN "new"
        ELSE IF kinds[f] = "new" THEN "absent" ELSE "old"]


TotalUnits(ntoks) == LET F[i \in 0..Len(ntoks)] == IF i = 0 THEN 0 ELSE F[i-1] + UnitsOf(ntoks[i]) IN F[Len(ntoks)]
=============================================================================
