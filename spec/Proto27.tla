------------------------------ MODULE Proto27 ------------------------------
(* The rsync protocol-27 file-list wire format, written from the protocol  *)
(* description (rsync 2.6.0 flist.c, openrsync rsync.5), NOT from          *)
(* gokrazy's encoder/decoder:                                              *)
(*   entry  = flags [l1] (len32 | len8) name-suffix size64 [mtime] [mode]  *)
(*            [uid] [gid] [rdev] [linklen link] [md4]                      *)
(*   list   = entry* 0 [uid-list] [gid-list] io-error                      *)
(* Integers are little endian; a 64-bit value is sent as an int32 when it  *)
(* fits in 31 bits and as -1 followed by 8 bytes otherwise.  TLC integers  *)
(* are 32-bit, so file sizes are four 16-bit limbs (least significant      *)
(* first).                                                                 *)
EXTENDS Integers, Sequences, FiniteSets, TLC

Min2(a, b) == IF a < b THEN a ELSE b

(* ---------------------------------------------------------------- integers *)
Pow256(k) == CASE k = 0 -> 1 [] k = 1 -> 256 [] k = 2 -> 65536 [] k = 3 -> 16777216
LE(v, n) == [i \in 1..n |-> (v \div Pow256(i - 1)) % 256]       \* \div is floor division: two's complement for negatives
I32(v) == LE(v, 4)
RdI32(b, p) == b[p] + 256 * b[p + 1] + 65536 * b[p + 2]
               + 16777216 * (IF b[p + 3] >= 128 THEN b[p + 3] - 256 ELSE b[p + 3])
Fits31(sz) == sz[3] = 0 /\ sz[4] = 0 /\ sz[2] < 32768
I64(sz) == IF Fits31(sz) THEN LE(sz[1], 2) \o LE(sz[2], 2)
           ELSE <<255, 255, 255, 255>> \o LE(sz[1], 2) \o LE(sz[2], 2) \o LE(sz[3], 2) \o LE(sz[4], 2)
Limb(b, p) == b[p] + 256 * b[p + 1]

(* ---------------------------------------------------------------- entries *)
XTop == 1  XSameMode == 2  XSameRdev == 4  XSameUid == 8  XSameGid == 16  XSameName == 32  XLongName == 64  XSameTime == 128
IFMT == 61440  IFDIR == 16384  IFREG == 32768  IFLNK == 40960  IFCHR == 8192  IFBLK == 24576  IFIFO == 4096  IFSOCK == 49152
TypeOf(mode) == ((mode \div 4096) % 16) * 4096                     \* mode & S_IFMT
IsDir(e) == TypeOf(e.mode) = IFDIR
IsLnk(e) == TypeOf(e.mode) = IFLNK
IsDev(e) == TypeOf(e.mode) \in {IFCHR, IFBLK}
IsSpec(e) == TypeOf(e.mode) \in {IFIFO, IFSOCK}
(* opts: [uid, gid, links, devices, specials, checksum : BOOLEAN] *)
HasRdev(e, o) == (o.devices /\ IsDev(e)) \/ (o.specials /\ IsSpec(e))

Bit(f, b) == (f \div b) % 2 = 1
CommonPrefix(x, y) == LET n == Min2(Len(x), Len(y))
                          S == {k \in 0..n : \A i \in 1..k : x[i] = y[i]}
                      IN CHOOSE k \in S : \A j \in S : j <= k

(* a choice of the optional compressions for one entry *)
Choices == [l1 : 0..4, long : BOOLEAN, sm : BOOLEAN, st : BOOLEAN, su : BOOLEAN, sg : BOOLEAN, sr : BOOLEAN, top : BOOLEAN]
ValidChoice(e, prev, first, o, ch) ==
  /\ ch.l1 <= (IF first THEN 0 ELSE Min2(CommonPrefix(e.name, prev.name), 255))
  /\ ch.long \/ Len(e.name) - ch.l1 <= 255
  /\ ch.sm => ~first /\ e.mode = prev.mode
  /\ ch.st => ~first /\ e.mtime = prev.mtime
  /\ ch.su => ~first /\ o.uid /\ e.uid = prev.uid
  /\ ch.sg => ~first /\ o.gid /\ e.gid = prev.gid
  /\ ch.sr => ~first /\ HasRdev(e, o) /\ HasRdev(prev, o) /\ e.rdev = prev.rdev
  /\ ch.top => IsDir(e) \/ TRUE
FlagsOf(e, ch) ==
  LET f == (IF ch.top THEN XTop ELSE 0) + (IF ch.sm THEN XSameMode ELSE 0) + (IF ch.sr THEN XSameRdev ELSE 0)
           + (IF ch.su THEN XSameUid ELSE 0) + (IF ch.sg THEN XSameGid ELSE 0) + (IF ch.l1 > 0 THEN XSameName ELSE 0)
           + (IF ch.long THEN XLongName ELSE 0) + (IF ch.st THEN XSameTime ELSE 0)
  IN IF f # 0 THEN f ELSE IF IsDir(e) THEN XLongName ELSE XTop      \* a zero flags byte would end the list
EncodeEntry(e, o, ch) ==
  LET f == FlagsOf(e, ch)
      l2 == Len(e.name) - ch.l1
  IN <<f>>
     \o (IF Bit(f, XSameName) THEN <<ch.l1>> ELSE <<>>)
     \o (IF Bit(f, XLongName) THEN I32(l2) ELSE <<l2>>)
     \o SubSeq(e.name, ch.l1 + 1, Len(e.name))
     \o I64(e.size)
     \o (IF Bit(f, XSameTime) THEN <<>> ELSE I32(e.mtime))
     \o (IF Bit(f, XSameMode) THEN <<>> ELSE I32(e.mode))
     \o (IF o.uid /\ ~Bit(f, XSameUid) THEN I32(e.uid) ELSE <<>>)
     \o (IF o.gid /\ ~Bit(f, XSameGid) THEN I32(e.gid) ELSE <<>>)
     \o (IF HasRdev(e, o) /\ ~Bit(f, XSameRdev) THEN I32(e.rdev) ELSE <<>>)
     \o (IF o.links /\ IsLnk(e) THEN I32(Len(e.link)) \o e.link ELSE <<>>)
     \o (IF o.checksum THEN e.sum ELSE <<>>)
(* list trailer: terminator, (empty) id lists, io-error word *)
Trailer(o, ioerr) == <<0>> \o (IF o.uid THEN I32(0) ELSE <<>>) \o (IF o.gid THEN I32(0) ELSE <<>>) \o I32(ioerr)

(* ---------------------------------------------------------------- the reference decoder *)
Fail == [ok |-> FALSE, entries |-> <<>>, pos |-> 0]
NoEntry == [name |-> <<>>, size |-> <<0, 0, 0, 0>>, mtime |-> 0, mode |-> 0, uid |-> 0, gid |-> 0, rdev |-> 0, link |-> <<>>, sum |-> <<>>]
Have(b, p, n) == p + n - 1 <= Len(b)

DecodeEntry(b, p0, prev, o) ==    \* returns [ok, e, pos]
  LET f == b[p0]
      p1 == p0 + 1
      l1 == IF Bit(f, XSameName) /\ Have(b, p1, 1) THEN b[p1] ELSE 0
      p2 == IF Bit(f, XSameName) THEN p1 + 1 ELSE p1
      lenOK == IF Bit(f, XLongName) THEN Have(b, p2, 4) ELSE Have(b, p2, 1)
      l2 == IF ~lenOK THEN 0 ELSE IF Bit(f, XLongName) THEN RdI32(b, p2) ELSE b[p2]
      p3 == IF Bit(f, XLongName) THEN p2 + 4 ELSE p2 + 1
      nameOK == lenOK /\ l2 >= 0 /\ l1 <= Len(prev.name) /\ l1 + l2 < 4096 /\ Have(b, p3, l2)
      name == IF nameOK THEN SubSeq(prev.name, 1, l1) \o SubSeq(b, p3, p3 + l2 - 1) ELSE <<>>
      p4 == p3 + l2
      szOK == nameOK /\ Have(b, p4, 4)
      big == szOK /\ RdI32(b, p4) = 0 - 1
      szOK2 == szOK /\ (big => Have(b, p4 + 4, 8))
      size == IF ~szOK2 THEN <<0, 0, 0, 0>>
              ELSE IF big THEN <<Limb(b, p4 + 4), Limb(b, p4 + 6), Limb(b, p4 + 8), Limb(b, p4 + 10)>>
              ELSE <<Limb(b, p4), Limb(b, p4 + 2), 0, 0>>
      p5 == IF big THEN p4 + 12 ELSE p4 + 4
      tOK == szOK2 /\ (Bit(f, XSameTime) \/ Have(b, p5, 4))
      mtime == IF ~tOK THEN 0 ELSE IF Bit(f, XSameTime) THEN prev.mtime ELSE RdI32(b, p5)
      p6 == IF Bit(f, XSameTime) THEN p5 ELSE p5 + 4
      mOK == tOK /\ (Bit(f, XSameMode) \/ Have(b, p6, 4))
      mode == IF ~mOK THEN 0 ELSE IF Bit(f, XSameMode) THEN prev.mode ELSE RdI32(b, p6)
      p7 == IF Bit(f, XSameMode) THEN p6 ELSE p6 + 4
      e0 == [NoEntry EXCEPT !.name = name, !.size = size, !.mtime = mtime, !.mode = mode]
      uRead == o.uid /\ ~Bit(f, XSameUid)
      uOK == mOK /\ (~uRead \/ Have(b, p7, 4))
      uid == IF ~uOK \/ ~o.uid THEN 0 ELSE IF Bit(f, XSameUid) THEN prev.uid ELSE RdI32(b, p7)
      p8 == IF uRead THEN p7 + 4 ELSE p7
      gRead == o.gid /\ ~Bit(f, XSameGid)
      gOK == uOK /\ (~gRead \/ Have(b, p8, 4))
      gid == IF ~gOK \/ ~o.gid THEN 0 ELSE IF Bit(f, XSameGid) THEN prev.gid ELSE RdI32(b, p8)
      p9 == IF gRead THEN p8 + 4 ELSE p8
      hasR == HasRdev(e0, o)
      rRead == hasR /\ ~Bit(f, XSameRdev)
      rOK == gOK /\ (~rRead \/ Have(b, p9, 4))
      rdev == IF ~rOK \/ ~hasR THEN 0 ELSE IF Bit(f, XSameRdev) THEN prev.rdev ELSE RdI32(b, p9)
      p10 == IF rRead THEN p9 + 4 ELSE p9
      lRead == o.links /\ IsLnk(e0)
      lLenOK == rOK /\ (~lRead \/ Have(b, p10, 4))
      llen == IF lRead /\ lLenOK THEN RdI32(b, p10) ELSE 0
      lOK == lLenOK /\ llen >= 0 /\ (~lRead \/ Have(b, p10 + 4, llen))
      link == IF lRead /\ lOK THEN SubSeq(b, p10 + 4, p10 + 3 + llen) ELSE <<>>
      p11 == IF lRead THEN p10 + 4 + llen ELSE p10
      cOK == lOK /\ (~o.checksum \/ Have(b, p11, 16))
      sum == IF o.checksum /\ cOK THEN SubSeq(b, p11, p11 + 15) ELSE <<>>
      p12 == IF o.checksum THEN p11 + 16 ELSE p11
  IN [ok |-> cOK,
      e |-> [name |-> name, size |-> size, mtime |-> mtime, mode |-> mode, uid |-> uid, gid |-> gid, rdev |-> rdev, link |-> link, sum |-> sum],
      pos |-> p12]

RECURSIVE DecodeFrom(_, _, _, _, _)
DecodeFrom(b, p, prev, o, acc) ==
  IF ~Have(b, p, 1) THEN Fail
  ELSE IF b[p] = 0 THEN [ok |-> TRUE, entries |-> acc, pos |-> p + 1]
  ELSE LET d == DecodeEntry(b, p, prev, o)
       IN IF ~d.ok THEN Fail ELSE DecodeFrom(b, d.pos, d.e, o, Append(acc, d.e))

(* the whole list: entries, then the (empty) id lists and the io-error word *)
Decode(b, o) ==
  LET d == DecodeFrom(b, 1, NoEntry, o, <<>>) IN
  IF ~d.ok THEN [ok |-> FALSE, entries |-> <<>>, ioerr |-> 0]
  ELSE LET q1 == IF o.uid THEN d.pos + 4 ELSE d.pos
           q2 == IF o.gid THEN q1 + 4 ELSE q1
       IN IF ~Have(b, q2, 4) THEN [ok |-> FALSE, entries |-> <<>>, ioerr |-> 0]
          ELSE [ok |-> (o.uid => RdI32(b, d.pos) = 0) /\ (o.gid => RdI32(b, q1) = 0) /\ q2 + 3 = Len(b),
                entries |-> d.entries, ioerr |-> RdI32(b, q2)]

(* bytewise name order: both ends sort the list like this *)
RECURSIVE NameLess(_, _)
NameLess(x, y) == IF x = <<>> THEN y # <<>>
                  ELSE IF y = <<>> THEN FALSE
                  ELSE IF Head(x) # Head(y) THEN Head(x) < Head(y)
                  ELSE NameLess(Tail(x), Tail(y))
=============================================================================
