-------------------------------- MODULE Acl --------------------------------
(* C19: module access control follows first-match allow/deny               *)
(* (rsyncd/rsyncd.go checkACL, called from HandleDaemonConn after the      *)
(* module lookup and before "@RSYNCD: OK").                                *)
(* Addresses and prefixes are sequences of groups (IPv4: 4 octets, IPv6: 8 *)
(* 16-bit groups); prefix lengths in the pool are multiples of the group   *)
(* size, so "contains" is equality of the first n groups.  An IPv4-mapped  *)
(* IPv6 address is the IPv4 address it embeds.                             *)
EXTENDS AclOps, Json, CSV, IOUtils

CONSTANT MaxRules

(* ---- behaviour: one connection attempt *)
VARIABLES rules, addr, reply, sent
vars == <<rules, addr, reply, sent>>
RuleLists == UNION {[1..k -> RulePool] : k \in 0..MaxRules}
Init == /\ rules \in RuleLists /\ addr \in Addrs /\ reply = "none" /\ sent = "nothing"
(* HandleDaemonConn: after the module lookup *)
Grant == /\ reply = "none" /\ Decide(rules, addr.a) = "allow"
         /\ reply' = "ok" /\ sent' = "module-data-may-follow" /\ UNCHANGED <<rules, addr>>
Refuse == /\ reply = "none" /\ Decide(rules, addr.a) # "allow"
          /\ reply' = "error" /\ sent' = "nothing" /\ UNCHANGED <<rules, addr>>
Done == reply # "none" /\ UNCHANGED vars
Next == Grant \/ Refuse \/ Done
Spec == Init /\ [][Next]_vars

(* C19 *)
AccessExact == reply # "none" => (reply = "ok") = (Decide(rules, addr.a) = "allow")
NoDataOnRefusal == reply = "error" => sent = "nothing"
(* sanity of the model itself: a deny-all first rule refuses everyone, an empty list admits everyone *)
Sanity == /\ (Len(rules) = 0 => Decide(rules, addr.a) = "allow")
          /\ (Len(rules) > 0 /\ rules[1].s = "deny all" => Decide(rules, addr.a) = "deny")

OutFile == IOEnv.VERIF_OUT
Emit == (reply = "none") =>
  CSVWrite("%1$s", <<ToJson([rules |-> [i \in 1..Len(rules) |-> rules[i].s], addr |-> addr.s, expect |-> Decide(rules, addr.a),
                             arules |-> rules, aaddr |-> addr.a])>>, OutFile)
GenNext == FALSE /\ UNCHANGED vars
GenSpec == Init /\ [][GenNext]_vars
=============================================================================
