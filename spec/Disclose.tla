------------------------------ MODULE Disclose ------------------------------
(* C06: a daemon discloses only what lies inside the requested module.      *)
(* A client names a path below a module; the sender resolves it and walks   *)
(* the tree there (internal/sender/flist.go: os.OpenRoot + fs.WalkDir over  *)
(* root.FS(); Open/Readlink through the root).  The module directory may    *)
(* contain symlinks that point outside.  Under Rooted resolution the walk   *)
(* starts inside the module or not at all; a walk never follows symlinks.   *)
(* Naive resolution tells which requests are effective (would leave the     *)
(* module if the path were joined and opened by name).                      *)
EXTENDS PathOps, Json, CSV, IOUtils

CONSTANT MaxDepth
ReqComps == {"a", "l", "lf", "li", "labs", "ldd", "lsib", "..", "."}
ReqPaths == UNION {[1..k -> ReqComps] : k \in 0..MaxDepth}
(* how the request names the module: "m" + path, with the variants the      *)
(* prefix stripping has to cope with                                        *)
Prefixes == {"m", "m/", "m//", "mm", "/abs", ""}

VARIABLES req, prefix, trail, opts, started, disclosed,
          history     \* what the same daemon process served before: "fresh" | "other-module" (the same request, to a
                      \* sibling module whose files have the same relative names, sizes and mtimes but other contents) |
                      \* "replaced" (the same module, whose directory was then moved away and replaced by a new one:
                      \* the old tree is OUTSIDE the module now)
vars == <<req, prefix, trail, opts, started, disclosed, history>>

Init == /\ req \in ReqPaths /\ prefix \in Prefixes /\ trail \in BOOLEAN
        /\ opts \in (SUBSET {"c", "l"}) \cup {{"L"}, {"l", "L"}}      \* L = --copy-links: whether or not the daemon knows the option, nothing outside is disclosed
        /\ started = "no" /\ disclosed = {}
        /\ history \in {"fresh", "other-module", "replaced"}

(* where the walk starts: the request path resolved through the module root *)
Start == IF prefix = "/abs" THEN Refused ELSE RootedLoc(req, FALSE, FALSE, TRUE)
NaiveStart == IF prefix = "/abs" THEN Out(<<"abs">>) ELSE NaiveLoc(req, FALSE, FALSE, TRUE)

Walk == /\ started = "no"
        /\ started' = (IF Start.reg = "refused" THEN "refused" ELSE "walked")
        /\ disclosed' = (IF Start.reg = "in" THEN {"inside"} ELSE {})    \* only objects below an inside location are listed
        /\ UNCHANGED <<req, prefix, trail, opts, history>>
Done == started # "no" /\ UNCHANGED vars
Next == Walk \/ Done
Spec == Init /\ [][Next]_vars

OnlyInside == disclosed \subseteq {"inside"}       \* whatever was served before (nothing of it is remembered)
Effective == NaiveStart.reg = "out"

PathStr(p) == LET F[i \in 0..Len(p)] == IF i = 0 THEN "" ELSE (IF i = 1 THEN p[1] ELSE F[i-1] \o "/" \o p[i]) IN F[Len(p)]
OutFile == IOEnv.VERIF_OUT
Emit == (started = "no") =>
  CSVWrite("%1$s", <<ToJson([prefix |-> prefix, path |-> PathStr(req), trail |-> trail, opts |-> opts, effective |-> Effective,
                             inside |-> (Start.reg = "in"), prime |-> (history = "other-module"), swap |-> (history = "replaced")])>>, OutFile)
GenNext == FALSE /\ UNCHANGED vars
GenSpec == Init /\ [][GenNext]_vars
=============================================================================
