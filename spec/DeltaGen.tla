---------------------------- MODULE DeltaGen ----------------------------
(* Scenario generator: TLC enumerates every initial state of Delta (every  *)
(* basis, target, block length and strong-sum length within the bounds)    *)
(* and writes each one as a JSON line; the Go harness replays every line   *)
(* against the real sender.                                                *)
EXTENDS Delta, Json, CSV, IOUtils

OutFile == IOEnv.VERIF_OUT

Emit == CSVWrite("%1$s", <<ToJson([basis |-> basis, target |-> target, blk |-> blk, s2 |-> s2])>>, OutFile)

GenNext == FALSE /\ UNCHANGED vars
GenSpec == Init /\ [][GenNext]_vars
=============================================================================
