------------------------------- MODULE AclOps -------------------------------
(* Addresses, networks, rules and the first-match decision (shared by Acl   *)
(* and AclTrace).                                                           *)
EXTENDS Integers, Sequences, FiniteSets, TLC

V4(a, b, c, d) == [fam |-> 4, g |-> <<a, b, c, d>>]
V6(g) == [fam |-> 6, g |-> g]
Z6 == <<0, 0, 0, 0, 0, 0, 0, 0>>

(* address pool: on and around every prefix boundary *)
Addrs == {
  [s |-> "10.1.2.3",          a |-> V4(10, 1, 2, 3)],
  [s |-> "10.1.2.4",          a |-> V4(10, 1, 2, 4)],
  [s |-> "10.1.3.3",          a |-> V4(10, 1, 3, 3)],
  [s |-> "10.2.0.0",          a |-> V4(10, 2, 0, 0)],
  [s |-> "10.0.0.7",          a |-> V4(10, 0, 0, 7)],
  [s |-> "10.0.1.5",          a |-> V4(10, 0, 1, 5)],
  [s |-> "2001:db8:0:1::1",   a |-> V6(<<8193, 3512, 0, 1, 0, 0, 0, 1>>)],
  [s |-> "11.0.0.0",          a |-> V4(11, 0, 0, 0)],
  [s |-> "9.255.255.255",     a |-> V4(9, 255, 255, 255)],
  [s |-> "127.0.0.1",         a |-> V4(127, 0, 0, 1)],
  [s |-> "0.0.0.0",           a |-> V4(0, 0, 0, 0)],
  [s |-> "255.255.255.255",   a |-> V4(255, 255, 255, 255)],
  [s |-> "2001:db8::1",       a |-> V6(<<8193, 3512, 0, 0, 0, 0, 0, 1>>)],
  [s |-> "2001:db8::2",       a |-> V6(<<8193, 3512, 0, 0, 0, 0, 0, 2>>)],
  [s |-> "2001:db9::1",       a |-> V6(<<8193, 3513, 0, 0, 0, 0, 0, 1>>)],
  [s |-> "::1",               a |-> V6(<<0, 0, 0, 0, 0, 0, 0, 1>>)],
  [s |-> "fe80::1",           a |-> V6(<<65152, 0, 0, 0, 0, 0, 0, 1>>)],
  [s |-> "::ffff:10.1.2.3",   a |-> V6(<<0, 0, 0, 0, 0, 65535, 2561, 515>>)],
  [s |-> "::ffff:11.0.0.1",   a |-> V6(<<0, 0, 0, 0, 0, 65535, 2816, 1>>)] }

(* networks: [fam, g (prefix groups), n (number of significant groups)] *)
Nets == {
  [s |-> "all",              k |-> "all", fam |-> 0, g |-> <<>>, n |-> 0],
  [s |-> "0.0.0.0/0",        k |-> "net", fam |-> 4, g |-> <<0, 0, 0, 0>>, n |-> 0],
  [s |-> "10.0.0.0/8",       k |-> "net", fam |-> 4, g |-> <<10, 0, 0, 0>>, n |-> 1],
  [s |-> "10.1.2.0/24",      k |-> "net", fam |-> 4, g |-> <<10, 1, 2, 0>>, n |-> 3],
  [s |-> "10.0.0.0/24",      k |-> "net", fam |-> 4, g |-> <<10, 0, 0, 0>>, n |-> 3],      \* same base address as 10.0.0.0/8, narrower
  [s |-> "2001:db8::/64",    k |-> "net", fam |-> 6, g |-> <<8193, 3512, 0, 0, 0, 0, 0, 0>>, n |-> 4],   \* same base address as 2001:db8::/32, narrower
  [s |-> "10.1.2.3/32",      k |-> "net", fam |-> 4, g |-> <<10, 1, 2, 3>>, n |-> 4],
  [s |-> "::/0",             k |-> "net", fam |-> 6, g |-> Z6, n |-> 0],
  [s |-> "2001:db8::/32",    k |-> "net", fam |-> 6, g |-> <<8193, 3512, 0, 0, 0, 0, 0, 0>>, n |-> 2],
  [s |-> "2001:db8::1/128",  k |-> "net", fam |-> 6, g |-> <<8193, 3512, 0, 0, 0, 0, 0, 1>>, n |-> 8] }

GoodRules == { [s |-> v \o " " \o net.s, verb |-> v, net |-> net, bad |-> "no"] : v \in {"allow", "deny"}, net \in Nets }
BadNet == [s |-> "", k |-> "bad", fam |-> 0, g |-> <<>>, n |-> 0]
BadRules == { [s |-> "allowall",          verb |-> "allow", net |-> BadNet, bad |-> "nospace"],
              [s |-> "permit all",        verb |-> "permit", net |-> BadNet, bad |-> "verb"],
              [s |-> "permit 10.0.0.0/8", verb |-> "permit", net |-> BadNet, bad |-> "verb"],     \* bad verb on a network that may not contain the client
              [s |-> "Deny 2001:db8::/32", verb |-> "Deny", net |-> BadNet, bad |-> "verb"],
              [s |-> "allow 10.0.0.0/33", verb |-> "allow", net |-> BadNet, bad |-> "cidr"] }
RulePool == GoodRules \cup BadRules

(* an IPv4-mapped IPv6 address is its IPv4 address *)
IsMapped(a) == a.fam = 6 /\ SubSeq(a.g, 1, 6) = <<0, 0, 0, 0, 0, 65535>>
Norm(a) == IF IsMapped(a) THEN V4(a.g[7] \div 256, a.g[7] % 256, a.g[8] \div 256, a.g[8] % 256) ELSE a
Contains(net, addr) ==
  LET a == Norm(addr) IN
  \/ net.k = "all"
  \/ net.k = "net" /\ net.fam = a.fam /\ SubSeq(net.g, 1, net.n) = SubSeq(a.g, 1, net.n)

(* first rule whose network contains the address decides; reaching a      *)
(* malformed rule is an error; no match (or no rules) grants access        *)
RECURSIVE Decide(_, _)
Decide(rules, addr) ==
  IF rules = <<>> THEN "allow"
  ELSE LET r == Head(rules) IN
       IF r.bad # "no" THEN "error"
       ELSE IF Contains(r.net, addr) THEN (IF r.verb = "allow" THEN "allow" ELSE "deny")
       ELSE Decide(Tail(rules), addr)

=============================================================================
