---------------------------- MODULE FaultTrace ----------------------------
(* C03: validation of fault-injection runs against the real receiver.  One *)
(* trace line = one file transfer with one injected fault; the recorded    *)
(* outcome must satisfy the checksum gate of DeltaFault (DeltaOps!GateOK): *)
(*   success  => the destination path holds the sender's bytes             *)
(*   failure  => it holds its previous content (or is still absent)        *)
(* and an undamaged transfer must succeed.                                 *)
EXTENDS DeltaOps, Json, IOUtils, TLC

Traces == ndJsonDeserialize(IOEnv.VERIF_TRACE)
VARIABLES t, st
vars == <<t, st>>
Tr == Traces[t]

Res == IF Tr.result = "err" THEN "corrupt" ELSE Tr.result       \* "hung" stays "hung" and fails GateOK
Accepts ==
  /\ GateOK(Res, Tr.dst)
  /\ (Tr.dst = "absent") => ~Tr.hadold \/ Tr.result = "hung"     \* an existing file never disappears
  /\ (Tr.dst \in {"old", "oldnew"}) => Tr.hadold
  /\ (Tr.kind = "none") => Tr.result = "ok"                      \* undamaged transfers succeed

Init == t \in 1..Len(Traces) /\ st = "run"
Check == /\ st = "run"
         /\ IF Accepts THEN st' = "acc" ELSE (PrintT(<<"REJECT", Tr.id, 0>>) /\ st' = "rej")
         /\ UNCHANGED t
Done == st # "run" /\ UNCHANGED vars
Spec == Init /\ [][Check \/ Done]_vars
=============================================================================
