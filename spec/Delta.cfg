SPECIFICATION Spec
CONSTANTS
  AlphaNeg = 1
  AlphaPos = 1
  MaxLen = 2
  MaxBlk = 3
  S2Set = {0, 16}
  FlushAt = 1
INVARIANTS TypeOK PrefixExact NoWeakOnlyRef Exact RcvFaithful ChecksumGate IdenticalFree
PROPERTY Termination
CHECK_DEADLOCK TRUE
