--------------------------- MODULE HostileTrace ---------------------------
(* C08: validation of hostile sessions against the REAL daemon / client    *)
(* (run in a worker subprocess whose death is an observation).  Hostile:   *)
(* the process survived (no panic, no exit), the attacked session ended,   *)
(* and a daemon answered the canonical valid request afterwards.           *)
EXTENDS Integers, Sequences, Json, IOUtils, TLC
Traces == ndJsonDeserialize(IOEnv.VERIF_TRACE)
VARIABLES t, st
vars == <<t, st>>
Tr == Traces[t]
Accepts == /\ Tr.alive                         \* Survives
           /\ Tr.ended                         \* SessionEnds (error or not)
           /\ Tr.victim # "client" => Tr.nextok \* DaemonKeepsServing
Init == t \in 1..Len(Traces) /\ st = "run"
Check == /\ st = "run"
         /\ IF Accepts THEN st' = "acc" ELSE (PrintT(<<"REJECT", Tr.id, 0>>) /\ st' = "rej")
         /\ UNCHANGED t
Done == st # "run" /\ UNCHANGED vars
Spec == Init /\ [][Check \/ Done]_vars
=============================================================================
