---------------------------- MODULE MplexTrace ----------------------------
(* C17: validation of real client <-> real server sessions run through a   *)
(* proxy that re-cuts the server's multiplexed output (any data frame      *)
(* sizes, empty frames, info frames and long runs of them, an injected     *)
(* error frame).  Against Mplex: the server's own frames are well formed   *)
(* (Mplex!WellFormed), an error-free re-framing changes nothing            *)
(* (Transparent / NoSpuriousError), an error frame surfaces as a failed    *)
(* transfer carrying the message (ErrorSurfaces).                          *)
EXTENDS Integers, Sequences, FiniteSets, Json, IOUtils, TLC

Traces == ndJsonDeserialize(IOEnv.VERIF_TRACE)
VARIABLES t, st
vars == <<t, st>>
Tr == Traces[t]
MaxFrame == 262144
WellFormed == /\ Tr.parsed                                         \* complete frames whose payloads have the announced length
              /\ Tr.maxlen <= MaxFrame
              /\ \A i \in 1..Len(Tr.tags) : Tr.tags[i] \in {0, 1, 2}
Accepts ==
  /\ WellFormed
  /\ IF Tr.injerr
     THEN Tr.result = "err" /\ Tr.msgok                            \* ErrorSurfaces
     ELSE IF Tr.baseok
          THEN Tr.result = "ok" /\ Tr.same                         \* Transparent
          ELSE Tr.result = "err" /\ Tr.msgok                       \* the server's own error frame, whatever the cut
Init == t \in 1..Len(Traces) /\ st = "run"
Check == /\ st = "run"
         /\ IF Accepts THEN st' = "acc" ELSE (PrintT(<<"REJECT", Tr.id, 0>>) /\ st' = "rej")
         /\ UNCHANGED t
Done == st # "run" /\ UNCHANGED vars
Spec == Init /\ [][Check \/ Done]_vars
=============================================================================
