----------------------------- MODULE RecvScen -----------------------------
(* Scenario families for RecvSide: the finite spaces TLC enumerates, model *)
(* checks (Confluent, DryRunNoChange, NoCollateralDelete, ...) and emits   *)
(* as JSON lines for replay on the real receiver.                          *)
EXTENDS RecvSide, Json, CSV, IOUtils

CONSTANT Family        \* "c12" | "c10" | "c09" | "c11" | "c13" | "c14" | "c01"

(* end-to-end families additionally carry the source tree and the filter rules *)
VARIABLES srcv, rulesv
svars == <<vars, srcv, rulesv>>

(* ---- node / entry helpers *)
Reg(c, sz, mt, ns, perm) == [t |-> "reg", c |-> c, sz |-> sz, mt |-> mt, ns |-> ns, perm |-> perm, tgt |-> "", uid |-> 0, gid |-> 0]
Own(n, u, g) == [n EXCEPT !.uid = u, !.gid = g]
Dir(perm) == [t |-> "dir", c |-> 0, sz |-> 0, mt |-> 1000, ns |-> 0, perm |-> perm, tgt |-> "", uid |-> 0, gid |-> 0]
Lnk(tgt) == [t |-> "lnk", c |-> 0, sz |-> 0, mt |-> 1000, ns |-> 0, perm |-> 511, tgt |-> tgt, uid |-> 0, gid |-> 0]
Spc(ty, perm) == [t |-> ty, c |-> 0, sz |-> 0, mt |-> 1000, ns |-> 0, perm |-> perm, tgt |-> "", uid |-> 0, gid |-> 0]
Ent(name, n) == [name |-> name, t |-> n.t, c |-> n.c, sz |-> n.sz, mt |-> n.mt, perm |-> n.perm, tgt |-> n.tgt, uid |-> n.uid, gid |-> n.gid]
EmptyFs == [p \in Paths |-> IF p = "." THEN Dir(493) ELSE Absent]
With(f, p, n) == [f EXCEPT ![p] = n]

O(r, l, p, t, D, c, I, n, del) == [r |-> r, l |-> l, p |-> p, t |-> t, dv |-> D, sp |-> D, c |-> c, I |-> I, n |-> n, del |-> del]
Scn(f, ls, o, io, pr) == [fs0 |-> f, list |-> ls, opts |-> o, ioerr |-> io, prot |-> pr, src |-> EmptyFs, rules |-> <<>>]
(* an end-to-end scenario: the sender lists the source tree under the rules *)
E2E(src, dst, o, rules) == [fs0 |-> dst, list |-> SenderList(src, o, rules), opts |-> o, ioerr |-> 0, prot |-> Protected(rules), src |-> src, rules |-> rules]
OX(r, l, p, t, dv, sp, c, I, n, del) == [r |-> r, l |-> l, p |-> p, t |-> t, dv |-> dv, sp |-> sp, c |-> c, I |-> I, n |-> n, del |-> del]
(* ... with -o / -g (they add fields to the wire format; ownership itself is judged by C11) *)
OG(o, og, gg) == [x \in DOMAIN o \cup {"o", "g"} |-> IF x = "o" THEN og ELSE IF x = "g" THEN gg ELSE o[x]]

(* the entries of a tree, as a (sorted) file list *)
ListOf(tree) == LET idxs == {i \in 1..Len(Universe) : Exists(tree, Universe[i])}
                    F[k \in 0..Len(Universe)] ==
                      IF k = 0 THEN <<>>
                      ELSE IF k \in idxs THEN Append(F[k-1], Ent(Universe[k], tree[Universe[k]])) ELSE F[k-1]
                IN F[Len(Universe)]

(* =================================================================== C12 *)
(* Universe = <<".", "a", "f", "z">>: f is the subject of the decision     *)
(* table, a is up to date, z is missing                                    *)
SrcF == Reg(1, 20, 1000, 0, 420)
C12DstStates ==
  {Absent, Dir(493), Lnk("a"), Spc("fifo", 420)} \cup
  { Reg(c, sz, mt, ns, 384) :
      c \in {1, 2}, sz \in {20, 21}, mt \in {1000, 1001, 999, 500000}, ns \in {0, 500000000} } 
C12Consistent(n) == n.t = "reg" => ((n.c = 1) => n.sz = 20)      \* same content implies same size
C12Src == With(With(With(EmptyFs, "a", Reg(3, 7, 900, 0, 420)), "f", SrcF), "z", Reg(4, 0, 800, 0, 420))
C12Scn ==
  { Scn(With(With(EmptyFs, "a", Reg(3, 7, 900, 0, 420)), "f", d), ListOf(C12Src),
        O(TRUE, FALSE, FALSE, t, FALSE, c, I, FALSE, FALSE), 0, {}) :
      d \in {x \in C12DstStates : C12Consistent(x)}, t \in BOOLEAN, c \in BOOLEAN, I \in BOOLEAN }

(* =================================================================== C10 *)
(* Universe = <<".", "d", "d/f", "f", "l", "s", "x", "x/f", "y">>: every entry type in every *)
(* update situation, all option subsets, with and without -n                *)
C10Src == With(With(With(With(With(With(EmptyFs, "d", Dir(493)), "d/f", Reg(1, 20, 1000, 0, 420)),
               "f", Reg(2, 30, 1000, 0, 420)), "l", Lnk("f")), "s", Spc("fifo", 420)), "dev", Spc("chr", 432))
Situations(p) ==
  LET src == C10Src[p] IN
  CASE src.t = "reg" -> {Absent, src, Reg(9, src.sz, src.mt, 0, 384), Reg(9, src.sz + 1, 999, 0, 384), Lnk("x"), Spc("fifo", 420)}
    [] src.t = "dir" -> {Absent, src, Dir(448), Reg(9, 5, 999, 0, 420), Lnk("x")}
    [] src.t = "lnk" -> {Absent, src, Lnk("other"), Reg(9, 5, 999, 0, 420)}
    [] OTHER -> {Absent, src, Reg(9, 5, 999, 0, 420)}
(* destination = the source tree with ONE subject path put into a situation *)
(* ... plus entries the sender does not list (a directory with content and a *)
(* file), so that --delete has something to remove                          *)
C10Dst(p, sit) ==
  LET base == With(With(With(With(C10Src, p, sit), "x", Dir(493)), "x/f", Reg(7, 4, 999, 0, 420)), "y", Reg(8, 6, 999, 0, 420))
  IN IF p = "d" /\ sit.t # "dir" THEN With(base, "d/f", Absent) ELSE base
(* ... and the same with the source directory "d" listed WITHOUT owner write permission (0555): after the    *)
(* transfer the receiver restores such directories' modes in a separate pass - not in a dry run              *)
C10SrcRo == With(C10Src, "d", Dir(365))
C10Scn ==
  { Scn(C10Dst(p, sit), ListOf(src), O(TRUE, l, pp, t, D, c, FALSE, n, del), 0, {}) : src \in {C10Src, C10SrcRo},
      p \in {"d", "d/f", "f", "l", "s", "dev"} , sit \in UNION {Situations(q) : q \in {"d", "d/f", "f", "l", "s", "dev"}},
      l \in BOOLEAN, pp \in BOOLEAN, t \in BOOLEAN, D \in BOOLEAN, c \in BOOLEAN, n \in BOOLEAN, del \in BOOLEAN }
C10Valid(s) == \E p \in {"d", "d/f", "f", "l", "s", "dev"} : \E sit \in Situations(p) : s.fs0 = C10Dst(p, sit)

(* =================================================================== C09 *)
(* Universe = <<".", "a", "ab", "b", "c", "d", "d/a", "d/b", "e", "e/a">> ("a" is a  *)
(* strict prefix of "ab"; the quick universe drops "c", "d/b", "e/a")             *)
C09File(p) == Reg(IdxOf(p), 3 + IdxOf(p), 1000, 0, 420)
C09Top == {"+p", "a", "ab", "b", "c", "d-"} \cap Paths
C09Sub == {"d/a", "d/b"} \cap Paths
(* trees: any subset of the top-level files, d absent or with any subset of  *)
(* its children, e absent / empty / with e/a; extraneous entries take other  *)
(* types by position (ab, b: symlink, c: fifo) when `odd`                    *)
C09Trees(withE, odd) ==
  { [p \in Paths |->
       IF p = "." THEN Dir(493)
       ELSE IF p \in C09Top THEN (IF p \in tops
                                   THEN (IF odd /\ p \in {"b", "ab"} THEN Lnk("a") ELSE IF odd /\ p = "c" THEN Spc("fifo", 420) ELSE C09File(p))
                                   ELSE Absent)
       ELSE IF p = "d" THEN (IF hasD THEN Dir(493) ELSE Absent)
       ELSE IF p \in C09Sub THEN (IF hasD /\ p \in dsub THEN C09File(p) ELSE Absent)
       ELSE IF p = "e" THEN (IF e = 0 THEN Absent ELSE Dir(493))
       ELSE IF p = "e/a" THEN (IF e = 2 THEN C09File(p) ELSE Absent)
       ELSE Absent] :
     tops \in SUBSET C09Top, hasD \in BOOLEAN, dsub \in SUBSET C09Sub, e \in (IF withE /\ "e" \in Paths THEN (IF "e/a" \in Paths THEN 0..2 ELSE 0..1) ELSE {0}) }
C09Modes == IF "e/a" \in Paths THEN { <<TRUE, 0>>, <<TRUE, 1>>, <<TRUE, 2>>, <<FALSE, 0>> }      \* <<--delete, sender io-error word>>
            ELSE { <<TRUE, 0>>, <<TRUE, 2>>, <<FALSE, 0>> }
(* the user's exclude rule for "a" (a name at two depths): the sender does not list it, and a deleting receiver *)
(* must leave it - and go on deleting what sorts after it                                                     *)
C09Prot == {{}, {"a", "d/a"} \cap Paths, {"d/a"} \cap Paths}      \* (the last one is the PATH rule --exclude=d/a: it protects d/a only)
C09ProtFor(src) == {x \in C09Prot : \A q \in x : ~Exists(src, q)}
C09Scn ==
  UNION { { Scn(dst, ListOf(src), O(TRUE, TRUE, FALSE, TRUE, TRUE, FALSE, FALSE, FALSE, m[1]), m[2], pr) :
              dst \in C09Trees(TRUE, TRUE), m \in C09Modes, pr \in C09ProtFor(src) } :
          src \in C09Trees(FALSE, FALSE) }

(* =================================================================== C11 *)
(* Universe = <<".", "d", "d/f", "dev", "f", "k", "l", "ro", "ro/f">>: attribute classes *)
(* x all subsets of {p, t, l}; prior destination absent / present           *)
C11Perms == {0, 256, 365, 420, 511, 128}            \* 0000 0400 0555 0644 0777 0200
C11Src(fp, dp, mt) ==
  With(With(With(With(With(With(With(With(EmptyFs, "d", Dir(dp)), "d/f", Reg(1, 20, mt, 0, fp)),
       "dev", Spc("chr", fp)), "f", Reg(2, 30, mt, 0, fp)), "k", Spc("fifo", fp)), "l", Lnk("d/f")), "ro", Dir(365)), "ro/f", Reg(3, 9, mt, 0, 292))
C11SrcX(fp, dp, mt) ==     \* an EMPTY file and a file whose old copy is empty; owners and groups other than the receiving user's
  LET x == With(With(C11Src(fp, dp, mt), "e", Reg(5, 0, mt, 0, fp)), "g", Reg(6, 12, mt, 0, fp))
  IN With(With(With(With(With(x, "z", Dir(493)), "f", Own(x["f"], 1234, 4321)), "d", Own(x["d"], 1234, 0)), "d/f", Own(x["d/f"], 0, 4321)), "l", Own(x["l"], 1234, 4321))     \* "z": a writable directory listed AFTER the read-only "ro"
C11Present(mt) ==
  With(With(With(With(With(With(With(EmptyFs, "d", Dir(448)), "d/f", Reg(1, 20, mt - 1, 600000000, 384)),   \* same content, other perm, mtime 0.4 s before the source's
       "f", Own(Reg(8, 30, 777, 0, 416), 7, 7)), "l", Lnk("zzz")), "ro", Dir(493)), "e", Reg(9, 7, 777, 0, 384)), "g", Reg(9, 0, 777, 0, 384))
C11Prior(kind, mt) ==
  IF kind = "absent" THEN EmptyFs
  ELSE IF kind = "lnkdir" THEN      \* where the source has the directory "d", the destination has a symlink to one of its own directories
    With(With(C11Present(mt), "d", Lnk("ro")), "d/f", Absent)
  ELSE C11Present(mt)
C11ScnOf(K, FP, MT) ==
  { Scn(C11Prior(k, mt), ListOf(C11SrcX(fp, dp, mt)), OG(OX(TRUE, l, p, t, TRUE, TRUE, c, FALSE, FALSE, FALSE), og, og), 0, {}) :
      og \in BOOLEAN, k \in K, fp \in FP, dp \in {493, 365, 448, 320}, mt \in MT,
      l \in BOOLEAN, p \in BOOLEAN, t \in BOOLEAN, c \in BOOLEAN }
C11Scn == C11ScnOf({"absent", "present"}, C11Perms, {1000, 1, 2000000000, 0 - 2, 0 - 2000000000})
          \cup C11ScnOf({"lnkdir"}, {420, 365}, {1000, 0 - 2})

(* =================================================================== C13 *)
(* Universe = <<".", "a", "b", "c", "d", "d/a", "d/b", "d/e", "d/e/a">>: the same *)
(* names at several depths, files and directories, every sort position       *)
C13Src == With(With(With(With(With(With(With(With(With(With(With(EmptyFs, "bl", Lnk("a")), "_b", Reg(8, 18, 1000, 0, 420)), "ba", Reg(7, 17, 1000, 0, 420)), "a", Reg(1, 11, 1000, 0, 420)), "b", Reg(2, 12, 1000, 0, 420)), "c", Reg(3, 13, 1000, 0, 420)),
          "d", Dir(493)), "d/a", Reg(4, 14, 1000, 0, 420)), "d/b", Reg(5, 15, 1000, 0, 420)), "d/e", Dir(493)), "d/e/a", Reg(6, 16, 1000, 0, 420))
(* dir = TRUE: the rule is spelled with a trailing slash ("d/": directories named d); used only for names that *)
(* are directories wherever they occur in this universe, so that it selects the same entries as the plain name *)
C13RulePool == [inc : BOOLEAN, pat : {"a", "b", "d", "e", "_b", "bl"}, dir : {FALSE}] \cup [inc : BOOLEAN, pat : {"d", "e"}, dir : {TRUE}]
CONSTANT MaxRules
C13Rules == UNION {[1..k -> C13RulePool] : k \in 0..MaxRules}
C13Scn == { E2E(C13Src, EmptyFs, OX(TRUE, TRUE, FALSE, TRUE, FALSE, FALSE, FALSE, FALSE, FALSE, FALSE), rs) : rs \in C13Rules }

(* =================================================================== C14 *)
(* Universe = <<".", "d", "d/f", "dev", "f", "k", "l", "z">>: every entry type, so *)
(* that each option influences the wire format; all option subsets          *)
C14Src == With(With(With(With(With(With(EmptyFs, "d", Dir(488)), "d/f", Reg(1, 20, 1000, 0, 416)), "dev", Spc("chr", 432)),
          "f", Reg(2, 30, 2000, 0, 384)), "k", Spc("fifo", 420)), "l", Lnk("d/f"))
C14Dst == With(With(With(EmptyFs, "d", Dir(493)), "f", Reg(7, 30, 2000, 0, 420)), "z", Reg(8, 5, 500, 0, 420))
C14Scn == { E2E(C14Src, C14Dst, OG(OX(r, l, p, t, dv, sp, c, I, n, del), og, gg), rs) :
              r \in BOOLEAN,        \* without -r a directory argument is skipped: nothing is listed, nothing changes - but the session still runs
              l \in BOOLEAN, p \in BOOLEAN, t \in BOOLEAN, dv \in BOOLEAN, sp \in BOOLEAN, c \in BOOLEAN, I \in BOOLEAN, n \in BOOLEAN,
              del \in BOOLEAN, og \in BOOLEAN, gg \in BOOLEAN,
              \* no rule | an exclude | an include BEFORE an exclude of the same name, the name being the extraneous entry of the
              \* destination: first match wins, so "z" is not protected and --delete removes it - in both directions
              rs \in {<<>>, <<[inc |-> FALSE, pat |-> "f", dir |-> FALSE]>>,
                      <<[inc |-> TRUE, pat |-> "z", dir |-> FALSE], [inc |-> FALSE, pat |-> "z", dir |-> FALSE]>>} }

(* =================================================================== C01 *)
(* Universe = <<".", "a", "b", "d", "d/a">>: every prior destination state of *)
(* a file (absent, identical, different size, same size and other mtime,    *)
(* same size and mtime but other content, directory / symlink in the way)   *)
C01Src == With(With(With(With(With(EmptyFs, "a", Reg(1, 40, 1000, 0, 420)), "b", Reg(2, 0, 1000, 0, 420)), "d", Dir(493)), "d/a", Reg(3, 50, 1000, 0, 420)),
                "d-", Reg(4, 20, 1000, 0, 420))      \* sorts between "d" and "d/a": list order differs from walk order
C01States(s) == {Absent, s, Reg(9, s.sz + 3, 900, 0, 420), Reg(9, s.sz, 900, 0, 420), Reg(9, s.sz, s.mt, 0, 420), Dir(493), Lnk("b"),
                 Reg(9, s.sz, s.mt - 1, 600000000, 420)}     \* same size, other content, mtime less than a second before the source's
C01Scn == { E2E(C01Src, dst, OX(TRUE, FALSE, FALSE, t, FALSE, FALSE, c, I, FALSE, FALSE), <<>>) :
              dst \in { With(With(With(With(With(EmptyFs, "a", sa), "b", sb), "d", sd), "d/a", IF sd.t = "dir" THEN sda ELSE Absent), "d-", Reg(9, 20, 900, 0, 420)) :
                          sa \in C01States(C01Src["a"]), sb \in {Absent, C01Src["b"], Reg(9, 7, 900, 0, 420)},
                          sd \in {Absent, Dir(493), Reg(9, 5, 900, 0, 420)}, sda \in C01States(C01Src["d/a"]) },
              t \in BOOLEAN, c \in BOOLEAN, I \in BOOLEAN }

(* =================================================================== rs *)
(* the composed session specification (Rsync.tla), Universe U01: sources with *)
(* and without "b", destinations empty / up to date / changed / with an       *)
(* extraneous "b" / with a file in the way of "d"; -t, -n, --delete; rule     *)
(* lists that exclude a file, a directory, or include before excluding        *)
RsSrc(withB) == IF withB THEN C01Src ELSE With(C01Src, "b", Absent)
RsDst(k) == CASE k = 1 -> EmptyFs
              [] k = 2 -> C01Src
              [] k = 3 -> With(With(C01Src, "a", Reg(9, 40, 900, 0, 420)), "d/a", Reg(9, 53, 1000, 0, 420))
              [] k = 4 -> With(With(With(EmptyFs, "b", Reg(8, 6, 999, 0, 420)), "d", Reg(9, 5, 900, 0, 420)), "a", C01Src["a"])
RsRules == { <<>>, <<[inc |-> FALSE, pat |-> "a", dir |-> FALSE]>>, <<[inc |-> FALSE, pat |-> "d", dir |-> TRUE]>>,
             <<[inc |-> TRUE, pat |-> "a", dir |-> FALSE], [inc |-> FALSE, pat |-> "a", dir |-> FALSE], [inc |-> FALSE, pat |-> "b", dir |-> FALSE]>> }
RsScn == { E2E(RsSrc(wb), RsDst(k), OX(TRUE, FALSE, FALSE, t, FALSE, FALSE, FALSE, FALSE, n, del), rs) :
             wb \in BOOLEAN, k \in 1..4, t \in BOOLEAN, n \in BOOLEAN, del \in BOOLEAN, rs \in RsRules }

Scenarios == CASE Family = "c12" -> C12Scn
               [] Family = "c13" -> C13Scn
               [] Family = "c14" -> C14Scn
               [] Family = "c01" -> C01Scn
               [] Family = "c10" -> {s \in C10Scn : C10Valid(s)}
               [] Family = "c09" -> C09Scn
               [] Family = "c11" -> C11Scn
               [] Family = "rs" -> RsScn

ScnInit ==
  /\ \E s \in Scenarios : /\ fs0 = s.fs0 /\ list = s.list /\ opts = s.opts /\ ioerr = s.ioerr /\ prot = s.prot
                            /\ srcv = s.src /\ rulesv = s.rules
  /\ fs = fs0 /\ gi = 0 /\ pend = <<>> /\ reqs = <<>> /\ pc = "delete"
SDeletePass == DeletePass /\ UNCHANGED <<srcv, rulesv>>
SGen == Gen /\ UNCHANGED <<srcv, rulesv>>
SRcv == Rcv /\ UNCHANGED <<srcv, rulesv>>
SFinish == Finish /\ UNCHANGED <<srcv, rulesv>>
SStutter == Stutter /\ UNCHANGED <<srcv, rulesv>>
ScnNext == SDeletePass \/ SGen \/ SRcv \/ SFinish \/ SStutter
ScnSpec == ScnInit /\ [][ScnNext]_svars

(* C13: the sender lists exactly the entries no exclude rule removes *)
FilterExact == Family \in {"c13", "c14", "c01", "rs"} => \A p \in Paths : (p \in ListedNames(list)) = (Exists(srcv, p) /\ ~Excluded(rulesv, p) /\ opts.r)

(* ---- emission: one JSON line per initial state, with the outcome the spec predicts *)
NodesOf(tree) == LET F[k \in 0..Len(Universe)] ==
                       IF k = 0 THEN <<>>
                       ELSE IF Exists(tree, Universe[k]) THEN Append(F[k-1], [p |-> Universe[k]] @@ tree[Universe[k]]) ELSE F[k-1]
                 IN F[Len(Universe)]
OutFile == IOEnv.VERIF_OUT
Emit == (pc = "delete") =>
  LET ex == Expected(fs0, list, opts, ioerr, prot) IN
  CSVWrite("%1$s", <<ToJson([family |-> Family, universe |-> Universe, dst |-> NodesOf(fs0), list |-> list, opts |-> opts,
                             ioerr |-> ioerr, prot |-> prot, src |-> NodesOf(srcv), rules |-> rulesv,
                             expfs |-> NodesOf(ex.fs), expreqs |-> ex.reqs])>>, OutFile)
GenNext == FALSE /\ UNCHANGED svars
GenSpec == ScnInit /\ [][GenNext]_svars
=============================================================================
