---------------------------- MODULE DeltaOps ----------------------------
(* Pure operators of the rsync delta algorithm (no variables): block       *)
(* layout of a basis, the rolling ("weak") checksum with its real          *)
(* arithmetic on signed bytes, an abstract injective strong hash that can  *)
(* be truncated, candidate blocks for a window, and what a token stream    *)
(* denotes.  Shared by Delta (design model), DeltaTrace (validation of     *)
(* token streams recorded from the real sender) and RecvDelta.             *)
EXTENDS Integers, Sequences, FiniteSets

SeqsUpTo(S, n) == UNION {[1..k -> S] : k \in 0..n}

Min(a, b) == IF a < b THEN a ELSE b
Max(a, b) == IF a > b THEN a ELSE b

(* number of blocks of a basis b cut into blocks of B bytes (sum_sizes) *)
NBlocks(b, B) == IF B = 0 THEN 0 ELSE (Len(b) + B - 1) \div B
Remainder(b, B) == IF B = 0 THEN 0 ELSE Len(b) % B
BlockLen(b, B, i) ==
  IF i = NBlocks(b, B) - 1 /\ Remainder(b, B) # 0 THEN Remainder(b, B) ELSE B
(* receiver.go: offset2 = token * BlockLength, dataLen = remainder for the last block *)
Block(b, B, i) == SubSeq(b, i * B + 1, i * B + BlockLen(b, B, i))
LastBlockLen(b, B) == BlockLen(b, B, NBlocks(b, B) - 1)

(* rsync's weak checksum: s1 = sum of the bytes taken as signed chars,     *)
(* s2 = sum of the running s1 values, both modulo 2^16.                    *)
S1(w) == LET F[k \in 0..Len(w)] == IF k = 0 THEN 0 ELSE F[k-1] + w[k]
         IN F[Len(w)] % 65536
S2(w) == LET F[k \in 0..Len(w)] == IF k = 0 THEN 0 ELSE F[k-1] + (Len(w) - k + 1) * w[k]
         IN F[Len(w)] % 65536
Weak(w) == <<S1(w), S2(w)>>

(* Strong hash: abstractly injective (the content itself).  A strong sum   *)
(* truncated to s2 = 0 bytes compares equal for every pair; the full       *)
(* 16-byte sum compares equal exactly for equal contents.                  *)
StrongEq(x, y, s2) == IF s2 = 0 THEN TRUE ELSE x = y

(* the window a sender looks at when it stands at byte offset o of target  *)
WinLen(target, B, o) == Min(B, Len(target) - o)
Window(target, B, o) == SubSeq(target, o + 1, o + WinLen(target, B, o))

(* block i is a legal reference for the window at offset o:                *)
(* same length, same weak sum, same (possibly truncated) strong sum        *)
IsCand(basis, target, B, s2, o, i) ==
  /\ i \in 0..NBlocks(basis, B) - 1
  /\ o < Len(target)
  /\ BlockLen(basis, B, i) = WinLen(target, B, o)
  /\ Weak(Block(basis, B, i)) = Weak(Window(target, B, o))
  /\ StrongEq(Block(basis, B, i), Window(target, B, o), s2)
Cands(basis, target, B, s2, o) ==
  {i \in 0..NBlocks(basis, B) - 1 : IsCand(basis, target, B, s2, o, i)}

(* tokens: [lit |-> bytes] or [ref |-> block index] *)
IsLit(t) == "lit" \in DOMAIN t
TokBytes(t, basis, B) == IF IsLit(t) THEN t.lit ELSE Block(basis, B, t.ref)
Denote(ts, basis, B) ==
  LET F[k \in 0..Len(ts)] == IF k = 0 THEN <<>> ELSE F[k-1] \o TokBytes(ts[k], basis, B)
  IN F[Len(ts)]
LitBytes(ts) ==
  LET F[k \in 0..Len(ts)] == IF k = 0 THEN 0
                             ELSE F[k-1] + (IF IsLit(ts[k]) THEN Len(ts[k].lit) ELSE 0)
  IN F[Len(ts)]

(* C03: the checksum gate seen from outside: a file transfer that reports  *)
(* success left the new content, one that failed left the previous content *)
(* ("old"; "absent" when there was none); nothing else is ever visible     *)
(* ("oldnew": previous and new content are the same bytes)                  *)
GateOK(res, content) ==
  /\ res \in {"ok", "corrupt"}
  /\ res = "ok" => content \in {"new", "oldnew"}
  /\ res = "corrupt" => content \in {"old", "absent", "oldnew"}

(* C16: literal data a greedy sender may spend on a file that differs from *)
(* the receiver's copy by `edits` local edits inserting `ins` new bytes:   *)
(* per edit at most the unmatched head and tail of the blocks it touches   *)
(* (each shorter than one block), plus `slack` bytes that cannot match for *)
(* structural reasons (a short last block moved away from the end).        *)
LiteralBoundOf(ins, slack, B, edits) == ins + slack + 2 * (B - 1) * edits
=============================================================================
