----------------------------- MODULE RecvTrace -----------------------------
(* Validation of receiving-side runs of the REAL code (client receiver or  *)
(* writable daemon module driven by the reference sender) against          *)
(* RecvSide.  One trace line = one run: the scenario (prior destination,   *)
(* file list, options), the requests the real generator sent in order,     *)
(* the session result and a snapshot of the destination afterwards.        *)
(* The trace is replayed through RecvSide's own step operators: entry by   *)
(* entry GenStep decides whether (and how) a request must follow - it must *)
(* be the next recorded request - and RcvStep commits it; finally the      *)
(* recorded destination must match the predicted one (NodeMatches: only    *)
(* what the properties constrain).                                         *)
EXTENDS RecvOps, Json, IOUtils

Traces == ndJsonDeserialize(IOEnv.VERIF_TRACE)

VARIABLES t,      \* trace under validation
          k,      \* file-list entries replayed
          r,      \* recorded requests consumed
          cur,    \* predicted destination so far
          st      \* "del" | "gen" | "acc" | "rej"
tvars == <<t, k, r, cur, st>>

Tr == Traces[t]
ToFs(nodes) == [p \in Paths |->
                  IF \E i \in 1..Len(nodes) : nodes[i].p = p
                  THEN LET n == nodes[CHOOSE i \in 1..Len(nodes) : nodes[i].p = p]
                       IN [t |-> n.t, c |-> n.c, sz |-> n.sz, mt |-> n.mt, ns |-> n.ns, perm |-> n.perm, tgt |-> n.tgt, uid |-> n.uid, gid |-> n.gid]
                  ELSE Absent]
Prot == {Tr.prot[i] : i \in 1..Len(Tr.prot)}
Kind(x) == IF x \in {"full", "delta"} THEN "data" ELSE x
(* the aspects the property under check constrains (see RecvOps!NodeMatchesJ); *)
(* additionally "reqs" (the request sequence), "extra" (nothing left behind    *)
(* outside the listed names), "lit" (no file data under -n)                    *)
J == {Tr.judge[i] : i \in 1..Len(Tr.judge)}

(* owners by NAME: the sender's id lists give names to ids; an id whose name is known on the receiving side is  *)
(* mapped to the local id of that name (umap/gmap: <<[id, lid]>>, lid = -1 when the name is unknown here), every *)
(* other id is used as the number it is.  EList is the file list as the receiving side has to understand it.     *)
MapId(m, id) == IF \E j \in 1..Len(m) : m[j].id = id /\ m[j].lid >= 0
                THEN m[CHOOSE j \in 1..Len(m) : m[j].id = id /\ m[j].lid >= 0].lid ELSE id
EList == [i \in 1..Len(Tr.list) |-> [Tr.list[i] EXCEPT !.uid = MapId(Tr.umap, @), !.gid = MapId(Tr.gmap, @)]]

TInit == /\ t \in 1..Len(Traces) /\ k = 0 /\ r = 0 /\ st = "del"
         /\ cur = ToFs(Tr.dst)

TDelete == /\ st = "del"
           /\ Tr.result = "ok"                         \* in the stated domains a session must succeed
           /\ Tr.universe = Universe
           /\ cur' = AfterDelete(cur, EList, Tr.opts, Tr.ioerr, Prot)
           /\ st' = "gen" /\ UNCHANGED <<t, k, r>>

(* the generator handles entry k+1; if the spec says it requests the file, *)
(* the next recorded request must be exactly that one                      *)
TGen == /\ st = "gen" /\ k < Len(Tr.list)
        /\ LET e == EList[k + 1]
               g == GenStep(cur, e, Tr.opts)
               hasReq == r < Len(Tr.reqs) /\ Tr.reqs[r + 1].name = e.name
           IN
             IF "reqs" \in J
             THEN IF g.req = "none"
                  THEN cur' = g.fs /\ r' = r
                  ELSE /\ hasReq
                       /\ Kind(Tr.reqs[r + 1].kind) = Kind(g.req)
                       /\ cur' = (IF g.req = "dry" THEN g.fs ELSE RcvStep(g.fs, e, Tr.opts))
                       /\ r' = r + 1
             ELSE \* requests are not judged by this property: follow what the implementation did
                  IF hasReq
                  THEN /\ cur' = (IF Tr.opts.n THEN g.fs ELSE RcvStep(g.fs, e, Tr.opts))
                       /\ r' = r + 1
                  ELSE cur' = g.fs /\ r' = r
        /\ k' = k + 1 /\ UNCHANGED <<t, st>>

TFinal == /\ st = "gen" /\ k = Len(Tr.list)
          /\ r = Len(Tr.reqs)                           \* no request for something that is not a listed file
          /\ TreeMatchesJ(cur, ToFs(Tr.final), J)
          /\ "extra" \in J => Len(Tr.extra) = 0         \* nothing left behind outside the listed names
          /\ ("lit" \in J /\ Tr.opts.n) => Tr.lit = 0   \* C10: a dry run moves no file data
          \* C12 (RecvSide!RepeatIsNoOp on the real receiver): after a -t sync the immediately repeated
          \* session succeeds and requests nothing
          /\ ("repeat" \in J /\ Tr.opts.t /\ ~Tr.opts.I /\ ~Tr.opts.n) => (Tr.result2 = "ok" /\ Len(Tr.reqs2) = 0)
          /\ st' = "acc" /\ UNCHANGED <<t, k, r, cur>>

TStep == TDelete \/ TGen \/ TFinal
TReject == /\ st \in {"del", "gen"} /\ ~ENABLED TStep
           /\ PrintT(<<"REJECT", Tr.id, k>>)
           /\ st' = "rej" /\ UNCHANGED <<t, k, r, cur>>
TDone == st \in {"acc", "rej"} /\ UNCHANGED tvars
TNext == TStep \/ TReject \/ TDone
TSpec == TInit /\ [][TNext]_tvars
=============================================================================
