------------------------------ MODULE Session ------------------------------
(* C18: a transfer runs to completion whatever the transport buffers.      *)
(* The four activities of one session and the order of their reads and     *)
(* writes, as in the code:                                                 *)
(*   Gen  (receiver/generator.go GenerateFiles): per requested file writes *)
(*        index, sum head + sums; then two phase markers                   *)
(*   Snd  (sender/sender.go SendFiles + do.go): reads a complete request,  *)
(*        then writes index+head, tokens, end+hash; answers the first      *)
(*        marker with a marker, after the second writes marker, stats and  *)
(*        reads the goodbye                                                *)
(*   Rcv  (receiver/receiver.go RecvFiles): reads answers and both markers *)
(*   Main (receiver/do.go Do): waits for Gen and Rcv, reads the stats,     *)
(*        writes the goodbye                                               *)
(* Gen and Rcv are two goroutines (do.go); Snd is one goroutine.  The two  *)
(* directions are channels of capacity CapUp / CapDown items; capacity 0   *)
(* is a rendezvous (io.Pipe: a write completes when it has been read).     *)
EXTENDS Integers, Sequences, FiniteSets, TLC

CONSTANTS NF,        \* files requested
          NSums,     \* items per request after the index (sum head, sums)
          NToks,     \* token items per answer
          CapUp, CapDown,
          SplitGenRcv  \* TRUE: generator and receiver run concurrently (the code); FALSE: receiver starts after the generator (a mutant)

VARIABLES up, down,      \* channel contents (sequences of items)
          gen, snd, rcv, main,   \* process states: records [pc, f, k]
          failed           \* some activity hit an error: the session is being torn down
vars == <<up, down, gen, snd, rcv, main, failed>>

P(pc, f, k) == [pc |-> pc, f |-> f, k |-> k]
Init == /\ up = <<>> /\ down = <<>> /\ failed = FALSE
        /\ gen = P("idx", 1, 0) /\ snd = P("read", 0, 0) /\ rcv = P("read", 0, 0) /\ main = P("join", 0, 0)

(* ---- channel operations; with capacity 0 a put needs the reader at its get *)
CanPut(ch, cap, readerReady) == IF cap = 0 THEN ch = <<>> /\ readerReady ELSE Len(ch) < cap
SndReads == snd.pc \in {"read", "sums", "bye"}
DownReaderReady == rcv.pc \in {"read", "toks"} \/ main.pc = "stats"

(* ---- Gen *)
GenStep ==
  /\ ~failed
  /\ CASE gen.pc = "idx" ->
            IF gen.f > NF THEN gen' = P("m1", 0, 0) /\ UNCHANGED up
            ELSE /\ CanPut(up, CapUp, SndReads) /\ up' = Append(up, <<"idx", gen.f>>)
                 /\ gen' = P("sums", gen.f, 0)
       [] gen.pc = "sums" ->
            IF gen.k = NSums THEN gen' = P("idx", gen.f + 1, 0) /\ UNCHANGED up
            ELSE /\ CanPut(up, CapUp, SndReads) /\ up' = Append(up, <<"sum", gen.f>>)
                 /\ gen' = P("sums", gen.f, gen.k + 1)
       [] gen.pc = "m1" -> /\ CanPut(up, CapUp, SndReads) /\ up' = Append(up, <<"m", 1>>) /\ gen' = P("m2", 0, 0)
       [] gen.pc = "m2" -> /\ CanPut(up, CapUp, SndReads) /\ up' = Append(up, <<"m", 2>>) /\ gen' = P("done", 0, 0)
       [] OTHER -> FALSE
  /\ UNCHANGED <<down, snd, rcv, main, failed>>

(* ---- Snd *)
SndStep ==
  /\ ~failed
  /\ CASE snd.pc = "read" ->       \* next request or marker
            /\ up # <<>>
            /\ LET x == Head(up) IN
                 /\ up' = Tail(up)
                 /\ snd' = (IF x[1] = "idx" THEN P("sums", x[2], 0)
                            ELSE IF x[2] = 1 THEN P("ack1", 0, 0) ELSE P("ack2", 0, 0))
            /\ UNCHANGED down
       [] snd.pc = "sums" ->
            IF snd.k = NSums THEN snd' = P("ans", snd.f, 0) /\ UNCHANGED <<up, down>>
            ELSE /\ up # <<>> /\ up' = Tail(up) /\ snd' = P("sums", snd.f, snd.k + 1) /\ UNCHANGED down
       [] snd.pc = "ans" -> /\ CanPut(down, CapDown, DownReaderReady) /\ down' = Append(down, <<"ans", snd.f>>)
                            /\ snd' = P("toks", snd.f, 0) /\ UNCHANGED up
       [] snd.pc = "toks" ->
            /\ CanPut(down, CapDown, DownReaderReady)
            /\ IF snd.k = NToks THEN down' = Append(down, <<"end", snd.f>>) /\ snd' = P("read", 0, 0)
               ELSE down' = Append(down, <<"tok", snd.f>>) /\ snd' = P("toks", snd.f, snd.k + 1)
            /\ UNCHANGED up
       [] snd.pc = "ack1" -> /\ CanPut(down, CapDown, DownReaderReady) /\ down' = Append(down, <<"ack", 1>>) /\ snd' = P("read", 0, 0) /\ UNCHANGED up
       [] snd.pc = "ack2" -> /\ CanPut(down, CapDown, DownReaderReady) /\ down' = Append(down, <<"ack", 2>>) /\ snd' = P("stats", 0, 0) /\ UNCHANGED up
       [] snd.pc = "stats" -> /\ CanPut(down, CapDown, DownReaderReady) /\ down' = Append(down, <<"stats", 0>>) /\ snd' = P("bye", 0, 0) /\ UNCHANGED up
       [] snd.pc = "bye" -> /\ up # <<>> /\ Head(up)[1] = "bye" /\ up' = Tail(up) /\ snd' = P("done", 0, 0) /\ UNCHANGED down
       [] OTHER -> FALSE
  /\ UNCHANGED <<gen, rcv, main, failed>>

(* ---- Rcv *)
RcvMayRun == SplitGenRcv \/ gen.pc = "done"
RcvStep ==
  /\ ~failed /\ RcvMayRun
  /\ rcv.pc \in {"read", "toks"} /\ down # <<>>
  /\ LET y == Head(down) IN
       /\ down' = Tail(down)
       /\ rcv' = (CASE y[1] = "ans" -> P("toks", y[2], 0)
                    [] y[1] = "tok" -> rcv
                    [] y[1] = "end" -> P("read", 0, 0)          \* verified and renamed
                    [] y[1] = "ack" -> (IF y[2] = 1 THEN P("read", 0, 0) ELSE P("done", 0, 0))
                    [] OTHER -> rcv)
  /\ UNCHANGED <<up, gen, snd, main, failed>>

(* ---- Main *)
MainStep ==
  /\ ~failed
  /\ CASE main.pc = "join" -> /\ gen.pc = "done" /\ rcv.pc = "done" /\ main' = P("stats", 0, 0) /\ UNCHANGED <<up, down>>
       [] main.pc = "stats" -> /\ down # <<>> /\ Head(down)[1] = "stats" /\ down' = Tail(down) /\ main' = P("bye", 0, 0) /\ UNCHANGED up
       [] main.pc = "bye" -> /\ CanPut(up, CapUp, SndReads) /\ up' = Append(up, <<"bye", 0>>) /\ main' = P("done", 0, 0) /\ UNCHANGED down
       [] OTHER -> FALSE
  /\ UNCHANGED <<gen, snd, rcv, failed>>

(* ---- errors: any activity may fail at any point (I/O error, corrupt data);   *)
(* the first error ends the session: the connection is closed and every blocked  *)
(* read or write of the other activities fails too                               *)
Fail == /\ ~failed /\ ~(main.pc = "done" /\ snd.pc = "done")
        /\ failed' = TRUE /\ UNCHANGED <<up, down, gen, snd, rcv, main>>
TearDown == /\ failed
            /\ \/ gen.pc # "err" /\ gen' = P("err", 0, 0) /\ UNCHANGED <<snd, rcv, main>>
               \/ snd.pc # "err" /\ snd' = P("err", 0, 0) /\ UNCHANGED <<gen, rcv, main>>
               \/ rcv.pc # "err" /\ rcv' = P("err", 0, 0) /\ UNCHANGED <<gen, snd, main>>
               \/ main.pc # "err" /\ main' = P("err", 0, 0) /\ UNCHANGED <<gen, snd, rcv>>
            /\ UNCHANGED <<up, down, failed>>

Finished == \/ main.pc = "done" /\ snd.pc = "done"
            \/ failed /\ gen.pc = "err" /\ snd.pc = "err" /\ rcv.pc = "err" /\ main.pc = "err"
Stutter == Finished /\ UNCHANGED vars
Steps == GenStep \/ SndStep \/ RcvStep \/ MainStep
NextOK == Steps \/ Stutter                       \* error-free sessions
Next == Steps \/ Fail \/ TearDown \/ Stutter
SpecOK == Init /\ [][NextOK]_vars /\ WF_vars(GenStep) /\ WF_vars(SndStep) /\ WF_vars(RcvStep) /\ WF_vars(MainStep)
Spec == Init /\ [][Next]_vars /\ WF_vars(GenStep) /\ WF_vars(SndStep) /\ WF_vars(RcvStep) /\ WF_vars(MainStep) /\ WF_vars(TearDown)

(* C18 *)
Termination == <>Finished
(* (TLC's deadlock check: no reachable state without a successor other than Finished) *)
ChannelsBounded == Len(up) <= (IF CapUp = 0 THEN 1 ELSE CapUp) /\ Len(down) <= (IF CapDown = 0 THEN 1 ELSE CapDown)
CleanEnd == (main.pc = "done" /\ snd.pc = "done") => up = <<>> /\ down = <<>>
=============================================================================
