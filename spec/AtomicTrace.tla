---------------------------- MODULE AtomicTrace ----------------------------
(* C04: validation of destination snapshots taken from the REAL receiver.  *)
(* The reference sender delivers a multi-file session one wire unit at a   *)
(* time; after each unit it waits until the receiver is blocked reading    *)
(* the next byte and snapshots the destination ("freeze" events).  A trace *)
(* ends with "done" (orderly end), "damaged" (one bit inverted in transit), *)
(* "error" (stream cut at some byte; the   *)
(* snapshot is taken after the error return and connection close) or       *)
(* "killed" (SIGKILL of the receiving process).  Every snapshot must be a  *)
(* state of Atomic: each listed path holds its complete previous content   *)
(* or, once its checksum trailer was delivered, the complete new content.  *)
EXTENDS AtomicOps, Json, IOUtils

Traces == ndJsonDeserialize(IOEnv.VERIF_TRACE)
VARIABLES t, l, st
vars == <<t, l, st>>
Tr == Traces[t]
Ev == Tr.events[l]

AllNew == [f \in 1..Len(Tr.kinds) |-> "new"]
Init == t \in 1..Len(Traces) /\ l = 1 /\ st = "run"

(* atomicity alone: each path holds its previous content, or the new one if  *)
(* its trailer was delivered (used where the session may fail for reasons    *)
(* outside C04, e.g. a name too long for the temporary file)                *)
Prev(f) == IF Tr.kinds[f] = "new" THEN "absent" ELSE "old"
WeakOK(snap, d) == /\ Len(snap) = Len(Tr.kinds)
                   /\ \A f \in 1..Len(Tr.kinds) : snap[f] = Prev(f) \/ (snap[f] = "new" /\ ExpectedDst(Tr.kinds, Tr.ntoks, d)[f] = "new")
(* a snapshot taken while the receiver is blocked after `d` delivered units *)
FreezeOK(e) == /\ IF Tr.weak THEN WeakOK(e.snap, e.d) ELSE e.snap = ExpectedDst(Tr.kinds, Tr.ntoks, e.d)
               /\ e.lnk \in {"old", "new"}
               /\ e.d <= TotalUnits(Tr.ntoks)
TFreeze == /\ st = "run" /\ l <= Len(Tr.events) /\ FreezeOK(Ev)
           /\ (l > 1 => Ev.d >= Tr.events[l - 1].d)
           /\ l' = l + 1 /\ UNCHANGED <<t, st>>
(* inotify on the destination directory for the whole session: a listed path that had previous     *)
(* content (replaced files, the replaced symlink) is replaced by a rename OVER it - the watcher     *)
(* never sees it deleted or moved away (Atomic!AtomicPaths between two wire units, where no        *)
(* snapshot can look)                                                                              *)
NeverUnlinked == Len(Tr.unlinked) = 0
TEnd == /\ st = "run" /\ l = Len(Tr.events) + 1
        /\ NeverUnlinked
        /\ LET e == Tr.final IN
             CASE Tr.weak -> /\ WeakOK(e.snap, TotalUnits(Tr.ntoks)) /\ e.lnk \in {"old", "new"} /\ e.temps = 0
               [] e.mode = "done"  -> /\ e.result = "ok" /\ e.snap = AllNew /\ e.lnk = "new" /\ e.temps = 0
               [] e.mode = "error" -> \* the stream was cut at some byte of one direction
                    \/ /\ e.result = "ok"                                   \* cut too late to matter: a complete session
                       /\ e.snap = AllNew /\ e.lnk = "new" /\ e.temps = 0
                    \/ /\ e.result = "err"
                       \* d complete units were delivered before the cut; after a sender->receiver cut
                       \* all of them were processed (dmin = d), after a receiver->sender cut the
                       \* receiving goroutine may have been anywhere (dmin = 0)
                       /\ \E x \in e.dmin..e.d : e.snap = ExpectedDst(Tr.kinds, Tr.ntoks, x)
                       /\ e.lnk \in {"old", "new"}
                       /\ e.temps = 0                                      \* CleanAfterError
               [] e.mode = "damaged" -> \* one bit of the data segment was inverted in transit (C03 says the file fails;
                    \* C04 says: whatever fails, no listed path is left with anything but its previous or its new content)
                    \/ /\ e.result = "ok" /\ e.snap = AllNew /\ e.lnk = "new" /\ e.temps = 0     \* the bit did not matter
                    \/ /\ e.result = "err"
                       /\ WeakOK(e.snap, TotalUnits(Tr.ntoks)) /\ e.lnk \in {"old", "new"} /\ e.temps = 0
               [] e.mode = "killed" -> /\ \E x \in e.dmin..e.d : e.snap = ExpectedDst(Tr.kinds, Tr.ntoks, x)
                                       /\ e.lnk \in {"old", "new"}
               [] OTHER -> FALSE
        /\ st' = "acc" /\ UNCHANGED <<t, l>>
Step == TFreeze \/ TEnd
Reject == /\ st = "run" /\ ~ENABLED Step /\ PrintT(<<"REJECT", Tr.id, l>>)
          /\ st' = "rej" /\ UNCHANGED <<t, l>>
Done == st # "run" /\ UNCHANGED vars
Spec == Init /\ [][Step \/ Reject \/ Done]_vars
=============================================================================
