--------------------------- MODULE ConfineTrace ---------------------------
(* C05: validation of hostile-list runs against the real receivers.  One   *)
(* trace line = one session; the recorded observation of the outside       *)
(* region (state before/after, inotify events during the session, block    *)
(* checksums the generator sent) must satisfy Confine!Confined: nothing    *)
(* outside the destination root was created, modified, deleted,            *)
(* re-permissioned, re-owned or read.  What happens inside the root and    *)
(* how the session ends are not constrained (a session that crashes or     *)
(* never returns is C08's / C18's business; such runs carry no observation *)
(* of the outside region and are not judged here - the check counts them   *)
(* and gives no verdict at all if they are more than a handful).           *)
EXTENDS Integers, Sequences, Json, IOUtils, TLC

Traces == ndJsonDeserialize(IOEnv.VERIF_TRACE)
VARIABLES t, st
vars == <<t, st>>
Tr == Traces[t]

Confined == /\ Len(Tr.changed) = 0        \* touched = {} : no outside object changed
            /\ Len(Tr.events) = 0         \* ... or was opened / read / re-permissioned meanwhile
            /\ ~Tr.leak                   \* no checksums of outside data left the process

Init == t \in 1..Len(Traces) /\ st = "run"
Check == /\ st = "run"
         /\ IF Confined THEN st' = "acc" ELSE (PrintT(<<"REJECT", Tr.id, 0>>) /\ st' = "rej")
         /\ UNCHANGED t
Done == st # "run" /\ UNCHANGED vars
Spec == Init /\ [][Check \/ Done]_vars
=============================================================================
