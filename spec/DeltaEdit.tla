---------------------------- MODULE DeltaEdit ----------------------------
(* C16: unchanged data is not re-sent.  The receiver's copy is a file of   *)
(* n pairwise distinct symbols (the limit case of high-entropy data); the  *)
(* sender's file is that copy after an edit script (deletions,             *)
(* replacements, insertions of fresh symbols at arbitrary, unaligned       *)
(* offsets) or a permutation of its blocks.  Checked on the greedy sender  *)
(* of Delta: the literal bytes stay within LiteralBoundOf.                 *)
EXTENDS Delta, Json, CSV, IOUtils

CONSTANTS MaxN,        \* basis lengths 1..MaxN
          MaxEdits,    \* 0..MaxEdits edits
          MaxDel,      \* symbols deleted per edit 0..MaxDel
          MaxIns       \* fresh symbols inserted per edit 0..MaxIns

VARIABLE meta          \* [ins, slack, edits, kind]: what the bound is computed from
evars == <<vars, meta>>

Ident(n) == [k \in 1..n |-> k]

(* one edit: at basis offset p delete d symbols and insert m fresh ones     *)
Edit == [p : 0..MaxN, d : 0..MaxDel, m : 0..MaxIns]
Scripts == UNION {[1..k -> Edit] : k \in 0..MaxEdits}
WellFormed(sc, n) ==
  /\ \A k \in 1..Len(sc) : sc[k].p + sc[k].d <= n /\ (sc[k].d + sc[k].m > 0)
  /\ \A k \in 1..Len(sc) - 1 : sc[k].p + sc[k].d < sc[k+1].p     \* separated, increasing
Fresh(from, m) == [k \in 1..m |-> from + k]
ApplyScript(sc, n) ==
  LET F[k \in 0..Len(sc)] ==       \* <<target so far, basis position, next fresh symbol>>
        IF k = 0 THEN <<<<>>, 0, n>>
        ELSE LET prev == F[k-1] e == sc[k] IN
             << prev[1] \o SubSeq(Ident(n), prev[2] + 1, e.p) \o Fresh(prev[3], e.m),
                e.p + e.d, prev[3] + e.m >>
      last == F[Len(sc)]
  IN last[1] \o SubSeq(Ident(n), last[2] + 1, n)
InsertedOf(sc) == LET F[k \in 0..Len(sc)] == IF k = 0 THEN 0 ELSE F[k-1] + sc[k].m IN F[Len(sc)]

(* block permutations: rotate the blocks of the basis by r *)
Rotate(n, B, r) ==
  LET nb == NBlocks(Ident(n), B)
      F[k \in 0..nb] == IF k = 0 THEN <<>> ELSE F[k-1] \o Block(Ident(n), B, (k - 1 + r) % nb)
  IN F[nb]

EditInit ==
  /\ \E n \in 1..MaxN, B \in 1..MaxBlk :
       /\ basis = Ident(n) /\ blk = B
       /\ \/ \E sc \in Scripts :
               /\ WellFormed(sc, n)
               /\ target = ApplyScript(sc, n)
               /\ meta = [ins |-> InsertedOf(sc), slack |-> 0, edits |-> Len(sc), kind |-> "edits"]
          \/ \E r \in 1..NBlocks(Ident(n), B) - 1 :
               /\ target = Rotate(n, B, r)
               /\ meta = [ins |-> 0, slack |-> Remainder(Ident(n), B), edits |-> 0, kind |-> "perm"]
  /\ s2 = 16
  /\ off = 0 /\ lastMatch = 0 /\ toks = <<>> /\ trailer = <<>>
  /\ rpos = 0 /\ out = <<>> /\ result = "run"
  /\ pc = "search"

EMatch  == MatchAny /\ UNCHANGED meta
ESlide  == Slide /\ UNCHANGED meta
EFlush  == FlushEarly /\ UNCHANGED meta
EFinish == Finish /\ UNCHANGED meta
EDone   == pc = "done" /\ UNCHANGED evars
SenderNext == EMatch \/ ESlide \/ EFlush \/ EFinish \/ EDone
EditSpec == EditInit /\ [][SenderNext]_evars

LiteralBound == pc = "done" =>
  LitBytes(toks) <= LiteralBoundOf(meta.ins, meta.slack, blk, meta.edits)
EditExact == pc = "done" => Denote(toks, basis, blk) = target

(* scenario generation: one JSON line per initial state *)
OutFile == IOEnv.VERIF_OUT
IsInitial == off = 0 /\ toks = <<>> /\ pc = "search" /\ lastMatch = 0
EmitEdit == IsInitial =>
  CSVWrite("%1$s", <<ToJson([basis |-> basis, target |-> target, blk |-> blk, s2 |-> s2,
                             ins |-> meta.ins, slack |-> meta.slack, edits |-> meta.edits, kind |-> meta.kind])>>, OutFile)
GenNext == FALSE /\ UNCHANGED evars
GenSpec == EditInit /\ [][GenNext]_evars
=============================================================================
