----------------------------- MODULE SyncTrace -----------------------------
(* Validation of END-TO-END runs (real sender and real receiver on both    *)
(* ends, in the arrangements pull from a daemon / push to a daemon / local *)
(* copy / library client over a stream) against the composed specification:*)
(*   file list  = RecvOps!SenderList(source tree, options, rules)          *)
(*   outcome    = RecvOps!Expected(prior destination, list, options, ...)  *)
(* One trace line = one run: the source tree and prior destination as      *)
(* built, the options and rules, the result and the destination            *)
(* afterwards.  Only the aspects the property under check constrains (J)   *)
(* are compared.  A rule the implementation cannot honour (wildcards) must *)
(* end the session with an error.                                          *)
EXTENDS RecvOps, Json, IOUtils

Traces == ndJsonDeserialize(IOEnv.VERIF_TRACE)
VARIABLES t, st
tvars == <<t, st>>
Tr == Traces[t]
ToFs(nodes) == [p \in Paths |->
                  IF \E i \in 1..Len(nodes) : nodes[i].p = p
                  THEN LET n == nodes[CHOOSE i \in 1..Len(nodes) : nodes[i].p = p]
                       IN [t |-> n.t, c |-> n.c, sz |-> n.sz, mt |-> n.mt, ns |-> n.ns, perm |-> n.perm, tgt |-> n.tgt, uid |-> n.uid, gid |-> n.gid]
                  ELSE Absent]
J == {Tr.judge[i] : i \in 1..Len(Tr.judge)}

Accepts ==
  IF Tr.wild
  THEN Tr.result = "err"                               \* unsupported rule syntax: an error, never a crash or a silent selection
  ELSE /\ Tr.result = "ok" \/ (Tr.ioerr # 0 /\ Tr.result = "err")     \* transfers in the stated domain must succeed; one in which the sender
                                                                      \* could not read a source argument may end with an error status
       /\ Tr.universe = Universe
       /\ LET list == SenderList(ToFs(Tr.src), Tr.opts, Tr.rules)
              \* ioerr: the sender hit a read error (a source argument that does not exist): what it could read is
              \* transferred, and a deleting receiver deletes NOTHING (RecvOps!DeleteApplies)
              exp == Expected(ToFs(Tr.dst), list, Tr.opts, Tr.ioerr, Protected(Tr.rules))
          IN TreeMatchesJ(exp.fs, ToFs(Tr.final), J)
       /\ "extra" \in J => Len(Tr.extra) = 0
       \* C14: the outcome does not depend on who sends: the destinations the other
       \* arrangements produced for the same scenario are the same tree
       /\ "peers" \in J => LET PJ == {"type", "content", "target"} \cup (IF Tr.opts.p THEN {"perm"} ELSE {}) \cup (IF Tr.opts.t THEN {"mtime"} ELSE {})
                            IN \A k \in 1..Len(Tr.peers) : /\ TreeMatchesJ(ToFs(Tr.final), ToFs(Tr.peers[k]), PJ)
                                                            /\ TreeMatchesJ(ToFs(Tr.peers[k]), ToFs(Tr.final), PJ)
       /\ "repeat" \in J => /\ Tr.result2 = "ok"       \* C12: an immediately repeated sync is a no-op
                            /\ ~Tr.changed2 /\ Len(Tr.resent2) = 0

TInit == t \in 1..Len(Traces) /\ st = "run"
TCheck == /\ st = "run"
          /\ IF Accepts THEN st' = "acc" ELSE (PrintT(<<"REJECT", Tr.id, 0>>) /\ st' = "rej")
          /\ UNCHANGED t
TDone == st # "run" /\ UNCHANGED tvars
TSpec == TInit /\ [][TCheck \/ TDone]_tvars
=============================================================================
