------------------------------ MODULE RecvOps ------------------------------
(* The receiving side of an rsync session: delete pass, generator,         *)
(* receiver and directory touch-up over an abstract file system.           *)
(* Mirrors internal/receiver/{do,generator,receiver}.go of gokrazy/rsync   *)
(* but states what the PROPERTIES (C01, C04, C09, C10, C11, C12) demand;   *)
(* where the code deviates, the conformance checks report it.              *)
(*                                                                         *)
(* A path is a string from the finite universe `Universe` (a sequence in   *)
(* bytewise order whose first element is "." - the order both ends sort    *)
(* the file list in); `ParentMap` gives each path's parent.                *)
EXTENDS Integers, Sequences, FiniteSets, TLC

CONSTANTS Universe,     \* sequence of all paths, bytewise sorted, Universe[1] = "."
          ParentMap,    \* [path |-> parent path]; ParentMap["."] = "."
          BaseMap       \* [path |-> last component of the path]

Paths == {Universe[i] : i \in 1..Len(Universe)}
IdxOf(p) == CHOOSE i \in 1..Len(Universe) : Universe[i] = p

RECURSIVE IsAncestorOrSelf(_, _)
IsAncestorOrSelf(a, p) == IF a = p THEN TRUE ELSE IF p = "." THEN FALSE ELSE IsAncestorOrSelf(a, ParentMap[p])
Subtree(p) == {q \in Paths : IsAncestorOrSelf(p, q)}
Depth(p) == Cardinality({a \in Paths : IsAncestorOrSelf(a, p)})

(* ------------------------------------------------------------ nodes *)
(* perm / mt = -1 in an EXPECTED node mean "not constrained by the property" *)
Absent == [t |-> "none", c |-> 0, sz |-> 0, mt |-> 0, ns |-> 0, perm |-> 0, tgt |-> "", uid |-> 0, gid |-> 0]
Exists(fs, p) == fs[p].t # "none"
IsDir(fs, p) == fs[p].t = "dir"
IsSpecial(ty) == ty \in {"fifo", "sock", "chr", "blk"}
IsDevType(ty) == ty \in {"chr", "blk"}
(* is an entry of this type created under the given options (--devices / --specials)? *)
WantsSpecial(ty, o) == (IsDevType(ty) /\ o.dv) \/ (ty \in {"fifo", "sock"} /\ o.sp)

RemoveAll(fs, p) == [q \in Paths |-> IF q \in Subtree(p) THEN Absent ELSE fs[q]]

(* a tree is well formed when every present node hangs below a present directory *)
WellFormedTree(fs) == /\ fs["."].t = "dir"
                      /\ \A p \in Paths : Exists(fs, p) /\ p # "." => IsDir(fs, ParentMap[p])

(* ------------------------------------------------------------ options *)
(* opts: [r, l, p, t, dv, sp, c, I, n, del : BOOLEAN]   (dv = --devices, sp = --specials; -D = both) *)

(* ------------------------------------------------------------ the update rule (C12) *)
(* e: file-list entry [name, t, c, sz, mt, perm, tgt]; st: destination node *)
NeedsTransfer(e, st, o) ==
  IF st.t # "reg" THEN TRUE
  ELSE IF st.sz # e.sz THEN TRUE
  ELSE IF o.c THEN st.c # e.c
  ELSE IF o.I THEN TRUE
  ELSE st.mt # e.mt                       \* modification times compared to the second

(* ------------------------------------------------------------ metadata (C11) *)
(* attributes a destination entry must end with: the preserve options decide *)
(* which are constrained; `old` is the node that was there before            *)
(* -o / -g (running as root): the destination entry gets the source's owner / group; without the option the   *)
(* property constrains nothing (-1).  Option records without these fields (families that do not vary them)   *)
(* mean "off".                                                                                               *)
OptO(o) == "o" \in DOMAIN o /\ o.o
OptG(o) == "g" \in DOMAIN o /\ o.g
OwnerU(e, o) == IF OptO(o) THEN e.uid ELSE -1
OwnerG(e, o) == IF OptG(o) THEN e.gid ELSE -1
RegAttrs(e, old, o) ==
  [t |-> "reg", c |-> e.c, sz |-> e.sz, tgt |-> "", ns |-> 0,
   mt |-> IF o.t THEN e.mt ELSE -1,
   perm |-> IF o.p THEN e.perm ELSE IF old.t = "reg" THEN old.perm ELSE -1,
   uid |-> OwnerU(e, o), gid |-> OwnerG(e, o)]
(* an up-to-date file that is skipped: times/permissions are still brought in line *)
SkipAttrs(e, old, o) ==
  [old EXCEPT !.mt = IF o.t THEN e.mt ELSE old.mt, !.ns = 0,
              !.perm = IF o.p THEN e.perm ELSE old.perm,
              !.uid = IF OptO(o) THEN e.uid ELSE old.uid, !.gid = IF OptG(o) THEN e.gid ELSE old.gid]
DirAttrs(e, old, o) ==
  [t |-> "dir", c |-> 0, sz |-> 0, tgt |-> "", mt |-> -1, ns |-> 0,
   perm |-> IF o.p THEN e.perm ELSE IF old.t = "dir" THEN -1 ELSE -1,
   uid |-> OwnerU(e, o), gid |-> OwnerG(e, o)]
LnkAttrs(e) == [t |-> "lnk", c |-> 0, sz |-> 0, tgt |-> e.tgt, mt |-> -1, ns |-> 0, perm |-> -1, uid |-> -1, gid |-> -1]
SpecAttrs(e, o) == [t |-> e.t, c |-> 0, sz |-> 0, tgt |-> "", mt |-> -1, ns |-> 0, perm |-> IF o.p THEN e.perm ELSE -1, uid |-> OwnerU(e, o), gid |-> OwnerG(e, o)]

(* does an observed node satisfy an expected one?  J is the set of aspects   *)
(* the property under check constrains: "type", "content", "target",         *)
(* "perm", "mtime" (existence is always compared)                            *)
AllAspects == {"type", "content", "target", "perm", "mtime"}      \* ("dmtime", directory mtimes, is judged only where the property says nothing changes: C10)
NodeMatchesJ(exp, obs, J) ==
  /\ (exp.t = "none") = (obs.t = "none")
  /\ "type" \in J => exp.t = obs.t
  /\ ("content" \in J /\ exp.t = "reg" /\ obs.t = "reg") => exp.c = obs.c /\ exp.sz = obs.sz
  /\ ("target" \in J /\ exp.t = "lnk" /\ obs.t = "lnk") => exp.tgt = obs.tgt
  /\ ("perm" \in J /\ exp.perm # -1 /\ exp.t = obs.t) => exp.perm = obs.perm
  /\ ("mtime" \in J /\ exp.mt # -1 /\ exp.t = "reg" /\ obs.t = "reg") => exp.mt = obs.mt
  /\ ("owner" \in J /\ exp.t = obs.t /\ exp.t # "none") => /\ (exp.uid # -1 => exp.uid = obs.uid)
                                                               /\ (exp.gid # -1 => exp.gid = obs.gid)
  /\ ("dmtime" \in J /\ exp.mt # -1 /\ exp.t = "dir" /\ obs.t = "dir") => exp.mt = obs.mt      \* (dry runs: directories keep their mtimes too)
NodeMatches(exp, obs) == NodeMatchesJ(exp, obs, AllAspects)
TreeMatchesJ(exp, obs, J) == \A p \in Paths : NodeMatchesJ(exp[p], obs[p], J)
TreeMatches(exp, obs) == TreeMatchesJ(exp, obs, AllAspects)

(* ------------------------------------------------------------ filter rules and the sender's list (C13) *)
(* a rule: [inc |-> BOOLEAN, pat |-> plain name]; the first rule whose       *)
(* pattern equals the entry's last path component decides; an excluded      *)
(* directory takes its subtree with it; the transfer root is never filtered *)
MatchIdx(rules, p) == {i \in 1..Len(rules) : rules[i].pat = BaseMap[p]}
FirstMatch(rules, p) == IF MatchIdx(rules, p) = {} THEN 0
                        ELSE CHOOSE i \in MatchIdx(rules, p) : \A j \in MatchIdx(rules, p) : i <= j
ExcludedSelf(rules, p) == p # "." /\ FirstMatch(rules, p) # 0 /\ ~rules[FirstMatch(rules, p)].inc
Excluded(rules, p) == \E a \in Paths : IsAncestorOrSelf(a, p) /\ ExcludedSelf(rules, a)
Selected(src, rules) == [p \in Paths |-> IF Excluded(rules, p) THEN Absent ELSE src[p]]
(* names the user's exclude rules protect from --delete on the receiving side *)
Protected(rules) == {p \in Paths : ExcludedSelf(rules, p)}
(* the entries of a tree as a (sorted) file list, as a sender walking it lists them *)
EntryOf(name, n) == [name |-> name, t |-> n.t, c |-> n.c, sz |-> n.sz, mt |-> n.mt, perm |-> n.perm, tgt |-> n.tgt, uid |-> n.uid, gid |-> n.gid]
ListOfTree(tree) == LET F[k \in 0..Len(Universe)] ==
                          IF k = 0 THEN <<>>
                          ELSE IF Exists(tree, Universe[k]) THEN Append(F[k-1], EntryOf(Universe[k], tree[Universe[k]])) ELSE F[k-1]
                    IN F[Len(Universe)]
(* what a sender lists for "tree/" with the given options and rules *)
SenderList(src, o, rules) == IF o.r THEN ListOfTree(Selected(src, rules)) ELSE <<>>

(* ------------------------------------------------------------ the delete pass (C09) *)
ListedNames(list) == {list[i].name : i \in 1..Len(list)}
HasTopDir(list) == "." \in ListedNames(list)
(* a path is extraneous when it, or a directory above it, is not named by  *)
(* the sender and not protected by an exclude rule of the user             *)
Extraneous(fs, list, prot, p) ==
  \E a \in Paths : /\ IsAncestorOrSelf(a, p) /\ Exists(fs, a)
                   /\ a \notin ListedNames(list) /\ a \notin prot
                   /\ \A b \in Paths : IsAncestorOrSelf(b, a) => b \notin prot
DeleteApplies(list, o, ioerr) == o.del /\ ~o.n /\ ioerr = 0 /\ HasTopDir(list)
AfterDelete(fs, list, o, ioerr, prot) ==
  IF DeleteApplies(list, o, ioerr)
  THEN [p \in Paths |-> IF Exists(fs, p) /\ Extraneous(fs, list, prot, p) THEN Absent ELSE fs[p]]
  ELSE fs

(* ------------------------------------------------------------ the generator, one entry *)
(* returns [fs, req]: the tree after the generator handled entry e and the   *)
(* kind of request it sent: "none" | "full" | "delta" | "dry"                *)
GenStep(fs, e, o) ==
  LET st == fs[e.name] IN
  IF o.n THEN                                   \* C10: a dry run changes nothing
    [fs |-> fs, req |-> IF e.t = "reg" /\ NeedsTransfer(e, st, o) THEN "dry" ELSE "none"]
  ELSE IF e.t = "dir" THEN
    LET cleared == IF Exists(fs, e.name) /\ ~IsDir(fs, e.name) THEN RemoveAll(fs, e.name) ELSE fs
    IN [fs |-> [cleared EXCEPT ![e.name] = DirAttrs(e, st, o)], req |-> "none"]
  ELSE IF e.t = "lnk" THEN
    IF ~o.l THEN [fs |-> fs, req |-> "none"]
    ELSE IF st.t = "lnk" /\ st.tgt = e.tgt THEN [fs |-> fs, req |-> "none"]
    ELSE [fs |-> [RemoveAll(fs, e.name) EXCEPT ![e.name] = LnkAttrs(e)], req |-> "none"]
  ELSE IF IsSpecial(e.t) THEN
    IF ~WantsSpecial(e.t, o) THEN [fs |-> fs, req |-> "none"]
    ELSE IF st.t = e.t THEN [fs |-> fs, req |-> "none"]
    ELSE [fs |-> [fs EXCEPT ![e.name] = SpecAttrs(e, o)], req |-> "none"]
  ELSE \* regular file
    IF ~Exists(fs, e.name) THEN [fs |-> fs, req |-> "full"]
    ELSE IF st.t # "reg" THEN [fs |-> RemoveAll(fs, e.name), req |-> "full"]   \* make room
    ELSE IF NeedsTransfer(e, st, o) THEN [fs |-> fs, req |-> "delta"]
    ELSE [fs |-> [fs EXCEPT ![e.name] = SkipAttrs(e, st, o)], req |-> "none"]

(* the receiver commits a verified file: rename over the destination, then attributes *)
RcvStep(fs, e, o) == [fs EXCEPT ![e.name] = RegAttrs(e, fs[e.name], o)]

(* ------------------------------------------------------------ whole-run functions *)
(* tree and request log after the generator handled entries 1..k (receiver  *)
(* commits applied as soon as requested - they commute with later entries)  *)
RunTo(fs0, list, o, k) ==
  LET F[j \in 0..k] ==
        IF j = 0 THEN [fs |-> fs0, reqs |-> <<>>]
        ELSE LET prev == F[j-1]
                 g == GenStep(prev.fs, list[j], o)
             IN [fs |-> IF g.req \in {"full", "delta"} THEN RcvStep(g.fs, list[j], o) ELSE g.fs,
                 reqs |-> IF g.req = "none" THEN prev.reqs
                          ELSE Append(prev.reqs, [name |-> list[j].name, kind |-> g.req])]
  IN F[k]
Expected(fs0, list, o, ioerr, prot) ==
  RunTo(AfterDelete(fs0, list, o, ioerr, prot), list, o, Len(list))
=============================================================================
