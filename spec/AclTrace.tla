----------------------------- MODULE AclTrace -----------------------------
(* C19: validation of connection attempts against the REAL daemon          *)
(* (HandleDaemonConn with the connection name carrying the client address):*)
(* the reply must be "@RSYNCD: OK" exactly when AclOps!Decide grants       *)
(* access, otherwise an @ERROR line and not one byte more.                 *)
EXTENDS AclOps, Json, IOUtils

Traces == ndJsonDeserialize(IOEnv.VERIF_TRACE)
VARIABLES t, st
vars == <<t, st>>
Tr == Traces[t]
Accepts ==
  LET d == Decide(Tr.arules, Tr.aaddr) IN
  IF d = "allow" THEN Tr.reply = "ok"
  ELSE Tr.reply = "error" /\ Tr.trailing = 0
Init == t \in 1..Len(Traces) /\ st = "run"
Check == /\ st = "run"
         /\ IF Accepts THEN st' = "acc" ELSE (PrintT(<<"REJECT", Tr.id, 0>>) /\ st' = "rej")
         /\ UNCHANGED t
Done == st # "run" /\ UNCHANGED vars
Spec == Init /\ [][Check \/ Done]_vars
=============================================================================
