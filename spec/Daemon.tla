------------------------------ MODULE Daemon ------------------------------
(* The daemon side of one connection (rsyncd/rsyncd.go HandleDaemonConn +  *)
(* handleConn): greeting, module selection, access control, argument       *)
(* lines, and the gate that decides whether the session may write to the   *)
(* module.  Covers C07 (read-only modules are never modified) and the      *)
(* liveness half of C08 (whatever a peer sends ends only that session).    *)
EXTENDS Integers, Sequences, FiniteSets, TLC, Json, CSV, IOUtils

(* module kinds: directory-backed read-only / writable, fs.FS-backed (never writable) *)
ModKinds == {"ro", "rw", "fs"}
Writable(k) == k = "rw"

(* what the client asks for *)
Modes == {"send", "recv"}                        \* server role: send (client pulls) / recv (client uploads)
Uploads == {"benign", "hostile", "delete-empty"} \* what an uploading client then sends
Subs == {"root", "existing", "new"}              \* destination below the module: none, an existing directory, a new path
FlagSets == SUBSET {"n", "delete"}
Transports == {"conn", "stdio", "cmd"}           \* daemon protocol over a connection / over stdin+stdout (remote shell, SSH) /
                                                 \* the module handed to the server directly (HandleConnArgs: command mode, no greeting)
Faults == {"none", "bad-greeting", "unknown-module", "bad-args", "early-close"}
(* the module table around the module under test: alone; next to a writable and another read-only module;    *)
(* next to a writable module whose PATH is a string prefix of this module's path; below a writable module's   *)
(* directory; above a writable module's directory.  Only the module's OWN flag decides (Gate).                *)
Layouts == {"alone", "sibling", "prefix", "nested", "parent", "same", "same-slash"}     \* same: a writable module exports the SAME directory under another name
(* how the client spells its argument lines: as a stock client does; WITHOUT the "--server" line (a hand-written *)
(* client: no "--sender" still means the daemon receives); with long option names; with repeated lines.        *)
(* The gate does not depend on the spelling.                                                                   *)
ArgForms == {"normal", "no-server", "long", "dup"}

VARIABLES kind, mode, upload, sub, flags, transport, fault, layout, argform,   \* the scenario
          pc,          \* "greet" | "module" | "acl" | "args" | "gate" | "session" | "closed"
          modver,      \* version counter of the module's file system (any write increments it)
          reply,       \* "none" | "ok" | "error"
          serving      \* the daemon process keeps serving other connections
vars == <<kind, mode, upload, sub, flags, transport, fault, layout, argform, pc, modver, reply, serving>>

Init == /\ kind \in ModKinds /\ mode \in Modes /\ upload \in Uploads /\ sub \in Subs /\ flags \in FlagSets
        /\ transport \in Transports /\ fault \in Faults /\ layout \in Layouts
        /\ argform \in ArgForms /\ (argform # "normal" => layout = "alone")
        /\ pc = "greet" /\ modver = 0 /\ reply = "none" /\ serving = TRUE

Fail(next) == /\ reply' = "error" /\ pc' = "closed" /\ UNCHANGED <<modver, serving>>

Greet == /\ pc = "greet"
         /\ IF fault = "bad-greeting" \/ fault = "early-close" THEN Fail("closed")
            ELSE pc' = "module" /\ UNCHANGED <<reply, modver, serving>>
         /\ UNCHANGED <<kind, mode, upload, sub, flags, transport, fault, layout, argform>>
SelectModule == /\ pc = "module"
                /\ IF fault = "unknown-module" THEN Fail("closed")
                   ELSE pc' = "acl" /\ UNCHANGED <<reply, modver, serving>>
                /\ UNCHANGED <<kind, mode, upload, sub, flags, transport, fault, layout, argform>>
CheckAcl == /\ pc = "acl" /\ pc' = "args" /\ reply' = "ok"          \* (the decision itself is Acl.tla's)
            /\ UNCHANGED <<kind, mode, upload, sub, flags, transport, fault, layout, argform, modver, serving>>
ParseArgs == /\ pc = "args"
             /\ IF fault = "bad-args" THEN Fail("closed")
                ELSE pc' = "gate" /\ UNCHANGED <<reply, modver, serving>>
             /\ UNCHANGED <<kind, mode, upload, sub, flags, transport, fault, layout, argform>>
(* rsyncd.go handleConnReceiver: receiver mode is refused unless the module is *)
(* writable - BEFORE anything (MkdirAll of the module or of the requested      *)
(* sub-directory, the delete pass, the file list) is touched                   *)
Gate == /\ pc = "gate"
        /\ IF mode = "recv" /\ ~Writable(kind) THEN Fail("closed")
           ELSE pc' = "session" /\ UNCHANGED <<reply, modver, serving>>
        /\ UNCHANGED <<kind, mode, upload, sub, flags, transport, fault, layout, argform>>
(* the transfer itself: only a writable module in receive mode may change *)
Session == /\ pc = "session"
           /\ modver' = IF mode = "recv" /\ "n" \notin flags THEN modver + 1 ELSE modver
           /\ pc' = "closed"
           /\ UNCHANGED <<kind, mode, upload, sub, flags, transport, fault, layout, argform, reply, serving>>
Closed == pc = "closed" /\ UNCHANGED vars
Next == Greet \/ SelectModule \/ CheckAcl \/ ParseArgs \/ Gate \/ Session \/ Closed
Spec == Init /\ [][Next]_vars /\ WF_vars(Next)

(* C07 *)
ReadOnlyIntact == ~Writable(kind) => modver = 0
Refused == (pc = "closed" /\ mode = "recv" /\ ~Writable(kind) /\ fault = "none") => reply = "error"
(* C08 (daemon side): no peer behaviour stops the daemon *)
KeepsServing == serving
EverySessionEnds == <>(pc = "closed")

OutFile == IOEnv.VERIF_OUT
Emit == (pc = "greet" /\ mode = "recv" /\ fault = "none") =>
  CSVWrite("%1$s", <<ToJson([kind |-> kind, upload |-> upload, sub |-> sub, flags |-> flags, transport |-> transport, layout |-> layout, argform |-> argform])>>, OutFile)
GenNext == FALSE /\ UNCHANGED vars
GenSpec == Init /\ [][GenNext]_vars
=============================================================================
