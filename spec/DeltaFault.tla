---------------------------- MODULE DeltaFault ----------------------------
(* C03: only data that passes the whole-file checksum ever replaces a      *)
(* destination file.  Delta's sender produces a token stream and trailer;  *)
(* before the receiver consumes it exactly one fault may hit the stream    *)
(* (a changed literal byte, a block reference replaced by another, a       *)
(* duplicated / dropped / swapped token, truncation, a damaged trailer) or *)
(* the receiver's basis (changed after its checksums were sent).           *)
(* The destination path holds `old` (the basis) until RcvEnd accepts.      *)
EXTENDS Delta, Json, CSV, IOUtils

VARIABLES fault,    \* [kind, k, p]: the fault injected (kind "pending": not decided yet; "none": none)
          eof,      \* the stream was cut: the receiver hits end-of-stream
          dest,     \* what the destination path holds: "old" | "new"
          basis0    \* the basis the checksums were computed on (history)
fvars == <<vars, fault, eof, dest, basis0>>

Replace(ts, k, x) == [ts EXCEPT ![k] = x]
RemoveAt(ts, k) == SubSeq(ts, 1, k - 1) \o SubSeq(ts, k + 1, Len(ts))
InsertAt(ts, k, x) == SubSeq(ts, 1, k) \o <<x>> \o SubSeq(ts, k + 1, Len(ts))
SwapAdj(ts, k) == [ts EXCEPT ![k] = ts[k + 1], ![k + 1] = ts[k]]

CONSTANT UseShapes      \* TRUE: start from the fixed file shapes below (scenario generation)

(* file shapes for replay (symbols < 100 are full blocks, >= 100 narrow fresh data) *)
Shapes == { [name |-> "whole-new",       basis |-> <<>>,          target |-> <<100, 101, 102>>],
            [name |-> "whole-unrelated", basis |-> <<5>>,         target |-> <<100, 101>>],
            [name |-> "pure-delta",      basis |-> <<1, 2, 3, 4>>, target |-> <<3, 1, 2, 4>>],
            [name |-> "mixed",           basis |-> <<1, 2, 3>>,   target |-> <<2, 100, 1, 3, 101>>],
            [name |-> "identical",       basis |-> <<1, 2>>,      target |-> <<1, 2>>] }
ShapeInit == /\ \E sh \in Shapes : basis = sh.basis /\ target = sh.target
             /\ blk = 1 /\ s2 = 16
             /\ off = 0 /\ lastMatch = 0 /\ toks = <<>> /\ trailer = <<>>
             /\ rpos = 0 /\ out = <<>> /\ result = "run"
             /\ pc = IF NBlocks(basis, blk) = 0 THEN "whole" ELSE "search"

Pending == [kind |-> "pending", k |-> 0, p |-> 0]
F(kind, k, p) == [kind |-> kind, k |-> k, p |-> p]
Bytes == IF UseShapes THEN {99} ELSE Alphabet          \* replacement byte values

FInit == (IF UseShapes THEN ShapeInit ELSE Init) /\ fault = Pending /\ eof = FALSE /\ dest = "old" /\ basis0 = basis

Sender == (SendWhole \/ MatchAny \/ Slide \/ FlushEarly \/ Finish) /\ UNCHANGED <<fault, eof, dest, basis0>>

NoFault == /\ pc = "done" /\ fault = Pending /\ fault' = F("none", 0, 0)
           /\ UNCHANGED <<vars, eof, dest, basis0>>
(* one literal byte changed in transit *)
FlipLiteral == /\ pc = "done" /\ fault = Pending
               /\ \E k \in 1..Len(toks) : IsLit(toks[k]) /\
                    \E j \in 1..Len(toks[k].lit), b \in Bytes :
                      /\ b # toks[k].lit[j]
                      /\ toks' = Replace(toks, k, [lit |-> [toks[k].lit EXCEPT ![j] = b]])
                      /\ fault' = F("flip-literal", k - 1, j - 1)
               /\ UNCHANGED <<basis, target, blk, s2, off, lastMatch, trailer, rpos, out, result, pc, eof, dest, basis0>>
(* a block reference replaced by another (valid or not) *)
SwapRef == /\ pc = "done" /\ fault = Pending
           /\ \E k \in 1..Len(toks) : ~IsLit(toks[k]) /\
                \E i \in 0..NB : /\ i # toks[k].ref /\ toks' = Replace(toks, k, [ref |-> i])
                                  /\ fault' = F("swap-ref", k - 1, i)
           /\ UNCHANGED <<basis, target, blk, s2, off, lastMatch, trailer, rpos, out, result, pc, eof, dest, basis0>>
DupToken == /\ pc = "done" /\ fault = Pending
            /\ \E k \in 1..Len(toks) : toks' = InsertAt(toks, k, toks[k]) /\ fault' = F("dup-token", k - 1, 0)
            /\ UNCHANGED <<basis, target, blk, s2, off, lastMatch, trailer, rpos, out, result, pc, eof, dest, basis0>>
DropToken == /\ pc = "done" /\ fault = Pending
             /\ \E k \in 1..Len(toks) : toks' = RemoveAt(toks, k) /\ fault' = F("drop-token", k - 1, 0)
             /\ UNCHANGED <<basis, target, blk, s2, off, lastMatch, trailer, rpos, out, result, pc, eof, dest, basis0>>
ReorderTokens == /\ pc = "done" /\ fault = Pending
                 /\ \E k \in 1..Len(toks) - 1 : /\ toks[k] # toks[k + 1] /\ toks' = SwapAdj(toks, k)
                                                  /\ fault' = F("reorder", k - 1, 0)
                 /\ UNCHANGED <<basis, target, blk, s2, off, lastMatch, trailer, rpos, out, result, pc, eof, dest, basis0>>
Truncate == /\ pc = "done" /\ fault = Pending
            /\ \E n \in 0..Len(toks) : toks' = SubSeq(toks, 1, n) /\ fault' = F("truncate", n, 0)
            /\ eof' = TRUE
            /\ UNCHANGED <<basis, target, blk, s2, off, lastMatch, trailer, rpos, out, result, pc, dest, basis0>>
(* the 16-byte trailer damaged in byte k, bit p: abstractly, some other value *)
FlipTrailer == /\ pc = "done" /\ fault = Pending
               /\ \E k \in (IF UseShapes THEN 0..15 ELSE 0..1), p \in (IF UseShapes THEN 0..7 ELSE 0..1) : trailer' = <<-1000 - 8 * k - p>> /\ fault' = F("flip-trailer", k, p)
               /\ UNCHANGED <<basis, target, blk, s2, off, lastMatch, toks, rpos, out, result, pc, eof, dest, basis0>>
(* the basis is modified (same length) after its checksums were sent *)
BasisChanged == /\ pc = "done" /\ fault = Pending /\ Len(basis) > 0
                /\ \E j \in 1..Len(basis), b \in Bytes :
                     /\ b # basis[j] /\ basis' = [basis EXCEPT ![j] = b]
                     /\ fault' = F("basis-changed", 0, j - 1)
                /\ UNCHANGED <<target, blk, s2, off, lastMatch, toks, trailer, rpos, out, result, pc, eof, dest, basis0>>

Receiver == /\ fault # Pending
            /\ \/ (RcvLit \/ RcvRef \/ RcvBadRef) /\ UNCHANGED <<fault, eof, dest, basis0>>
               \/ /\ ~eof /\ RcvEnd /\ dest' = (IF result' = "ok" THEN "new" ELSE "old")
                  /\ UNCHANGED <<fault, eof, basis0>>
               \/ /\ eof /\ result = "run" /\ rpos = Len(toks)          \* unexpected end of stream
                  /\ result' = "corrupt" /\ UNCHANGED <<basis, target, blk, s2, off, lastMatch, toks, trailer, rpos, out, pc, fault, eof, dest, basis0>>

FStutter == result # "run" /\ UNCHANGED fvars
FNext == Sender \/ NoFault \/ FlipLiteral \/ SwapRef \/ DupToken \/ DropToken \/ ReorderTokens \/ Truncate
         \/ FlipTrailer \/ BasisChanged \/ Receiver \/ FStutter
FSpec == FInit /\ [][FNext]_fvars

(* C03 *)
Gate == /\ (result # "run" => GateOK(result, dest))
        /\ (result = "ok" => out = target /\ dest = "new")       \* success means the sender's bytes
        /\ (dest = "new" => result = "ok" /\ out = target)        \* only verified data replaces the file
        /\ (result = "corrupt" => dest = "old")                   \* a failed file keeps its previous content
UndamagedSucceeds == (fault.kind = "none" /\ s2 = 16 /\ result # "run") => result = "ok"

(* scenario generation: one JSON line per (shape, fault) *)
OutFile == IOEnv.VERIF_OUT
EmitFault == (fault # Pending /\ rpos = 0 /\ result = "run") =>
  CSVWrite("%1$s", <<ToJson([basis |-> basis0,
                             target |-> target, fault |-> fault])>>, OutFile)
(* generation explores only up to the fault decision *)
GenNext == Sender \/ NoFault \/ FlipLiteral \/ SwapRef \/ DupToken \/ DropToken \/ ReorderTokens \/ Truncate
           \/ FlipTrailer \/ BasisChanged \/ (fault # Pending /\ UNCHANGED fvars)
GenSpec == FInit /\ [][GenNext]_fvars
=============================================================================
