-------------------------- MODULE RecvDeltaTrace --------------------------
(* Validation of what the REAL receiver wrote for a scripted token stream  *)
(* (C02, receiver half): the file the session left at the destination,     *)
(* decoded back into symbols, must be exactly what the script denotes      *)
(* (DeltaOps!Denote evaluated by TLC) and the transfer must have succeeded.*)
EXTENDS DeltaOps, TLC, Json, IOUtils
Traces == ndJsonDeserialize(IOEnv.VERIF_TRACE)
VARIABLES t, st
tvars == <<t, st>>
Tr == Traces[t]
Accepts == /\ Tr.result = "ok"
           /\ Tr.out = Denote(Tr.script, Tr.basis, Tr.blk)
           /\ Tr.temps = 0
TInit == t \in 1..Len(Traces) /\ st = "run"
TCheck == /\ st = "run"
          /\ IF Accepts THEN st' = "acc" ELSE (PrintT(<<"REJECT", Tr.id, 0>>) /\ st' = "rej")
          /\ UNCHANGED t
TDone == st # "run" /\ UNCHANGED tvars
TSpec == TInit /\ [][TCheck \/ TDone]_tvars
=============================================================================
