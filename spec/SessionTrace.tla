--------------------------- MODULE SessionTrace ---------------------------
(* C18: validation of real sessions against Session.tla's claims.          *)
(*  kind "cap":  one transfer (real client <-> real server, library        *)
(*               arrangement) over a transport with the given capacities   *)
(*               per direction (0 bytes = rendezvous .. unbounded), read   *)
(*               chunking and random yields: it must TERMINATE (no hang    *)
(*               established by the transport) successfully, with the      *)
(*               destination of the unconstrained baseline run             *)
(*  kind "caperr": the same with one bit of the data direction flipped:    *)
(*               whatever fails first, the session must END (error or not) *)
(*               - first error wins, nobody waits for a blocked sibling    *)
(*  kind "conc": N simultaneous sessions against one daemon under the race *)
(*               detector: every session succeeds with the result it       *)
(*               produces alone, and no data race is reported              *)
EXTENDS Integers, Sequences, Json, IOUtils, TLC
Traces == ndJsonDeserialize(IOEnv.VERIF_TRACE)
VARIABLES t, st
vars == <<t, st>>
Tr == Traces[t]
Accepts ==
  IF Tr.kind = "cap"
  THEN /\ ~Tr.hung                                  \* Termination / deadlock freedom
       /\ Tr.result = "ok"
       /\ Tr.digest = Tr.basedigest                 \* same result as with unbounded buffers
  ELSE IF Tr.kind = "caperr"                        \* a fault mid-transfer: Session!Fail / TearDown - every activity stops
  THEN ~Tr.hung /\ Tr.result \in {"ok", "err"}
  ELSE /\ ~Tr.race
       /\ Tr.solook
       /\ \A i \in 1..Len(Tr.results) : Tr.results[i] = "ok"
       /\ \A i \in 1..Len(Tr.equal) : Tr.equal[i]   \* NonInterference: the solo result
Init == t \in 1..Len(Traces) /\ st = "run"
Check == /\ st = "run"
         /\ IF Accepts THEN st' = "acc" ELSE (PrintT(<<"REJECT", Tr.id, 0>>) /\ st' = "rej")
         /\ UNCHANGED t
Done == st # "run" /\ UNCHANGED vars
Spec == Init /\ [][Check \/ Done]_vars
=============================================================================
