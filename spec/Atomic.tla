------------------------------ MODULE Atomic ------------------------------
(* C04: destination paths change atomically.  The receiving side of a      *)
(* multi-file session at wire-unit granularity: for each requested file    *)
(* the sender delivers  idx, head, tok*, end, sum ; the receiver streams    *)
(* the data into a separately named temporary file, verifies the           *)
(* whole-file checksum when `sum` arrives and only then renames the temp   *)
(* over the destination path (receiver.go receiveData, renameio pending    *)
(* file).  A symlink is replaced by the generator in one step.  At any     *)
(* point the stream may be cut (error return: temps are removed once the   *)
(* connection is closed) or the process may be killed (temps may stay).    *)
EXTENDS AtomicOps, Json, CSV, IOUtils

CONSTANTS NFiles,       \* files 1..NFiles are requested in this order
          MaxTok        \* each file arrives in 1..MaxTok tokens

Files == 1..NFiles

VARIABLES kind,     \* [f -> "new" | "replace"]: is there previous content
          ntok,     \* [f -> number of tokens]
          dst,      \* [f -> "absent" | "old" | "new"]: what the destination path holds
          lnk,      \* "old" | "new": target of the replaced symlink
          cur,      \* file in progress (0: none)
          unit,     \* units of cur delivered so far
          tmp,      \* a temporary file exists
          verified, \* set of files whose checksum was verified
          mode      \* "run" | "done" | "error" | "killed"
vars == <<kind, ntok, dst, lnk, cur, unit, tmp, verified, mode>>

Prev(f) == IF kind[f] = "new" THEN "absent" ELSE "old"

Init == /\ kind \in [Files -> {"new", "replace"}]
        /\ ntok \in [Files -> 1..MaxTok]
        /\ dst = [f \in Files |-> IF kind[f] = "new" THEN "absent" ELSE "old"]
        /\ lnk = "old" /\ cur = 0 /\ unit = 0 /\ tmp = FALSE /\ verified = {} /\ mode = "run"

(* generatorsymlink.go: atomic replacement (rename of a temporary symlink) *)
GenSymlink == /\ mode = "run" /\ lnk = "old" /\ lnk' = "new"
              /\ UNCHANGED <<kind, ntok, dst, cur, unit, tmp, verified, mode>>

(* the next wire unit of the current (or next) file is delivered and consumed *)
NextFile == IF cur = 0 THEN 1 ELSE cur + 1
Deliver ==
  /\ mode = "run"
  /\ IF cur = 0 \/ unit = Len(Units(ntok[cur]))
     THEN \* start the next file: its index is delivered
          /\ NextFile \in Files
          /\ cur' = NextFile /\ unit' = 1
          /\ UNCHANGED <<dst, tmp, verified>>
     ELSE /\ cur' = cur /\ unit' = unit + 1
          /\ LET u == Units(ntok[cur])[unit + 1] IN
               /\ tmp' = (IF u = "head" THEN TRUE ELSE IF u = "sum" THEN FALSE ELSE tmp)
               /\ IF u = "sum"                       \* checksum verified, then renamed into place
                  THEN verified' = verified \cup {cur} /\ dst' = [dst EXCEPT ![cur] = "new"]
                  ELSE UNCHANGED <<dst, verified>>
  /\ UNCHANGED <<kind, ntok, lnk, mode>>

Finish == /\ mode = "run" /\ cur = NFiles /\ unit = Len(Units(ntok[cur])) /\ lnk = "new"
          /\ mode' = "done" /\ UNCHANGED <<kind, ntok, dst, lnk, cur, unit, tmp, verified>>
(* connection lost: the session returns an error; the pending temp file is removed *)
StreamCut == /\ mode = "run" /\ mode' = "error" /\ tmp' = FALSE
             /\ UNCHANGED <<kind, ntok, dst, lnk, cur, unit, verified>>
(* SIGKILL: nothing runs any more *)
Kill == /\ mode = "run" /\ mode' = "killed"
        /\ UNCHANGED <<kind, ntok, dst, lnk, cur, unit, tmp, verified>>
Stutter == mode # "run" /\ UNCHANGED vars
Next == GenSymlink \/ Deliver \/ Finish \/ StreamCut \/ Kill \/ Stutter
Spec == Init /\ [][Next]_vars

(* ---- C04 *)
(* every path holds its complete previous content (or is absent) or the    *)
(* complete new content - and the new one only after verification          *)
AtomicPaths == \A f \in Files : /\ dst[f] \in {Prev(f), "new"}
                                /\ dst[f] = "new" <=> f \in verified
(* files are committed in request order; at most the current one is in flight *)
InOrder == \A f \in Files : f \in verified => \A g \in Files : g < f => g \in verified
(* after an error return no temporary file remains *)
CleanAfterError == mode = "error" => ~tmp
DoneMeansAll == mode = "done" => verified = Files /\ lnk = "new" /\ ~tmp

(* scenario generation: one JSON line per initial state (kinds x token counts) *)
OutFile == IOEnv.VERIF_OUT
Emit == (mode = "run" /\ cur = 0 /\ lnk = "old") =>
  CSVWrite("%1$s", <<ToJson([kinds |-> [f \in Files |-> kind[f]], ntoks |-> [f \in Files |-> ntok[f]]])>>, OutFile)
GenNext == FALSE /\ UNCHANGED vars
GenSpec == Init /\ [][GenNext]_vars
=============================================================================
