---------------------------- MODULE RecvDelta ----------------------------
(* C02, receiver half: for EVERY valid token stream - block references in  *)
(* any order, the short remainder block referenced first or in the middle, *)
(* blocks referenced repeatedly or never, literal runs anywhere - the      *)
(* receiver (internal/receiver/receiver.go receiveData) writes exactly the *)
(* bytes the tokens denote and, the trailer being the checksum of those    *)
(* bytes, accepts the file.  The sender half of Delta.tla only ever feeds  *)
(* the receiver the streams a greedy left-to-right sender produces; other  *)
(* implementations (and this property) allow any order.                    *)
(* TLC enumerates basis layouts (number of blocks, with and without a      *)
(* short last block) and all token scripts up to MaxToks; each becomes a   *)
(* scripted answer of the reference sender to the REAL receiver.           *)
EXTENDS DeltaOps, TLC, Json, CSV, IOUtils

CONSTANTS MaxLen,      \* basis of 0..MaxLen distinct symbols
          Blks,        \* block lengths in symbols
          MaxToks,     \* tokens per script
          LitSyms      \* symbols literal runs are made of (disjoint from the basis symbols)

VARIABLES basis, blk, script, rpos, out, result
vars == <<basis, blk, script, rpos, out, result>>

Toks(b, B) == {[ref |-> i] : i \in 0..NBlocks(b, B) - 1}
              \cup {[lit |-> <<a>>] : a \in LitSyms} \cup {[lit |-> <<a, a>>] : a \in LitSyms}
Init == /\ \E L \in 0..MaxLen : basis = [k \in 1..L |-> k]
        /\ blk \in Blks
        /\ script \in SeqsUpTo(Toks(basis, blk), MaxToks)
        /\ rpos = 0 /\ out = <<>> /\ result = "run"

RcvLit == /\ result = "run" /\ rpos < Len(script) /\ IsLit(script[rpos + 1])
          /\ out' = out \o script[rpos + 1].lit /\ rpos' = rpos + 1
          /\ UNCHANGED <<basis, blk, script, result>>
RcvRef == /\ result = "run" /\ rpos < Len(script) /\ ~IsLit(script[rpos + 1])
          /\ out' = out \o Block(basis, blk, script[rpos + 1].ref) /\ rpos' = rpos + 1
          /\ UNCHANGED <<basis, blk, script, result>>
(* the trailer of a valid stream is the checksum of what the stream denotes *)
RcvEnd == /\ result = "run" /\ rpos = Len(script)
          /\ result' = IF out = Denote(script, basis, blk) THEN "ok" ELSE "corrupt"
          /\ UNCHANGED <<basis, blk, script, rpos, out>>
Terminated == result # "run" /\ UNCHANGED vars
Next == RcvLit \/ RcvRef \/ RcvEnd \/ Terminated
Spec == Init /\ [][Next]_vars

Faithful == out = Denote(SubSeq(script, 1, rpos), basis, blk)
Accepts == result # "run" => (result = "ok" /\ out = Denote(script, basis, blk))
(* the scripts really leave the greedy sender's repertoire: some reference  *)
(* the short last block before a full one                                   *)
RemainderFirst(s, b, B) == \E i, j \in 1..Len(s) : /\ i < j /\ ~IsLit(s[i]) /\ ~IsLit(s[j])
                                                    /\ s[i].ref = NBlocks(b, B) - 1 /\ Remainder(b, B) # 0 /\ s[j].ref # s[i].ref

OutFile == IOEnv.VERIF_OUT
Emit == (rpos = 0 /\ result = "run") =>
  CSVWrite("%1$s", <<ToJson([basis |-> basis, blk |-> blk, script |-> script,
                             denotes |-> Denote(script, basis, blk), remfirst |-> RemainderFirst(script, basis, blk)])>>, OutFile)
GenSpec == Init /\ [][FALSE /\ UNCHANGED vars]_vars
=============================================================================
