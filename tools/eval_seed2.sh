#!/bin/sh
# eval_seed2.sh <PROP> <x> [extra PROP...]  blind evaluation of a round-2 seeded change delivered in /tmp/wt2-<PROP><x>/_seed/<x>:
# copies it to /tmp/seed2/<PROP>/<x>, runs the property's quick check against a scratch worktree with the patch applied,
# then confirms the seed in another scratch worktree.  Results: /tmp/seed2/<PROP>/<x>/{detect.txt,verify.json}
p="$1"; x="$2"; shift 2
src=/tmp/wt2-$p$x/_seed/$x
dst=/tmp/seed2/$p/$x
[ -f "$src/patch.diff" ] || { echo "no seed $src"; exit 2; }
mkdir -p "$dst" && cp "$src"/* "$dst"/ 2>/dev/null
cd ${VERIF_DIR:-/verif}
/verif/tools/try_seed_wt.sh "$dst/patch.diff" quick "$p" "$@" > "$dst/detect.txt" 2>&1
/verif/tools/verify_seed.sh "$dst" > "$dst/verify.out" 2>&1
grep -m1 '^{"seed"' "$dst/verify.out" > "$dst/verify.json"
echo "== $p-$x: $(grep -E '^== ' $dst/detect.txt | tr '\n' ' ') | $(cat $dst/verify.json)"
