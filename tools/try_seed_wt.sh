#!/bin/sh
# try_seed_wt.sh <patch.diff> <tier> <PROP>...   run checks against a scratch worktree of /repo with the patch applied
# (parallel-safe alternative to try_seed.sh, which patches /repo itself). Evidence/replay go to /verif/.work/alt-*.
patch="$(readlink -f "$1")"; tier="$2"; shift 2
wt=/tmp/seedwt-$$
git -C /repo worktree add -q --detach $wt $(cat /tmp/seed_base 2>/dev/null || echo HEAD) || exit 2
trap 'git -C /repo worktree remove --force '$wt' 2>/dev/null; rm -rf '$wt EXIT INT TERM
git -C $wt apply "$patch" || { echo "patch does not apply"; exit 2; }
for p in "$@"; do
  out=$(cd ${VERIF_DIR:-/verif} && VERIF_REPO=$wt VERIF_NCPU=${VERIF_NCPU:-8} bin/check "$p" "$tier" 2>&1); rc=$?
  echo "== $p $tier rc=$rc"
  echo "$out" | grep -E "VIOLATION|KNOWN-FINDING|BROKEN|what:" | head -6
done
