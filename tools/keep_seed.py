#!/usr/bin/env python3
"""keep_seed.py <inbox dir> '<verify json>' '<detected: free text>' — file a confirmed seeded change under /verif/seeded/<ID>-<x>/"""
import json, os, shutil, sys
src, ver, det = sys.argv[1], json.loads(sys.argv[2]), sys.argv[3]
meta = json.load(open(os.path.join(src, "meta.json")))
name = "%s-%s" % (meta["property"], os.path.basename(src.rstrip("/")))
dst = os.path.join("/verif/seeded", name)
os.makedirs(dst, exist_ok=True)
for f in os.listdir(src):
    shutil.copy(os.path.join(src, f), os.path.join(dst, f))
ok = ver["demo_unpatched_rc"] == 0 and ver["patch_applies_rc"] == 0 and ver["build_rc"] == 0 and ver["suite_with_patch_rc"] == 0 and ver["demo_patched_rc"] != 0
meta["breaks_property"] = meta["property"]
meta["needs_to_manifest"] = meta.get("needs")
meta["confirmed_in_scratch_worktree"] = {"ok": ok, "ran": "tools/verify_seed.sh (demo on unpatched tree passes; git apply; go build ./...; go test -vet=off -count=1 ./... passes with the patch; demo fails with the patch)", "result": ver}
meta["checks_run_against_it"] = det
json.dump(meta, open(os.path.join(dst, "meta.json"), "w"), indent=1)
print(dst, "confirmed" if ok else "NOT CONFIRMED")
