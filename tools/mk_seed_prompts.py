#!/usr/bin/env python3
"""mk_seed_prompts.py <round letters e.g. cd> <outdir> — writes one prompt per (property, letter) for the
blind seeding sub-agents: the property text only, a scratch worktree path /tmp/wt2-<ID><x>, the deliverable
format tools/verify_seed.sh understands, and the titles of earlier seeds (so they are not repeated)."""
import glob, json, os, sys
letters, out = sys.argv[1], sys.argv[2]
os.makedirs(out, exist_ok=True)
props = [json.loads(l) for l in open('/verif/properties.jsonl')]
titles = {}
for m in glob.glob('/verif/seeded/*/meta.json'):
    d = json.load(open(m)); titles.setdefault(d['property'], []).append(d.get('title', ''))
T = open(os.path.join(os.path.dirname(os.path.abspath(__file__)), 'seed_prompt.tmpl')).read()
for d in props:
    for x in letters:
        q = d['quantifier']['text'] if isinstance(d['quantifier'], dict) else str(d['quantifier'])
        s = (T.replace('@PID@', d['id']).replace('@X@', x).replace('@TITLE@', d['title']).replace('@STATEMENT@', d['statement'])
              .replace('@QUANT@', q).replace('@WHY@', d['why_tests_cant']).replace('@ANCHORS@', json.dumps(d['anchors'], indent=1))
              .replace('@WT@', '/tmp/wt2-%s%s' % (d['id'], x)).replace('@EARLIER@', json.dumps(titles.get(d['id'], []))))
        open(os.path.join(out, '%s%s.txt' % (d['id'], x)), 'w').write(s)
