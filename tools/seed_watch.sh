#!/bin/sh
# seed_watch.sh <letter> [lanes]  - evaluates round-<letter> seeds as the sub-agents deliver them
# (/tmp/wt2-<ID><letter>/_seed/<letter>/meta.json), blind, from the frozen copy of /verif in $VERIF_DIR.
x="$1"; lanes="${2:-2}"
lane() {
  k="$1"
  while :; do
    did=0; left=0
    for n in 01 02 03 04 05 06 07 08 09 10 11 12 13 14 15 16 17 18 19 20; do
      p="C$n"
      [ $(( ${n#0} % lanes )) -eq "$k" ] || continue
      [ -f /tmp/seed2/$p/$x/verify.json ] && continue
      left=1
      if [ -f /tmp/wt2-$p$x/_seed/$x/meta.json ] && [ -f /tmp/wt2-$p$x/_seed/$x/patch.diff ]; then
        sleep 20   # let the agent finish writing
        /verif/tools/eval_seed2.sh $p $x >> /tmp/seed2-evals-$x.log 2>&1
        did=1
      fi
    done
    [ $left -eq 0 ] && break
    [ $did -eq 0 ] && sleep 30
  done
}
i=0
while [ $i -lt $lanes ]; do lane $i & i=$((i+1)); done
wait
echo "round $x evaluated" >> /tmp/seed2-evals-$x.log
