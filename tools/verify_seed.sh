#!/bin/sh
# verify_seed.sh <inbox-dir e.g. /verif/seeded_inbox/C02/a>
# Confirms in a scratch worktree: demo passes unpatched, patch applies+builds, existing suite passes
# with the patch, demo fails with the patch.  Prints a JSON summary line.
d="$1"
wt=/tmp/seedverify-$$
export GOFLAGS=-mod=mod GOPROXY=off
git -C /repo worktree add -q --detach $wt $(cat /tmp/seed_base 2>/dev/null || echo HEAD) || exit 2
trap 'git -C /repo worktree remove --force '$wt' 2>/dev/null; rm -rf '$wt EXIT INT TERM
dest=$(grep -m1 -E "^\s*cp _seed/[a-z]/demo" $d/HOWTO.txt | awk '{print $3}')
pat=$(grep -m1 -E "go test .*-run" $d/HOWTO.txt | sed -E "s/.*-run '?([A-Za-z0-9_]+)'?.*/\1/")
pkg=$(grep -m1 -E "go test .*-run" $d/HOWTO.txt | awk '{print $NF}')
cd $wt
cp $d/demo_test.go $dest
go test -vet=off -count=1 -run "$pat" $pkg >/tmp/sv-$$-1.log 2>&1; demo_clean=$?
rm -f $dest
git apply $d/patch.diff; applied=$?
go build ./... >/dev/null 2>&1; built=$?
go test -vet=off -count=1 -p 4 ./... >/tmp/sv-$$-2.log 2>&1; suite=$?
# the repository's own suite has a known flake (TestInteropRemoteDaemonSSH: host key / landlock, see DESIGN.md 10.3):
# when it is the ONLY failing test, run the suite again (at most twice)
tries=1
while [ $suite -ne 0 ] && [ $tries -lt 3 ] && [ "$(grep -E '^--- FAIL' /tmp/sv-$$-2.log | grep -v TestInteropRemoteDaemonSSH | wc -l)" = "0" ]; do
  tries=$((tries+1)); go test -vet=off -count=1 -p 4 ./... >/tmp/sv-$$-2.log 2>&1; suite=$?
done
cp $d/demo_test.go $dest
go test -vet=off -count=1 -run "$pat" $pkg >/tmp/sv-$$-3.log 2>&1; demo_patched=$?
echo "{\"seed\":\"$d\",\"demo_unpatched_rc\":$demo_clean,\"patch_applies_rc\":$applied,\"build_rc\":$built,\"suite_with_patch_rc\":$suite,\"demo_patched_rc\":$demo_patched,\"demo\":\"$pat in $pkg\"}"
[ $suite -ne 0 ] && grep -E "^(FAIL|---)" /tmp/sv-$$-2.log | head -5
rm -f /tmp/sv-$$-*.log
