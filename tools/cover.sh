#!/bin/sh
# cover.sh <outdir> <PROP>...   statement coverage of gokrazy/rsync's own packages under the quick tier of the given
# checks: which code of the anchored files does no scenario reach?  (A measuring tool, not a check: results under
# <outdir>; workers that are killed on purpose write no counters.)  Binaries built with and without -race use
# different counter modes, so the raw data is split by meta-data file and merged as text.
out="$(readlink -f "$1")"; shift
mkdir -p "$out/raw"
for p in "$@"; do
  VERIF_COVER="$out/raw" bin/check "$p" quick > "$out/$p.log" 2>&1; echo "$p rc=$?"
done
cd /repo || exit 2
for m in "$out"/raw/covmeta.*; do
  h="${m##*.}"; mkdir -p "$out/r-$h"; mv "$m" "$out/r-$h/"; mv "$out"/raw/covcounters."$h".* "$out/r-$h/" 2>/dev/null
  GOFLAGS=-mod=mod GOPROXY=off go tool covdata textfmt -i="$out/r-$h" -o "$out/c-$h.txt"
done
python3 - "$out" <<'PY'
import glob, sys
out = sys.argv[1]
cov = {}
for f in glob.glob(out + '/c-*.txt'):
    for l in open(f):
        if l.startswith('mode:') or 'verifharness' in l:
            continue
        k, n, c = l.rsplit(' ', 2)
        cov[(k, n)] = max(cov.get((k, n), 0), 1 if int(c) > 0 else 0)
with open(out + '/merged.txt', 'w') as o:
    o.write('mode: set\n')
    for (k, n), c in sorted(cov.items()):
        o.write('%s %s %d\n' % (k, n, c))
files = {}
for (k, n), c in cov.items():
    t = files.setdefault(k.split(':')[0].replace('github.com/gokrazy/rsync/', ''), [0, 0])
    t[0] += int(n); t[1] += int(n) * c
for fn, (tot, cv) in sorted(files.items(), key=lambda x: x[1][0] - x[1][1], reverse=True):
    print('%-60s %5d/%5d %3.0f%%' % (fn, cv, tot, 100 * cv / max(tot, 1)))
T = sum(t[0] for t in files.values()); C = sum(t[1] for t in files.values())
print('total %d/%d statements %.1f%%' % (C, T, 100 * C / max(T, 1)))
PY
