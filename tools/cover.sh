#!/bin/sh
# cover.sh <outdir> <PROP>...   statement coverage of gokrazy/rsync's own packages under the quick tier of the given
# checks: which code of the anchored files does no scenario reach?  (A measuring tool, not a check: results under
# <outdir>; workers that are killed on purpose write no counters.)
out="$(readlink -f "$1")"; shift
mkdir -p "$out/raw"
for p in "$@"; do
  VERIF_COVER="$out/raw" bin/check "$p" quick > "$out/$p.log" 2>&1; echo "$p rc=$?"
done
cd /repo && GOFLAGS=-mod=mod GOPROXY=off go tool covdata textfmt -i="$out/raw" -o "$out/cover.txt" && \
  GOFLAGS=-mod=mod GOPROXY=off go tool cover -func="$out/cover.txt" > "$out/func.txt" && tail -1 "$out/func.txt"
