#!/bin/sh
# try_seed.sh <patch.diff> <tier> <PROP>...   apply a seeded change to /repo, run the checks, undo it.
patch="$1"; tier="$2"; shift 2
cd /repo || exit 2
if [ -n "$(git status --porcelain --untracked-files=no)" ]; then echo "repo dirty"; exit 2; fi
git apply "$patch" || { echo "patch does not apply"; exit 2; }
trap 'git -C /repo checkout -- . ' EXIT INT TERM
for p in "$@"; do
  out=$(cd /verif && bin/check "$p" "$tier" 2>&1); rc=$?
  echo "== $p $tier rc=$rc"
  echo "$out" | grep -E "VIOLATION|KNOWN-FINDING|BROKEN|what:" | head -6
done
