// Package fstree materialises abstract trees (as the TLA+ scenarios describe
// them) on disk and projects real directory trees back to the abstract form.
package fstree

import (
	"crypto/sha256"
	"encoding/hex"
	"fmt"
	"io/fs"
	"math/rand"
	"os"
	"path/filepath"
	"sort"
	"strconv"
	"strings"
	"syscall"
	"time"

	"golang.org/x/sys/unix"
)

// Node is one file-system object, abstractly.
type Node struct {
	P    string `json:"p"`    // path relative to the root ("." is the root itself)
	T    string `json:"t"`    // reg dir lnk fifo sock chr blk
	C    int    `json:"c"`    // content id (reg): bytes are a function of (C, Sz)
	Sz   int64  `json:"sz"`   // size (reg)
	Mt   int64  `json:"mt"`   // mtime seconds
	Ns   int64  `json:"ns"`   // mtime nanoseconds part
	Perm int    `json:"perm"` // permission bits
	Tgt  string `json:"tgt"`  // link target
	Rdev int    `json:"rdev"` // device number
	UID  int    `json:"uid"`
	GID  int    `json:"gid"`
	Data []byte `json:"data,omitempty"` // explicit content (overrides C)
	Of   int    `json:"of,omitempty"`   // with Ed: the content id the edit is applied to (default C)
	OfSz int64  `json:"ofsz,omitempty"` // ... and its size (default Sz)
	Ed   string `json:"ed,omitempty"`   // content = Edit(Content(C, Sz), Ed): "ins:off:n" "del:off:n" "rep:off:n" "trunc:n" "ext:n" "zero" "period:p" "high"
	Hash string `json:"hash,omitempty"` // snapshot only: content digest when C is unknown (-1)
}

// Content returns the bytes of content id c with size sz: pseudo-random,
// including bytes >= 0x80; different ids give different contents.
func Content(c int, sz int64) []byte {
	b := make([]byte, sz)
	r := rand.New(rand.NewSource(int64(c)*1_000_003 + 12345))
	r.Read(b)
	if sz > 0 {
		b[0] = byte(c) // sizes 1.. : ids < 256 differ already in the first byte
	}
	return b
}

// NodeData returns the bytes a regular node stands for.
func NodeData(n *Node) []byte {
	if n.Data != nil {
		return n.Data
	}
	if n.Ed != "" && (n.Of != 0 || n.OfSz != 0) {
		return Edit(Content(n.Of, n.OfSz), n.Ed)
	}
	return Edit(Content(n.C, n.Sz), n.Ed)
}

// Edit derives a variant of data (used for "edited copy of the source as delta basis").
func Edit(data []byte, ed string) []byte {
	if ed == "" {
		return data
	}
	var kind string
	var a, b int
	parts := strings.Split(ed, ":")
	kind = parts[0]
	if len(parts) > 1 {
		a, _ = strconv.Atoi(parts[1])
	}
	if len(parts) > 2 {
		b, _ = strconv.Atoi(parts[2])
	}
	n := len(data)
	clamp := func(x int) int { return max(0, min(x, n)) }
	fresh := func(k int) []byte {
		r := rand.New(rand.NewSource(int64(n)*31 + int64(a)*7 + int64(b)))
		out := make([]byte, k)
		r.Read(out)
		return out
	}
	switch kind {
	case "ins":
		off := clamp(a)
		return append(append(append([]byte{}, data[:off]...), fresh(b)...), data[off:]...)
	case "del":
		off := clamp(a)
		end := clamp(a + b)
		return append(append([]byte{}, data[:off]...), data[end:]...)
	case "rep":
		off := clamp(a)
		end := clamp(a + b)
		return append(append(append([]byte{}, data[:off]...), fresh(end-off)...), data[end:]...)
	case "trunc":
		return append([]byte{}, data[:clamp(a)]...)
	case "ext":
		return append(append([]byte{}, data...), fresh(a)...)
	case "zero":
		return make([]byte, n)
	case "period":
		p := max(a, 1)
		out := make([]byte, n)
		for i := range out {
			out[i] = data[i%p] | 0x80
		}
		return out
	case "high":
		out := make([]byte, n)
		for i := range out {
			out[i] = data[i] | 0x80
		}
		return out
	}
	return data
}

func digest(b []byte) string {
	h := sha256.Sum256(b)
	return hex.EncodeToString(h[:8])
}

// Build creates the nodes below root (which must exist). Parents first.
func Build(root string, nodes []Node) error {
	sorted := append([]Node(nil), nodes...)
	sort.SliceStable(sorted, func(i, j int) bool { return len(sorted[i].P) < len(sorted[j].P) })
	for _, n := range sorted {
		p := filepath.Join(root, n.P)
		perm := fs.FileMode(n.Perm)
		switch n.T {
		case "dir":
			if n.P != "." {
				if err := os.MkdirAll(p, 0o755); err != nil {
					return err
				}
			}
		case "reg":
			if err := os.MkdirAll(filepath.Dir(p), 0o755); err != nil {
				return err
			}
			data := NodeData(&n)
			if err := os.WriteFile(p, data, 0o644); err != nil {
				return err
			}
		case "lnk":
			os.MkdirAll(filepath.Dir(p), 0o755)
			if err := os.Symlink(n.Tgt, p); err != nil {
				return err
			}
		case "fifo":
			os.MkdirAll(filepath.Dir(p), 0o755)
			if err := unix.Mkfifo(p, uint32(perm)); err != nil {
				return err
			}
		case "sock":
			os.MkdirAll(filepath.Dir(p), 0o755)
			if err := unix.Mknod(p, unix.S_IFSOCK|uint32(perm), 0); err != nil {
				return err
			}
		case "chr":
			os.MkdirAll(filepath.Dir(p), 0o755)
			if err := unix.Mknod(p, unix.S_IFCHR|uint32(perm), n.Rdev); err != nil {
				return err
			}
		case "blk":
			os.MkdirAll(filepath.Dir(p), 0o755)
			if err := unix.Mknod(p, unix.S_IFBLK|uint32(perm), n.Rdev); err != nil {
				return err
			}
		default:
			return fmt.Errorf("unknown node type %q", n.T)
		}
	}
	// second pass, deepest first: ownership, permissions, times (so that
	// read-only directories and directory mtimes come out as described)
	sort.SliceStable(sorted, func(i, j int) bool { return len(sorted[i].P) > len(sorted[j].P) })
	for _, n := range sorted {
		p := filepath.Join(root, n.P)
		if n.UID != 0 || n.GID != 0 {
			if err := os.Lchown(p, n.UID, n.GID); err != nil {
				return err
			}
		}
		if n.T != "lnk" {
			if err := os.Chmod(p, fs.FileMode(n.Perm)); err != nil {
				return err
			}
		}
		ts := unix.NsecToTimespec(n.Mt*1e9 + n.Ns)
		if err := unix.UtimesNanoAt(unix.AT_FDCWD, p, []unix.Timespec{ts, ts}, unix.AT_SYMLINK_NOFOLLOW); err != nil {
			return err
		}
	}
	return nil
}

// Known maps content digests back to content ids.
type Known map[string]int

func (k Known) Add(c int, sz int64) { k[fmt.Sprintf("%d:%s", sz, digest(Content(c, sz)))] = c }
func (k Known) AddNode(n *Node) {
	if n.T == "reg" {
		k.AddData(n.C, NodeData(n))
	}
}
func (k Known) AddData(c int, data []byte) {
	k[fmt.Sprintf("%d:%s", len(data), digest(data))] = c
}

// Snapshot projects the tree below root (the root itself is reported as ".").
func Snapshot(root string, known Known) ([]Node, error) {
	var out []Node
	err := filepath.Walk(root, func(p string, info fs.FileInfo, err error) error {
		if err != nil {
			if os.IsNotExist(err) {
				// a file vanished while we were walking (a goroutine of a failed
				// session still cleaning up its temporary file): not an entry
				return nil
			}
			return err
		}
		rel, _ := filepath.Rel(root, p)
		n := Node{P: rel}
		st := info.Sys().(*syscall.Stat_t)
		n.Perm = int(info.Mode().Perm())
		if info.Mode()&fs.ModeSetuid != 0 {
			n.Perm |= 0o4000
		}
		if info.Mode()&fs.ModeSetgid != 0 {
			n.Perm |= 0o2000
		}
		if info.Mode()&fs.ModeSticky != 0 {
			n.Perm |= 0o1000
		}
		n.Mt = info.ModTime().Unix()
		n.Ns = int64(info.ModTime().Nanosecond())
		n.UID, n.GID = int(st.Uid), int(st.Gid)
		switch {
		case info.Mode().IsDir():
			n.T = "dir"
		case info.Mode().IsRegular():
			n.T = "reg"
			b, err := os.ReadFile(p)
			if err != nil {
				if os.IsNotExist(err) {
					return nil
				}
				return err
			}
			n.Sz = int64(len(b))
			key := fmt.Sprintf("%d:%s", len(b), digest(b))
			if c, ok := known[key]; ok {
				n.C = c
			} else {
				n.C = -1
				n.Hash = key
			}
		case info.Mode()&fs.ModeSymlink != 0:
			n.T = "lnk"
			n.Tgt, _ = os.Readlink(p)
		case info.Mode()&fs.ModeNamedPipe != 0:
			n.T = "fifo"
		case info.Mode()&fs.ModeSocket != 0:
			n.T = "sock"
		case info.Mode()&fs.ModeCharDevice != 0:
			n.T = "chr"
			n.Rdev = int(st.Rdev)
		case info.Mode()&fs.ModeDevice != 0:
			n.T = "blk"
			n.Rdev = int(st.Rdev)
		default:
			n.T = "other"
		}
		out = append(out, n)
		return nil
	})
	sort.Slice(out, func(i, j int) bool { return out[i].P < out[j].P })
	return out, err
}

// MakeWritable restores owner write/exec on all directories (for cleanup).
func MakeWritable(root string) {
	filepath.Walk(root, func(p string, info fs.FileInfo, err error) error {
		if err == nil && info.IsDir() {
			os.Chmod(p, 0o755)
		}
		return nil
	})
}

// Reset removes and recreates dir.
func Reset(dir string) error {
	MakeWritable(dir)
	if err := os.RemoveAll(dir); err != nil {
		return err
	}
	return os.MkdirAll(dir, 0o755)
}

var _ = time.Now
