// Package xport provides instrumented in-memory byte transports: a
// unidirectional pipe with configurable capacity (0 = rendezvous, n > 0 =
// bounded buffer of n bytes, < 0 = unbounded), optional chunking of reads,
// counters of goroutines blocked in Read/Write (for quiescence detection) and a
// totally ordered operation log (sequence numbers taken under the pipe mutex).
package xport

import (
	"io"
	"sync"
	"sync/atomic"
)

var globalSeq atomic.Int64

type Op struct {
	Seq  int64  `json:"seq"`
	Pipe string `json:"pipe"`
	Kind string `json:"kind"` // "w" (bytes accepted), "r" (bytes delivered), "cw", "cr" (close)
	N    int    `json:"n"`
}

type Log struct {
	mu  sync.Mutex
	Ops []Op
}

func (l *Log) add(op Op) {
	if l == nil {
		return
	}
	l.mu.Lock()
	l.Ops = append(l.Ops, op)
	l.mu.Unlock()
}

// Snapshot returns a copy of the operations recorded so far.
func (l *Log) Snapshot() []Op {
	l.mu.Lock()
	defer l.mu.Unlock()
	return append([]Op(nil), l.Ops...)
}

// Pipe is a unidirectional byte pipe.
type Pipe struct {
	Name    string
	Cap     int // 0 rendezvous, >0 bounded, <0 unbounded
	MaxRead int // if >0, a Read returns at most this many bytes
	Log     *Log
	Tap     func(p []byte)            // called with every chunk accepted from the writer (under the mutex)
	Yield   func()                    // scheduling perturbation: called at the start of every Read and Write (outside the mutex)
	Mangle  func(b []byte, off int64) // fault injection: may modify the bytes accepted at stream offset off (gets a private copy)

	mu      sync.Mutex
	cond    *sync.Cond
	buf     []byte
	wclosed bool
	rclosed bool
	werr    error
	readers int // goroutines blocked in Read
	writers int // goroutines blocked in Write
	total   int64
	// rendezvous: bytes offered by a blocked writer
	pending  []byte
	progress int64 // changes whenever bytes move
}

func NewPipe(name string, capacity int) *Pipe {
	p := &Pipe{Name: name, Cap: capacity}
	p.cond = sync.NewCond(&p.mu)
	return p
}

func (p *Pipe) Write(b []byte) (int, error) {
	if p.Yield != nil {
		p.Yield()
	}
	p.mu.Lock()
	defer p.mu.Unlock()
	written := 0
	for len(b) > 0 {
		if p.wclosed {
			return written, io.ErrClosedPipe
		}
		if p.rclosed {
			return written, io.ErrClosedPipe
		}
		switch {
		case p.Cap < 0:
			p.accept(b)
			written += len(b)
			b = nil
		case p.Cap > 0:
			free := p.Cap - len(p.buf)
			if free <= 0 {
				p.writers++
				p.cond.Wait()
				p.writers--
				continue
			}
			n := min(free, len(b))
			p.accept(b[:n])
			written += n
			b = b[n:]
		default: // rendezvous: hand over to a waiting reader
			if p.readers == 0 || len(p.buf) > 0 {
				p.writers++
				p.cond.Wait()
				p.writers--
				continue
			}
			// a reader waits and the buffer is empty: give it everything it
			// will take in one Read (it takes what it wants; the rest stays
			// pending by looping).
			n := len(b)
			if p.MaxRead > 0 && n > p.MaxRead {
				n = p.MaxRead
			}
			p.accept(b[:n])
			written += n
			b = b[n:]
			// wait until the reader consumed it
			for len(p.buf) > 0 && !p.rclosed {
				p.writers++
				p.cond.Wait()
				p.writers--
			}
		}
	}
	return written, nil
}

func (p *Pipe) accept(b []byte) {
	if p.Mangle != nil {
		c := append([]byte(nil), b...)
		p.Mangle(c, p.total)
		b = c
	}
	p.buf = append(p.buf, b...)
	p.total += int64(len(b))
	p.progress++
	if p.Tap != nil {
		p.Tap(b)
	}
	p.Log.add(Op{Seq: globalSeq.Add(1), Pipe: p.Name, Kind: "w", N: len(b)})
	p.cond.Broadcast()
}

func (p *Pipe) Read(b []byte) (int, error) {
	if len(b) == 0 {
		return 0, nil
	}
	if p.Yield != nil {
		p.Yield()
	}
	p.mu.Lock()
	defer p.mu.Unlock()
	for len(p.buf) == 0 {
		if p.rclosed {
			return 0, io.ErrClosedPipe
		}
		if p.wclosed {
			if p.werr != nil {
				return 0, p.werr
			}
			return 0, io.EOF
		}
		p.readers++
		p.cond.Broadcast() // wake a rendezvous writer
		p.cond.Wait()
		p.readers--
	}
	n := len(b)
	if p.MaxRead > 0 && n > p.MaxRead {
		n = p.MaxRead
	}
	n = copy(b[:n], p.buf)
	p.buf = p.buf[n:]
	p.progress++
	p.Log.add(Op{Seq: globalSeq.Add(1), Pipe: p.Name, Kind: "r", N: n})
	p.cond.Broadcast()
	return n, nil
}

// CloseWrite makes readers see EOF (after draining).
func (p *Pipe) CloseWrite() error { return p.CloseWriteErr(nil) }

func (p *Pipe) CloseWriteErr(err error) error {
	p.mu.Lock()
	p.wclosed = true
	p.werr = err
	p.Log.add(Op{Seq: globalSeq.Add(1), Pipe: p.Name, Kind: "cw"})
	p.cond.Broadcast()
	p.mu.Unlock()
	return nil
}

// CloseRead makes writers fail.
func (p *Pipe) CloseRead() error {
	p.mu.Lock()
	p.rclosed = true
	p.Log.add(Op{Seq: globalSeq.Add(1), Pipe: p.Name, Kind: "cr"})
	p.cond.Broadcast()
	p.mu.Unlock()
	return nil
}

// State returns (blocked readers, blocked writers, buffered bytes, progress counter).
func (p *Pipe) State() (readers, writers, buffered int, progress int64) {
	p.mu.Lock()
	defer p.mu.Unlock()
	return p.readers, p.writers, len(p.buf), p.progress
}

func (p *Pipe) Total() int64 {
	p.mu.Lock()
	defer p.mu.Unlock()
	return p.total
}

// End is one end of a bidirectional connection built from two pipes.
type End struct {
	In  *Pipe // we read from this
	Out *Pipe // we write to this
}

func (e *End) Read(b []byte) (int, error)  { return e.In.Read(b) }
func (e *End) Write(b []byte) (int, error) { return e.Out.Write(b) }
func (e *End) Close() error {
	e.Out.CloseWrite()
	e.In.CloseRead()
	return nil
}

// Conn returns the two ends (a: "client", b: "server") of a connection whose
// client→server direction has capacity capUp and server→client capDown.
func Conn(capUp, capDown int, log *Log) (a, b *End) {
	up := NewPipe("up", capUp)
	down := NewPipe("down", capDown)
	up.Log, down.Log = log, log
	return &End{In: down, Out: up}, &End{In: up, Out: down}
}
