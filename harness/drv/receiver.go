package drv

import (
	"context"
	"fmt"
	"io"

	"github.com/gokrazy/rsync/rsyncclient"
	"github.com/gokrazy/rsync/rsyncd"
	"github.com/gokrazy/rsync/verifharness/wirekit"
	"github.com/gokrazy/rsync/verifharness/xport"
)

// RecvPeer is the harness (reference sender) end of a connection to a real
// receiver: either the real client (rsyncclient.Run, we play the server) or a
// real server in receiver mode (HandleConnArgs on a writable module).
type RecvPeer struct {
	End       *xport.End
	Done      chan error
	IsClient  bool       // the real receiver is the client side
	In        *wirekit.R // requests from the receiver
	Out       *wirekit.W // our answers
	Demux     *wirekit.Demux
	Seed      int32
	Rules     []string // filter rules the client sent
	SendRules []string // harness as client of a deleting server: the filter rules to transmit (e.g. "- name")
}

// StartClientReceiver runs the real client in receiver mode towards dest; the
// harness plays the server-sender.  args are client options (e.g. "-rt").
func StartClientReceiver(args []string, dest string, stderr io.Writer, capUp, capDown int, log *xport.Log) (*RecvPeer, error) {
	if stderr == nil {
		stderr = io.Discard
	}
	cl, err := rsyncclient.New(args, rsyncclient.DontRestrict(), rsyncclient.WithStderr(stderr))
	if err != nil {
		return nil, err
	}
	a, b := xport.Conn(capUp, capDown, log) // a: server (harness) side?  we want: client writes "up"
	// Conn returns (client end, server end); the real client gets the client end.
	p := &RecvPeer{End: b, Done: make(chan error, 1), IsClient: true}
	go func() {
		_, err := cl.Run(context.Background(), a, []string{dest})
		a.Close()
		p.Done <- err
	}()
	return p, nil
}

// ServerHandshake: the harness is the server: read the client's version,
// answer, send the seed, switch our output to multiplexed frames, read the
// client's filter list.
func (p *RecvPeer) ServerHandshake(seed int32) error {
	raw := &wirekit.R{R: p.End}
	v, err := raw.Int32()
	if err != nil {
		return fmt.Errorf("reading client version: %w", err)
	}
	if v != 27 {
		return fmt.Errorf("client version %d", v)
	}
	w := &wirekit.W{W: p.End}
	w.Int32(27)
	w.Int32(seed)
	if w.Err != nil {
		return w.Err
	}
	p.Seed = seed
	p.In = raw
	p.Out = &wirekit.W{W: &wirekit.MuxWriter{W: p.End}}
	for {
		n, err := raw.Int32()
		if err != nil {
			return fmt.Errorf("reading filter list: %w", err)
		}
		if n == 0 {
			break
		}
		if n < 0 || n > 1<<16 {
			return fmt.Errorf("bad filter rule length %d", n)
		}
		b, err := raw.Bytes(int(n))
		if err != nil {
			return err
		}
		p.Rules = append(p.Rules, string(b))
	}
	return nil
}

// StartServerReceiver runs the real server in receiver mode (command mode);
// the harness plays the client-sender.  args: e.g. ["--server","-rt",".","sub"].
func StartServerReceiver(srv *rsyncd.Server, mod *rsyncd.Module, args []string, capUp, capDown int, log *xport.Log) *RecvPeer {
	a, b := xport.Conn(capUp, capDown, log)
	p := &RecvPeer{End: a, Done: make(chan error, 1)}
	go func() {
		conn := rsyncd.NewConnection(b, b, "harness")
		err := srv.HandleConnArgs(context.Background(), conn, mod, args)
		b.Close()
		p.Done <- err
	}()
	return p
}

// ClientHandshake: the harness is the client-sender facing a real server.
func (p *RecvPeer) ClientHandshake(sendFilterList bool) error {
	w := &wirekit.W{W: p.End}
	raw := &wirekit.R{R: p.End}
	w.Int32(27)
	if w.Err != nil {
		return w.Err
	}
	v, err := raw.Int32()
	if err != nil {
		return fmt.Errorf("reading server version: %w", err)
	}
	if v != 27 {
		return fmt.Errorf("server version %d", v)
	}
	if p.Seed, err = raw.Int32(); err != nil {
		return err
	}
	p.Demux = &wirekit.Demux{R: p.End}
	p.In = &wirekit.R{R: p.Demux}
	p.Out = w
	if sendFilterList {
		for _, r := range p.SendRules {
			w.Int32(int32(len(r)))
			w.Bytes([]byte(r))
		}
		w.Int32(0)
	}
	return w.Err
}

// Finish performs the end-of-session exchange after RefSender.Serve returned.
func (p *RecvPeer) Finish() error {
	if p.IsClient {
		// server-sender: statistics, then the client's goodbye
		p.Out.Int64(1)
		p.Out.Int64(2)
		p.Out.Int64(3)
		if p.Out.Err != nil {
			return p.Out.Err
		}
	}
	v, err := p.In.Int32()
	if err != nil {
		return fmt.Errorf("reading goodbye: %w", err)
	}
	if v != -1 {
		return fmt.Errorf("goodbye = %d", v)
	}
	return nil
}
