// Package drv starts the real gokrazy/rsync code (server side, client side) on
// harness-supplied transports.
package drv

import (
	"context"
	"fmt"
	"io"

	"github.com/gokrazy/rsync/rsyncd"
	"github.com/gokrazy/rsync/verifharness/wirekit"
	"github.com/gokrazy/rsync/verifharness/xport"
)

// Peer is the harness end of a connection to a real server goroutine.
type Peer struct {
	End    *xport.End
	Done   chan error // result of the server handler
	Stderr io.Writer
}

// NewServer builds a real rsyncd.Server without landlock restrictions.
func NewServer(mods []rsyncd.Module, stderr io.Writer) (*rsyncd.Server, error) {
	if stderr == nil {
		stderr = io.Discard
	}
	return rsyncd.NewServer(mods, rsyncd.WithStderr(stderr), rsyncd.DontRestrict())
}

// StartCommand runs the real server in command mode (HandleConnArgs) against a
// harness transport with the given capacities.
func StartCommand(srv *rsyncd.Server, mod *rsyncd.Module, args []string, capUp, capDown int, log *xport.Log) *Peer {
	a, b := xport.Conn(capUp, capDown, log)
	p := &Peer{End: a, Done: make(chan error, 1)}
	go func() {
		conn := rsyncd.NewConnection(b, b, "harness")
		err := srv.HandleConnArgs(context.Background(), conn, mod, args)
		b.Close()
		p.Done <- err
	}()
	return p
}

// StartDaemon runs the real daemon handshake + session (HandleDaemonConn); name
// is the remote address the ACL code sees.
func StartDaemon(srv *rsyncd.Server, name string, capUp, capDown int, log *xport.Log) *Peer {
	a, b := xport.Conn(capUp, capDown, log)
	p := &Peer{End: a, Done: make(chan error, 1)}
	go func() {
		conn := rsyncd.NewConnection(b, b, name)
		err := srv.HandleDaemonConn(context.Background(), conn)
		b.Close()
		p.Done <- err
	}()
	return p
}

// ClientSide is the reference client's view of a server connection.
type ClientSide struct {
	Peer  *Peer
	Up    *wirekit.W
	Down  *wirekit.R // demultiplexed after the seed
	Demux *wirekit.Demux
	Seed  int32
}

// CommandHandshake performs the command-mode version exchange and reads the seed.
func CommandHandshake(p *Peer) (*ClientSide, error) {
	cs := &ClientSide{Peer: p, Up: &wirekit.W{W: p.End}}
	raw := &wirekit.R{R: p.End}
	cs.Up.Int32(27)
	if cs.Up.Err != nil {
		return nil, cs.Up.Err
	}
	v, err := raw.Int32()
	if err != nil {
		return nil, fmt.Errorf("reading version: %w", err)
	}
	if v != 27 {
		return nil, fmt.Errorf("server version %d", v)
	}
	if cs.Seed, err = raw.Int32(); err != nil {
		return nil, fmt.Errorf("reading seed: %w", err)
	}
	cs.Demux = &wirekit.Demux{R: p.End}
	cs.Down = &wirekit.R{R: cs.Demux}
	return cs, nil
}
