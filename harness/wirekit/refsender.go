package wirekit

import (
	"fmt"
)

// Request is one file request as the generator of a real receiver sent it.
type Request struct {
	Idx  int32      `json:"idx"`
	Head SumHead    `json:"head"`
	Sums []BlockSum `json:"-"`
}

// Answer is what the reference sender replies to a request.
type Answer struct {
	Idx     int32 // normally the requested index
	Head    SumHead
	Toks    []Token
	Sum     [16]byte
	NoReply bool   // do not answer at all (like a vanished file)
	Raw     []byte // if non-nil: these bytes instead of the structured answer
	Stop    bool   // stop the session abruptly after this answer's bytes
}

// RefSender is an independent protocol-27 sender loop (rsync/sender.c
// send_files) playing against a real receiver.
type RefSender struct {
	In     *R // requests (already demultiplexed if the receiver is a server)
	Out    *W // answers (already multiplexing if the receiver is a client)
	Seed   int32
	DryRun bool
	Answer func(req *Request) (*Answer, error)
	// Before is called before every wire unit of an answer is written:
	// stage ∈ {"idx","head","tok","end","sum","phase"}; unit = token number.
	Before   func(stage string, idx int32, unit int)
	Requests []Request
	Phase    int
	// Batch: read all requests of a phase before answering any (legal: the
	// transport is asynchronous); the receiver's generator has then finished
	// its pass before the first file data arrives.
	Batch   bool
	pending []*Request
}

func (s *RefSender) before(stage string, idx int32, unit int) {
	if s.Before != nil {
		s.Before(stage, idx, unit)
	}
}

var ErrStopped = fmt.Errorf("reference sender stopped on purpose")

// Serve answers requests until the generator's second -1.
func (s *RefSender) Serve() error {
	for {
		idx, err := s.In.Int32()
		if err != nil {
			return fmt.Errorf("reading request index: %w", err)
		}
		if idx == -1 {
			for _, req := range s.pending {
				if err := s.answerOne(req); err != nil {
					return err
				}
			}
			s.pending = nil
			s.before("phase", -1, s.Phase)
			s.Phase++
			s.Out.Int32(-1)
			if s.Out.Err != nil {
				return s.Out.Err
			}
			if s.Phase == 2 {
				return nil
			}
			continue
		}
		req := Request{Idx: idx}
		if !s.DryRun {
			if req.Head, err = s.In.SumHead(); err != nil {
				return fmt.Errorf("reading sum head: %w", err)
			}
			if req.Head.Count < 0 || req.Head.Count > 1<<24 || req.Head.S2 < 0 || req.Head.S2 > 16 {
				return fmt.Errorf("implausible sum head %+v", req.Head)
			}
			req.Sums = make([]BlockSum, req.Head.Count)
			for i := range req.Sums {
				wk, err := s.In.Int32()
				if err != nil {
					return err
				}
				req.Sums[i].Weak = uint32(wk)
				b, err := s.In.Bytes(int(req.Head.S2))
				if err != nil {
					return err
				}
				copy(req.Sums[i].Strong[:], b)
			}
		}
		s.Requests = append(s.Requests, req)
		if s.DryRun {
			s.before("idx", idx, 0)
			s.Out.Int32(idx)
			continue
		}
		if s.Batch {
			r := req
			s.pending = append(s.pending, &r)
			continue
		}
		if err := s.answerOne(&req); err != nil {
			return err
		}
	}
}

func (s *RefSender) answerOne(req *Request) error {
	idx := req.Idx
	a, err := s.Answer(req)
	if err != nil {
		return err
	}
	if a.NoReply {
		return nil
	}
	if a.Raw != nil {
		s.before("raw", idx, 0)
		s.Out.Bytes(a.Raw)
	} else {
		s.before("idx", idx, 0)
		s.Out.Int32(a.Idx)
		s.before("head", idx, 0)
		s.Out.SumHead(a.Head)
		for k, t := range a.Toks {
			s.before("tok", idx, k)
			if t.IsRef() {
				s.Out.Int32(-(t.Ref + 1))
			} else {
				s.Out.Int32(int32(len(t.Lit)))
				s.Out.Bytes(t.Lit)
			}
		}
		s.before("end", idx, len(a.Toks))
		s.Out.Int32(0)
		s.before("sum", idx, 0)
		s.Out.Bytes(a.Sum[:])
		s.before("done", idx, 0)
	}
	if s.Out.Err != nil {
		return s.Out.Err
	}
	if a.Stop {
		return ErrStopped
	}
	return nil
}

// WholeFile answers a request with the complete data as literal tokens.
func WholeFile(seed int32, idx int32, data []byte, chunk int) *Answer {
	a := &Answer{Idx: idx, Head: SumHead{}}
	if chunk <= 0 {
		chunk = 32 * 1024
	}
	for off := 0; off < len(data); off += chunk {
		a.Toks = append(a.Toks, Token{Lit: data[off:min(off+chunk, len(data))]})
	}
	a.Sum = FileSum(seed, data)
	return a
}

// DeltaAnswer computes a correct (greedy, hash-table based) delta of data
// against the block sums of the request — the reference implementation of the
// sender's search, independent of gokrazy's.
func DeltaAnswer(seed int32, req *Request, data []byte, chunk int) *Answer {
	h := req.Head
	if h.Count == 0 || h.Blk <= 0 {
		return WholeFile(seed, req.Idx, data, chunk)
	}
	if chunk <= 0 {
		chunk = 32 * 1024
	}
	a := &Answer{Idx: req.Idx, Head: h}
	byWeak := map[uint32][]int32{}
	for i, s := range req.Sums {
		byWeak[s.Weak] = append(byWeak[s.Weak], int32(i))
	}
	flush := func(from, to int) {
		for off := from; off < to; off += chunk {
			a.Toks = append(a.Toks, Token{Lit: data[off:min(off+chunk, to)]})
		}
	}
	last := 0
	off := 0
	n := len(data)
	for off < n {
		l := min(int(h.Blk), n-off)
		matched := false
		// (simple, not rolling: the reference is for small/medium data)
		w := Weak(data[off : off+l])
		for _, i := range byWeak[w] {
			if int(h.BlockLen(i)) != l {
				continue
			}
			st := Strong(seed, data[off:off+l])
			if string(st[:h.S2]) != string(req.Sums[i].Strong[:h.S2]) {
				continue
			}
			flush(last, off)
			a.Toks = append(a.Toks, Token{Ref: i})
			off += l
			last = off
			matched = true
			break
		}
		if !matched {
			off++
		}
	}
	flush(last, n)
	a.Sum = FileSum(seed, data)
	return a
}
