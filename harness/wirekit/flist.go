package wirekit

import (
	"fmt"
	"sort"
)

// Protocol-27 transmit flags.
const (
	XTopDir   = 1 << 0
	XSameMode = 1 << 1
	XSameRdev = 1 << 2
	XSameUID  = 1 << 3
	XSameGID  = 1 << 4
	XSameName = 1 << 5
	XLongName = 1 << 6
	XSameTime = 1 << 7
)

const (
	SIFMT   = 0o170000
	SIFDIR  = 0o040000
	SIFCHR  = 0o020000
	SIFBLK  = 0o060000
	SIFREG  = 0o100000
	SIFIFO  = 0o010000
	SIFLNK  = 0o120000
	SIFSOCK = 0o140000
)

// ListOpts are the options that decide which optional fields are on the wire.
type ListOpts struct {
	UID, GID, Links, Devices, Specials, Checksum bool
}

type Entry struct {
	Name  string   `json:"name"`
	Size  int64    `json:"size"`
	Mtime int32    `json:"mtime"`
	Mode  int32    `json:"mode"`
	UID   int32    `json:"uid"`
	GID   int32    `json:"gid"`
	Rdev  int32    `json:"rdev"`
	Link  string   `json:"link"`
	Sum   [16]byte `json:"-"`
	Flags int      `json:"flags"` // as seen on the wire (decode) / extra flags to set (encode: only XTopDir is honoured)
}

func (e *Entry) Type() int32  { return e.Mode & SIFMT }
func (e *Entry) IsDir() bool  { return e.Type() == SIFDIR }
func (e *Entry) IsReg() bool  { return e.Type() == SIFREG }
func (e *Entry) IsLink() bool { return e.Type() == SIFLNK }
func (e *Entry) IsDev() bool  { return e.Type() == SIFCHR || e.Type() == SIFBLK }
func (e *Entry) IsSpec() bool { return e.Type() == SIFIFO || e.Type() == SIFSOCK }
func (e *Entry) HasRdev(o ListOpts) bool {
	return (o.Devices && e.IsDev()) || (o.Specials && e.IsSpec())
}

type IDName struct {
	ID   int32  `json:"id"`
	Name string `json:"name"`
}

type FileList struct {
	Entries []Entry
	Users   []IDName
	Groups  []IDName
	IOErr   int32
}

// Sorted returns the indices of the entries in bytewise name order (stable).
func (fl *FileList) SortedEntries() []Entry {
	out := append([]Entry(nil), fl.Entries...)
	sort.SliceStable(out, func(i, j int) bool { return out[i].Name < out[j].Name })
	return out
}

// Compression says which "same as previous" features an encoder may use.
type Compression struct {
	SameName  bool // XMIT_SAME_NAME prefix sharing
	ShortName bool // one-byte name length when it fits
	SameMode  bool
	SameTime  bool
	SameUID   bool
	SameGID   bool
	SameRdev  bool
}

var NoCompression = Compression{}
var FullCompression = Compression{true, true, true, true, true, true, true}

// EncodeList writes a protocol-27 file list (entries, terminator, id lists,
// io-error word).
func (w *W) EncodeList(fl *FileList, o ListOpts, c Compression) {
	var last Entry
	first := true
	for _, e := range fl.Entries {
		flags := e.Flags & XTopDir
		l1 := 0
		if c.SameName && !first {
			for l1 < len(e.Name) && l1 < len(last.Name) && l1 < 255 && e.Name[l1] == last.Name[l1] {
				l1++
			}
			if l1 > 0 {
				flags |= XSameName
			}
		}
		l2 := len(e.Name) - l1
		if !c.ShortName || l2 > 255 {
			flags |= XLongName
		}
		if c.SameMode && !first && e.Mode == last.Mode {
			flags |= XSameMode
		}
		if c.SameTime && !first && e.Mtime == last.Mtime {
			flags |= XSameTime
		}
		if c.SameUID && !first && o.UID && e.UID == last.UID {
			flags |= XSameUID
		}
		if c.SameGID && !first && o.GID && e.GID == last.GID {
			flags |= XSameGID
		}
		if c.SameRdev && !first && e.HasRdev(o) && last.HasRdev(o) && e.Rdev == last.Rdev {
			flags |= XSameRdev
		}
		if flags&0xff == 0 {
			// a zero flags byte would terminate the list (rsync flist.c)
			if !e.IsDir() {
				flags |= XTopDir
			} else {
				flags |= XLongName
			}
		}
		w.Byte(byte(flags))
		if flags&XSameName != 0 {
			w.Byte(byte(l1))
		}
		if flags&XLongName != 0 {
			w.Int32(int32(l2))
		} else {
			w.Byte(byte(l2))
		}
		w.Bytes([]byte(e.Name[l1:]))
		w.Int64(e.Size)
		if flags&XSameTime == 0 {
			w.Int32(e.Mtime)
		}
		if flags&XSameMode == 0 {
			w.Int32(e.Mode)
		}
		if o.UID && flags&XSameUID == 0 {
			w.Int32(e.UID)
		}
		if o.GID && flags&XSameGID == 0 {
			w.Int32(e.GID)
		}
		if e.HasRdev(o) && flags&XSameRdev == 0 {
			w.Int32(e.Rdev)
		}
		if o.Links && e.IsLink() {
			w.Int32(int32(len(e.Link)))
			w.Bytes([]byte(e.Link))
		}
		if o.Checksum {
			w.Bytes(e.Sum[:])
		}
		last = e
		first = false
	}
	w.Byte(0)
	if o.UID {
		for _, u := range fl.Users {
			w.Int32(u.ID)
			w.Byte(byte(len(u.Name)))
			w.Bytes([]byte(u.Name))
		}
		w.Int32(0)
	}
	if o.GID {
		for _, g := range fl.Groups {
			w.Int32(g.ID)
			w.Byte(byte(len(g.Name)))
			w.Bytes([]byte(g.Name))
		}
		w.Int32(0)
	}
	w.Int32(fl.IOErr)
}

// DecodeList reads a protocol-27 file list in wire order.
func (r *R) DecodeList(o ListOpts) (*FileList, error) {
	fl := &FileList{}
	var last Entry
	for {
		fb, err := r.Byte()
		if err != nil {
			return fl, err
		}
		if fb == 0 {
			break
		}
		flags := int(fb)
		e := Entry{Flags: flags}
		l1 := 0
		if flags&XSameName != 0 {
			b, err := r.Byte()
			if err != nil {
				return fl, err
			}
			l1 = int(b)
		}
		var l2 int
		if flags&XLongName != 0 {
			v, err := r.Int32()
			if err != nil {
				return fl, err
			}
			l2 = int(v)
		} else {
			b, err := r.Byte()
			if err != nil {
				return fl, err
			}
			l2 = int(b)
		}
		if l2 < 0 || l1+l2 >= 4096 || l1 > len(last.Name) {
			return fl, fmt.Errorf("bad name lengths l1=%d l2=%d", l1, l2)
		}
		nb, err := r.Bytes(l2)
		if err != nil {
			return fl, err
		}
		e.Name = last.Name[:l1] + string(nb)
		if e.Size, err = r.Int64(); err != nil {
			return fl, err
		}
		if flags&XSameTime != 0 {
			e.Mtime = last.Mtime
		} else if e.Mtime, err = r.Int32(); err != nil {
			return fl, err
		}
		if flags&XSameMode != 0 {
			e.Mode = last.Mode
		} else if e.Mode, err = r.Int32(); err != nil {
			return fl, err
		}
		if o.UID {
			if flags&XSameUID != 0 {
				e.UID = last.UID
			} else if e.UID, err = r.Int32(); err != nil {
				return fl, err
			}
		}
		if o.GID {
			if flags&XSameGID != 0 {
				e.GID = last.GID
			} else if e.GID, err = r.Int32(); err != nil {
				return fl, err
			}
		}
		if e.HasRdev(o) {
			if flags&XSameRdev != 0 {
				e.Rdev = last.Rdev
			} else if e.Rdev, err = r.Int32(); err != nil {
				return fl, err
			}
		}
		if o.Links && e.IsLink() {
			n, err := r.Int32()
			if err != nil {
				return fl, err
			}
			if n < 0 || n > 1<<20 {
				return fl, fmt.Errorf("bad link length %d", n)
			}
			lb, err := r.Bytes(int(n))
			if err != nil {
				return fl, err
			}
			e.Link = string(lb)
		}
		if o.Checksum {
			sb, err := r.Bytes(16)
			if err != nil {
				return fl, err
			}
			copy(e.Sum[:], sb)
		}
		fl.Entries = append(fl.Entries, e)
		last = e
		if r.OnEntry != nil {
			r.OnEntry(&e)
		}
	}
	readIDs := func() ([]IDName, error) {
		var out []IDName
		for {
			id, err := r.Int32()
			if err != nil {
				return out, err
			}
			if id == 0 {
				return out, nil
			}
			n, err := r.Byte()
			if err != nil {
				return out, err
			}
			nb, err := r.Bytes(int(n))
			if err != nil {
				return out, err
			}
			out = append(out, IDName{ID: id, Name: string(nb)})
		}
	}
	var err error
	if o.UID {
		if fl.Users, err = readIDs(); err != nil {
			return fl, err
		}
	}
	if o.GID {
		if fl.Groups, err = readIDs(); err != nil {
			return fl, err
		}
	}
	if fl.IOErr, err = r.Int32(); err != nil {
		return fl, err
	}
	return fl, nil
}
