// Package wirekit is an independent implementation of the parts of rsync
// protocol 27 the verification harness needs (written from Proto27.tla and the
// protocol description, not by calling gokrazy/rsync's encoders).
package wirekit

import (
	"bufio"
	"encoding/binary"
	"errors"
	"fmt"
	"io"

	"golang.org/x/crypto/md4"
)

// ---------------------------------------------------------------- integers

type W struct {
	W   io.Writer
	Err error
}

func (w *W) Bytes(b []byte) {
	if w.Err != nil {
		return
	}
	_, w.Err = w.W.Write(b)
}
func (w *W) Byte(b byte) { w.Bytes([]byte{b}) }
func (w *W) Int32(v int32) {
	var b [4]byte
	binary.LittleEndian.PutUint32(b[:], uint32(v))
	w.Bytes(b[:])
}
func (w *W) Int64(v int64) {
	if v >= 0 && v <= 0x7fffffff {
		w.Int32(int32(v))
		return
	}
	w.Int32(-1)
	var b [8]byte
	binary.LittleEndian.PutUint64(b[:], uint64(v))
	w.Bytes(b[:])
}

type R struct {
	R io.Reader
	// OnEntry, if set, is called by DecodeList after each decoded file-list entry
	// (the caller can note the stream position: entries become trace events).
	OnEntry func(e *Entry)
}

func (r *R) Bytes(n int) ([]byte, error) {
	b := make([]byte, n)
	_, err := io.ReadFull(r.R, b)
	return b, err
}
func (r *R) Byte() (byte, error) {
	b, err := r.Bytes(1)
	if err != nil {
		return 0, err
	}
	return b[0], nil
}
func (r *R) Int32() (int32, error) {
	b, err := r.Bytes(4)
	if err != nil {
		return 0, err
	}
	return int32(binary.LittleEndian.Uint32(b)), nil
}
func (r *R) Int64() (int64, error) {
	v, err := r.Int32()
	if err != nil {
		return 0, err
	}
	if v != -1 {
		return int64(v), nil
	}
	b, err := r.Bytes(8)
	if err != nil {
		return 0, err
	}
	return int64(binary.LittleEndian.Uint64(b)), nil
}

// ---------------------------------------------------------------- multiplex

const (
	TagData  = 0
	TagError = 1
	TagInfo  = 2
	MaxFrame = 262144 // what the gokrazy reader accepts
)

type Frame struct {
	Tag     int    `json:"tag"`
	Len     int    `json:"len"`
	Payload []byte `json:"-"`
}

// Demux reads multiplexed frames and presents the data payloads as a stream.
// Frames (headers) are recorded when Record is set.
type Demux struct {
	R      io.Reader
	Record bool
	Frames []Frame
	Infos  []string
	ErrMsg string // first error frame
	buf    []byte
	BadTag bool
}

var ErrPeerError = errors.New("peer sent error frame")

func (d *Demux) Read(p []byte) (int, error) {
	for len(d.buf) == 0 {
		var h [4]byte
		if _, err := io.ReadFull(d.R, h[:]); err != nil {
			return 0, err
		}
		hv := binary.LittleEndian.Uint32(h[:])
		tag := int(hv>>24) - 7
		n := int(hv & 0xffffff)
		payload := make([]byte, n)
		if _, err := io.ReadFull(d.R, payload); err != nil {
			return 0, err
		}
		if d.Record {
			d.Frames = append(d.Frames, Frame{Tag: tag, Len: n})
		}
		switch tag {
		case TagData:
			d.buf = payload
		case TagInfo:
			d.Infos = append(d.Infos, string(payload))
		case TagError:
			if d.ErrMsg == "" {
				d.ErrMsg = string(payload)
			}
			return 0, fmt.Errorf("%w: %s", ErrPeerError, payload)
		default:
			d.BadTag = true
			return 0, fmt.Errorf("bad mplex tag %d", tag)
		}
	}
	n := copy(p, d.buf)
	d.buf = d.buf[n:]
	return n, nil
}

// WriteFrame writes one multiplexed frame.
func WriteFrame(w io.Writer, tag int, payload []byte) error {
	var h [4]byte
	binary.LittleEndian.PutUint32(h[:], uint32(7+tag)<<24|uint32(len(payload)))
	if _, err := w.Write(h[:]); err != nil {
		return err
	}
	_, err := w.Write(payload)
	return err
}

// MuxWriter frames everything written to it as data frames (one per Write).
type MuxWriter struct{ W io.Writer }

func (m *MuxWriter) Write(p []byte) (int, error) {
	for off := 0; off < len(p) || off == 0; {
		n := len(p) - off
		if n > MaxFrame {
			n = MaxFrame
		}
		if err := WriteFrame(m.W, TagData, p[off:off+n]); err != nil {
			return off, err
		}
		off += n
		if n == 0 {
			break
		}
	}
	return len(p), nil
}

// ---------------------------------------------------------------- checksums

// Weak is the rsync rolling checksum written from its definition:
// s1 = sum of bytes (as signed chars), s2 = sum of running s1 values.
func Weak(b []byte) uint32 {
	var s1, s2 uint32
	for _, c := range b {
		s1 += uint32(int32(int8(c)))
		s2 += s1
	}
	return (s1 & 0xffff) | (s2 << 16)
}

// Strong = MD4(block || seed LE).
func Strong(seed int32, b []byte) [16]byte {
	h := md4.New()
	h.Write(b)
	var s [4]byte
	binary.LittleEndian.PutUint32(s[:], uint32(seed))
	h.Write(s[:])
	var out [16]byte
	copy(out[:], h.Sum(nil))
	return out
}

// FileSum = MD4(seed LE || data).
func FileSum(seed int32, data []byte) [16]byte {
	h := md4.New()
	var s [4]byte
	binary.LittleEndian.PutUint32(s[:], uint32(seed))
	h.Write(s[:])
	h.Write(data)
	var out [16]byte
	copy(out[:], h.Sum(nil))
	return out
}

// PlainMD4 = MD4(data), the -c file-list checksum.
func PlainMD4(data []byte) [16]byte {
	h := md4.New()
	h.Write(data)
	var out [16]byte
	copy(out[:], h.Sum(nil))
	return out
}

type SumHead struct {
	Count, Blk, S2, Rem int32
}

type BlockSum struct {
	Weak   uint32
	Strong [16]byte
}

// BlockLen returns the length of block i.
func (h SumHead) BlockLen(i int32) int32 {
	if i == h.Count-1 && h.Rem != 0 {
		return h.Rem
	}
	return h.Blk
}

// Sums computes the block checksums of basis for block length blk.
func Sums(seed int32, basis []byte, blk int32, s2 int32) (SumHead, []BlockSum) {
	n := int32(len(basis))
	h := SumHead{Blk: blk, S2: s2}
	if blk <= 0 {
		return h, nil
	}
	h.Count = (n + blk - 1) / blk
	h.Rem = n % blk
	sums := make([]BlockSum, h.Count)
	for i := int32(0); i < h.Count; i++ {
		off := i * blk
		l := h.BlockLen(i)
		b := basis[off : off+l]
		sums[i] = BlockSum{Weak: Weak(b), Strong: Strong(seed, b)}
	}
	return h, sums
}

func (w *W) SumHead(h SumHead) {
	w.Int32(h.Count)
	w.Int32(h.Blk)
	w.Int32(h.S2)
	w.Int32(h.Rem)
}

func (r *R) SumHead() (SumHead, error) {
	var h SumHead
	var err error
	if h.Count, err = r.Int32(); err != nil {
		return h, err
	}
	if h.Blk, err = r.Int32(); err != nil {
		return h, err
	}
	if h.S2, err = r.Int32(); err != nil {
		return h, err
	}
	if h.Rem, err = r.Int32(); err != nil {
		return h, err
	}
	return h, nil
}

// ---------------------------------------------------------------- tokens

type Token struct {
	Lit []byte // literal data (nil for a reference)
	Ref int32  // block index for a reference
}

func (t Token) IsRef() bool { return t.Lit == nil }

// ReadTokens reads a token stream up to and including the terminating 0.
func (r *R) ReadTokens() ([]Token, error) {
	var toks []Token
	for {
		v, err := r.Int32()
		if err != nil {
			return toks, err
		}
		if v == 0 {
			return toks, nil
		}
		if v > 0 {
			if v > 1<<26 {
				return toks, fmt.Errorf("literal too long: %d", v)
			}
			b, err := r.Bytes(int(v))
			if err != nil {
				return toks, err
			}
			if b == nil {
				b = []byte{}
			}
			toks = append(toks, Token{Lit: b})
		} else {
			toks = append(toks, Token{Ref: -(v + 1)})
		}
	}
}

func (w *W) Tokens(toks []Token) {
	for _, t := range toks {
		if t.IsRef() {
			w.Int32(-(t.Ref + 1))
		} else {
			w.Int32(int32(len(t.Lit)))
			w.Bytes(t.Lit)
		}
	}
	w.Int32(0)
}

// NewBufReader wraps r for the harness side (buffering is harmless there).
func NewBufReader(r io.Reader) *bufio.Reader { return bufio.NewReaderSize(r, 1<<16) }
