package main

import (
	"context"
	"encoding/json"
	"fmt"
	"net"
	"os"
	"path/filepath"
	"runtime"
	"strings"
	"sync"
	"time"

	"github.com/gokrazy/rsync/rsyncd"
	"github.com/gokrazy/rsync/verifharness/fstree"
	"github.com/gokrazy/rsync/verifharness/wirekit"
)

// concScn: N simultaneous sessions against ONE daemon (C18, second half).
type concScn struct {
	ID    int    `json:"id"`
	N     int    `json:"n"`
	Kind  string `json:"kind"`  // pull | push | mixed
	Same  bool   `json:"same"`  // identical targets (all sessions write to the same destination)
	Prior bool   `json:"prior"` // every destination already holds an earlier version (one local change) of the larger files
	Procs int    `json:"procs"` // GOMAXPROCS
	Seed  int64  `json:"seed"`
	Wire  bool   `json:"wire"` // distinct targets: record every session's complete transcript through its own tap proxy (RsyncTrace.tla)
}

type concObs struct {
	ID      int      `json:"id"`
	N       int      `json:"n"`
	Kind    string   `json:"kind"`
	Same    bool     `json:"same"`
	Prior   bool     `json:"prior"`
	Procs   int      `json:"procs"`
	SoloOK  bool     `json:"solook"`
	Results []string `json:"results"` // per session: ok | err: ... | hung
	Equal   []bool   `json:"equal"`   // per session: destination equals the solo result
	Elapsed float64  `json:"elapsed"`
	Diff    string   `json:"diff"`
	// Wire: the source tree as built and, per session, its transcript and the destination it produced
	Src      []fstree.Node `json:"src,omitempty"`
	Sessions []concSess    `json:"sessions,omitempty"`
}

type concSess struct {
	I      int           `json:"i"`
	Result string        `json:"result"`
	Full   *fullObs      `json:"fullwire"`
	Final  []fstree.Node `json:"final"`
}

func firstDiff(a, b string) string {
	la, lb := strings.Split(a, "\n"), strings.Split(b, "\n")
	for i := 0; i < len(la) || i < len(lb); i++ {
		var x, y string
		if i < len(la) {
			x = la[i]
		}
		if i < len(lb) {
			y = lb[i]
		}
		if x != y {
			return fmt.Sprintf("solo: %q / concurrent: %q", x, y)
		}
	}
	return ""
}

func init() { handlers["conc"] = concHandler }

func concHandler(w *workerCtx, line []byte) (any, error) {
	var s concScn
	if err := json.Unmarshal(line, &s); err != nil {
		return nil, err
	}
	if s.Procs > 0 {
		defer runtime.GOMAXPROCS(runtime.GOMAXPROCS(s.Procs))
	}
	obs := &concObs{ID: s.ID, N: s.N, Kind: s.Kind, Same: s.Same, Prior: s.Prior, Procs: s.Procs, Results: []string{}, Equal: []bool{}}
	base := filepath.Join(w.dir, fmt.Sprintf("conc%d", s.ID))
	defer func() { fstree.MakeWritable(base); os.RemoveAll(base) }()
	src := filepath.Join(base, "src")
	os.MkdirAll(filepath.Join(src, "d", "e"), 0o755)
	sizes := []int64{0, 1, 700, 5000, 70000, 300000, 13, 999}
	for i := 0; i < 24; i++ {
		p := filepath.Join(src, fmt.Sprintf("f%02d", i))
		if i%3 == 1 {
			p = filepath.Join(src, "d", fmt.Sprintf("g%02d", i))
		} else if i%3 == 2 {
			p = filepath.Join(src, "d", "e", fmt.Sprintf("h%02d", i))
		}
		os.WriteFile(p, fstree.Content(100+i, sizes[i%len(sizes)]), 0o644)
		t := time.Unix(1_600_000_000+int64(i), 0)
		os.Chtimes(p, t, t)
	}
	os.Symlink("f00", filepath.Join(src, "lnk"))
	if s.Same {
		// identical targets: many directories that every session finds missing and creates (check-then-create races)
		for i := 0; i < 60; i++ {
			os.MkdirAll(filepath.Join(src, "z", fmt.Sprintf("%02d", i), "q"), 0o755)
		}
	}
	mods := []rsyncd.Module{{Name: "src", Path: src}}
	nDst := s.N + 1
	for i := 0; i < nDst; i++ {
		d := filepath.Join(base, fmt.Sprintf("up%d", i))
		os.MkdirAll(d, 0o755)
		mods = append(mods, rsyncd.Module{Name: fmt.Sprintf("up%d", i), Path: d, Writable: true})
	}
	// prior fills a destination with earlier versions of the files of 5000 bytes and more
	prior := func(d string) {
		if !s.Prior || s.Same { // (distinct targets only)
			return
		}
		os.MkdirAll(filepath.Join(d, "d", "e"), 0o755)
		for i := 0; i < 24; i++ {
			sz := sizes[i%len(sizes)]
			if sz < 5000 {
				continue
			}
			p := filepath.Join(d, fmt.Sprintf("f%02d", i))
			if i%3 == 1 {
				p = filepath.Join(d, "d", fmt.Sprintf("g%02d", i))
			} else if i%3 == 2 {
				p = filepath.Join(d, "d", "e", fmt.Sprintf("h%02d", i))
			}
			os.WriteFile(p, fstree.Edit(fstree.Content(100+i, sz), fmt.Sprintf("rep:%d:%d", 1000+97*i, 40)), 0o644)
			t := time.Unix(1_500_000_000, 0)
			os.Chtimes(p, t, t)
		}
	}
	for i := 0; i < nDst; i++ {
		prior(filepath.Join(base, fmt.Sprintf("up%d", i)))
	}
	srv, err := rsyncd.NewServer(mods, rsyncd.WithStderr(discard{}), rsyncd.DontRestrict())
	if err != nil {
		return nil, err
	}
	ln, err := net.Listen("tcp", "127.0.0.1:0")
	if err != nil {
		return nil, err
	}
	_, port, _ := net.SplitHostPort(ln.Addr().String())
	ctx, cancel := context.WithCancel(context.Background())
	defer cancel()
	go srv.Serve(ctx, ln)
	url := "rsync://127.0.0.1:" + port + "/"
	// the result a session produces when it runs alone
	soloPull := filepath.Join(base, "solo-pull")
	os.MkdirAll(soloPull, 0o755)
	prior(soloPull)
	logb := &capBuf{}
	e1 := runCmd(logb, []string{"-rlt", url + "src/", soloPull + "/"})
	e2 := runCmd(logb, []string{"-rlt", src + "/", url + fmt.Sprintf("up%d/", s.N)})
	obs.SoloOK = e1 == nil && e2 == nil
	wantPull := treeDigest(soloPull)
	wantPush := treeDigest(filepath.Join(base, fmt.Sprintf("up%d", s.N)))
	wire := s.Wire && !s.Same
	known := fstree.Known{}
	for i := 0; i < 24; i++ {
		known.Add(100+i, sizes[i%len(sizes)])
	}
	recs := make([]*wireRec, s.N)
	waits := make([]func(), s.N)
	t0 := time.Now()
	results := make([]string, s.N)
	dests := make([]string, s.N)
	pushes := make([]bool, s.N)
	var wg sync.WaitGroup
	for i := 0; i < s.N; i++ {
		push := s.Kind == "push" || (s.Kind == "mixed" && i%2 == 1)
		pushes[i] = push
		k := i
		if s.Same {
			k = 0
			if push {
				k = 1
			}
		}
		var args []string
		if push {
			dests[i] = filepath.Join(base, fmt.Sprintf("up%d", k))
			args = []string{"-rlt", src + "/", url + fmt.Sprintf("up%d/", k)}
		} else {
			dests[i] = filepath.Join(base, fmt.Sprintf("pull%d", k))
			os.MkdirAll(dests[i], 0o755)
			prior(dests[i])
			args = []string{"-rlt", url + "src/", dests[i] + "/"}
		}
		if wire {
			// this session's own tap proxy in front of the daemon
			recs[i] = newWireRec()
			pp, pstop, pwait, perr := tapProxy(port, recs[i])
			if perr != nil {
				return nil, perr
			}
			defer pstop()
			waits[i] = pwait
			for k := range args {
				args[k] = strings.Replace(args[k], "127.0.0.1:"+port, "127.0.0.1:"+pp, 1)
			}
		}
		wg.Add(1)
		go func(i int, args []string) {
			defer wg.Done()
			if err := runCmd(&capBuf{}, args); err != nil {
				results[i] = "err: " + err.Error()
				if len(results[i]) > 300 {
					results[i] = results[i][:300]
				}
			} else {
				results[i] = "ok"
			}
		}(i, args)
	}
	wg.Wait()
	obs.Elapsed = time.Since(t0).Seconds()
	for i := 0; i < s.N; i++ {
		obs.Results = append(obs.Results, results[i])
		want := wantPull
		if pushes[i] {
			want = wantPush
		}
		got := treeDigest(dests[i])
		obs.Equal = append(obs.Equal, got == want)
		if got != want && obs.Diff == "" {
			obs.Diff = firstDiff(want, got)
		}
	}
	if wire {
		var err error
		if obs.Src, err = fstree.Snapshot(src, known); err != nil {
			return nil, err
		}
		for i := 0; i < s.N; i++ {
			cs := concSess{I: i, Result: results[i]}
			if results[i] == "ok" {
				waits[i]()
				cs.Full = recs[i].analyseFull(pushes[i], fullOpts{Daemon: true, List: wirekit.ListOpts{Links: true}})
			}
			if cs.Final, err = fstree.Snapshot(dests[i], known); err != nil {
				return nil, err
			}
			obs.Sessions = append(obs.Sessions, cs)
		}
	}
	return obs, nil
}
