package main

import (
	"bytes"
	"encoding/json"
	"fmt"
	"io"
	"math/rand"
	"os"
	"path/filepath"
	"strings"
	"syscall"
	"time"

	"github.com/gokrazy/rsync/rsyncd"
	"github.com/gokrazy/rsync/verifharness/drv"
	"github.com/gokrazy/rsync/verifharness/fstree"
	"github.com/gokrazy/rsync/verifharness/wirekit"
	"github.com/gokrazy/rsync/verifharness/xport"
)

// atomicScn: a multi-file session to a real receiver, delivered one wire unit
// at a time (C04).
type atomicScn struct {
	ID          int      `json:"id"`
	Kinds       []string `json:"kinds"` // per file: new | replace
	NToks       []int    `json:"ntoks"` // per file: number of tokens
	Recv        string   `json:"recv"`
	Mode        string   `json:"mode"`  // freeze | cut | cutup | kill | flip
	N           int      `json:"n"`     // cut: byte offset; kill: unit number; flip: byte offset counted from the end of the file list
	Batch       bool     `json:"batch"` // reference sender reads all requests before answering
	Delay       int      `json:"delay"` // kill: microseconds to wait after the last unit before SIGKILL
	SnapOnDeath bool     `json:"snap_on_death"`
	Long        bool     `json:"long"` // the second file has a 250-byte name (temp-file name creation is strained)
	// Delete: the receiver runs with --delete; the destination also holds extraneous entries and a directory "f0"
	// with an up-to-date listed child, and the first file is named "f0.x" - a listed sibling that sorts BETWEEN the
	// directory and its child in the file list but AFTER the child in a directory walk
	Delete bool `json:"delete"`
	// LnkDir: the replaced symlink "l" points to a DIRECTORY inside the destination ("t-old", also in the list)
	LnkDir bool `json:"lnkdir"`
	// Special: the replaced files carry set-user-ID / set-group-ID / sticky bits (an installed program being updated)
	Special bool `json:"special"`
}

type atomicEvent struct {
	D     int      `json:"d"`
	Snap  []string `json:"snap"`
	Lnk   string   `json:"lnk"`
	Stage string   `json:"stage"`
}

type atomicFinal struct {
	Mode   string   `json:"mode"` // done | error | killed
	Result string   `json:"result"`
	Err    string   `json:"err"`
	D      int      `json:"d"`
	DMin   int      `json:"dmin"`
	Snap   []string `json:"snap"`
	Lnk    string   `json:"lnk"`
	Temps  int      `json:"temps"`
	Extra  []string `json:"extra"`
}

type atomicObs struct {
	ID        int           `json:"id"`
	Recv      string        `json:"recv"`
	Mode      string        `json:"mode"`
	Kinds     []string      `json:"kinds"`
	NToks     []int         `json:"ntoks"`
	Events    []atomicEvent `json:"events"`
	Final     atomicFinal   `json:"final"`
	Bytes     int64         `json:"bytes"` // bytes the reference sender wrote after the handshake
	UpBytes   int64         `json:"upbytes"`
	ListBytes int64         `json:"listbytes"` // ... of which the file list
	Weak      bool          `json:"weak"`      // judge atomicity only (the session may legitimately fail at the long name)
	// Unlinked: listed paths that had previous content and were seen DELETED or MOVED AWAY by inotify during the
	// session (an atomic replacement is a rename OVER the path: the watcher sees moved_to for it, never delete)
	Unlinked []string        `json:"unlinked"`
	Scn      json.RawMessage `json:"scn"`
}

func init() { handlers["atomic"] = atomicHandler }

type atomicFile struct {
	name     string
	old, new []byte
}

func atomicFiles(s *atomicScn) []atomicFile {
	var out []atomicFile
	for i, k := range s.Kinds {
		r := rand.New(rand.NewSource(int64(1000 + i)))
		blockA := make([]byte, 700)
		r.Read(blockA)
		tail := make([]byte, 50)
		r.Read(tail)
		f := atomicFile{name: fmt.Sprintf("f%d", i+1)}
		if s.Delete && i == 0 {
			f.name = "f0.x"
		}
		if s.Long && i == 1 {
			f.name += strings.Repeat("y", 248)
		}
		nt := s.NToks[i]
		fresh := make([]byte, 30*nt)
		r.Read(fresh)
		if k == "replace" {
			f.old = append(append([]byte{}, blockA...), tail...)
			if nt >= 2 {
				f.new = append(append([]byte{}, blockA...), fresh[:30*(nt-1)]...) // ref 0 + (nt-1) literals
			} else {
				f.new = fresh
			}
		} else {
			f.new = fresh
		}
		out = append(out, f)
	}
	return out
}

// atomicSnapshot classifies every listed path.
func atomicSnapshot(dest string, files []atomicFile) (snap []string, lnk string, extra []string) {
	for _, f := range files {
		b, err := os.ReadFile(filepath.Join(dest, f.name))
		switch {
		case err != nil:
			snap = append(snap, "absent")
		case bytes.Equal(b, f.new):
			snap = append(snap, "new")
		case f.old != nil && bytes.Equal(b, f.old):
			snap = append(snap, "old")
		default:
			snap = append(snap, "other")
		}
	}
	t, err := os.Readlink(filepath.Join(dest, "l"))
	switch {
	case err != nil:
		lnk = "absent"
	case t == "t-old":
		lnk = "old"
	case t == "t-new":
		lnk = "new"
	default:
		lnk = "other"
	}
	listed := map[string]bool{"l": true, "f0": true, "zz-extra": true, "t-old": true}
	if len(files) > 0 {
		listed["."+files[len(files)-1].name+".bak"] = true // the up-to-date bystander (see atomicHandler)
	} // (f0, zz-extra: only in --delete scenarios, t-old: lnkdir; not temp files)
	for _, f := range files {
		listed[f.name] = true
	}
	ents, _ := os.ReadDir(dest)
	extra = []string{}
	for _, e := range ents {
		if !listed[e.Name()] {
			extra = append(extra, e.Name())
		}
	}
	return
}

type cutWriter struct {
	w       io.Writer
	limit   int64 // <0: no limit
	flipAt  int64 // <0: none; otherwise one bit of the byte at this offset is inverted in transit
	n       int64
	tripped bool
	onTrip  func()
}

func (c *cutWriter) Write(p []byte) (int, error) {
	if c.tripped {
		return 0, io.ErrClosedPipe
	}
	if c.limit >= 0 && c.n+int64(len(p)) > c.limit {
		k := int(c.limit - c.n)
		if k > 0 {
			c.w.Write(p[:k])
			c.n += int64(k)
		}
		c.tripped = true
		if c.onTrip != nil {
			c.onTrip()
		}
		return k, io.ErrClosedPipe
	}
	if c.flipAt >= c.n && c.flipAt < c.n+int64(len(p)) {
		q := append([]byte(nil), p...)
		q[c.flipAt-c.n] ^= 0x10
		p = q
	}
	n, err := c.w.Write(p)
	c.n += int64(n)
	return n, err
}

type cutReader struct {
	r      io.Reader
	limit  int64
	n      int64
	onTrip func()
}

func (c *cutReader) Read(p []byte) (int, error) {
	if c.limit >= 0 && c.n >= c.limit {
		if c.onTrip != nil {
			c.onTrip()
			c.onTrip = nil
		}
		return 0, io.ErrClosedPipe
	}
	if c.limit >= 0 && c.n+int64(len(p)) > c.limit {
		p = p[:c.limit-c.n]
	}
	n, err := c.r.Read(p)
	c.n += int64(n)
	return n, err
}

func waitDrained(p *xport.Pipe, d time.Duration) bool {
	deadline := time.Now().Add(d)
	for {
		readers, _, buffered, _ := p.State()
		if readers >= 1 && buffered == 0 {
			return true
		}
		if time.Now().After(deadline) {
			return false
		}
		time.Sleep(50 * time.Microsecond)
	}
}

func atomicHandler(w *workerCtx, line []byte) (any, error) {
	var s atomicScn
	if err := json.Unmarshal(line, &s); err != nil {
		return nil, err
	}
	obs := &atomicObs{ID: s.ID, Recv: s.Recv, Mode: s.Mode, Kinds: s.Kinds, NToks: s.NToks, Events: []atomicEvent{}, Weak: s.Long, Scn: json.RawMessage(line)}
	files := atomicFiles(&s)
	dest := filepath.Join(w.dir, "dst")
	if err := fstree.Reset(dest); err != nil {
		return nil, err
	}
	old := time.Unix(1_000_000, 0)
	for i, f := range files {
		if f.old != nil {
			os.WriteFile(filepath.Join(dest, f.name), f.old, 0o644)
			if s.Special {
				os.Chmod(filepath.Join(dest, f.name), []os.FileMode{0o755 | os.ModeSetuid, 0o755 | os.ModeSetgid, 0o644 | os.ModeSticky}[i%3])
			}
			os.Chtimes(filepath.Join(dest, f.name), old, old)
		}
	}
	os.Symlink("t-old", filepath.Join(dest, "l"))
	if s.LnkDir {
		os.MkdirAll(filepath.Join(dest, "t-old"), 0o755)
	}
	lo := wirekit.ListOpts{Links: true}
	fl := &wirekit.FileList{Entries: []wirekit.Entry{{Name: ".", Size: 4096, Mtime: 2_000_000, Mode: wirekit.SIFDIR | 0o755, Flags: wirekit.XTopDir}}}
	for _, f := range files {
		fl.Entries = append(fl.Entries, wirekit.Entry{Name: f.name, Size: int64(len(f.new)), Mtime: 2_000_000, Mode: wirekit.SIFREG | 0o644})
	}
	if s.LnkDir {
		fl.Entries = append(fl.Entries, wirekit.Entry{Name: "t-old", Size: 4096, Mtime: 2_000_000, Mode: wirekit.SIFDIR | 0o755})
	}
	// a listed, UP-TO-DATE bystander whose name looks like the temporary name of another listed file ("." + name + suffix):
	// nothing may ever touch it
	bystander := "." + files[len(files)-1].name + ".bak"
	if len(bystander) < 200 {
		keep := []byte("bystander, up to date")
		os.WriteFile(filepath.Join(dest, bystander), keep, 0o644)
		now := time.Unix(2_000_000, 0)
		os.Chtimes(filepath.Join(dest, bystander), now, now)
		fl.Entries = append(fl.Entries, wirekit.Entry{Name: bystander, Size: int64(len(keep)), Mtime: 2_000_000, Mode: wirekit.SIFREG | 0o644})
	}
	// watch the destination directory: which listed names are ever unlinked or moved away
	watch, werr := startWatch([]string{dest}, nil)
	if werr != nil {
		return nil, werr
	}
	defer watch.close()
	hadPrev := map[string]bool{"l": true, bystander: true}
	for _, f := range files {
		if f.old != nil {
			hadPrev[f.name] = true
		}
	}
	obs.Unlinked = []string{}
	collectUnlinked := func() {
		watch.drain(func(dir, name string) bool { return false })
		seen := map[string]bool{}
		for _, e := range watch.events {
			parts := strings.SplitN(e, " ", 2)
			if len(parts) != 2 {
				continue
			}
			name := strings.TrimPrefix(parts[1], filepath.Base(dest)+"/")
			if hadPrev[name] && (strings.Contains(parts[0], "delete") || strings.Contains(parts[0], "moved_from")) && !seen[name] {
				seen[name] = true
				obs.Unlinked = append(obs.Unlinked, name)
			}
		}
	}
	defer collectUnlinked()
	rflags := "-rlt"
	if s.Delete {
		same := []byte("up to date")
		os.MkdirAll(filepath.Join(dest, "f0"), 0o755)
		os.WriteFile(filepath.Join(dest, "f0", "c"), same, 0o644)
		os.WriteFile(filepath.Join(dest, "f0", "zz"), []byte("extraneous"), 0o644)
		os.WriteFile(filepath.Join(dest, "zz-extra"), []byte("extraneous"), 0o644)
		now := time.Unix(2_000_000, 0)
		os.Chtimes(filepath.Join(dest, "f0", "c"), now, now)
		fl.Entries = append(fl.Entries,
			wirekit.Entry{Name: "f0", Size: 4096, Mtime: 2_000_000, Mode: wirekit.SIFDIR | 0o755},
			wirekit.Entry{Name: "f0/c", Size: int64(len(same)), Mtime: 2_000_000, Mode: wirekit.SIFREG | 0o644})
	}
	fl.Entries = append(fl.Entries, wirekit.Entry{Name: "l", Size: 5, Mtime: 2_000_000, Mode: wirekit.SIFLNK | 0o777, Link: "t-new"})

	var p *drv.RecvPeer
	var err error
	if s.Recv == "daemon" {
		srv, err := drv.NewServer(nil, nil)
		if err != nil {
			return nil, err
		}
		mod := &rsyncd.Module{Name: "m", Path: dest, Writable: true}
		sargs := []string{"--server", rflags}
		if s.Delete {
			sargs = append(sargs, "--delete")
		}
		p = drv.StartServerReceiver(srv, mod, append(sargs, ".", "/"), -1, -1, nil)
		if err = p.ClientHandshake(s.Delete); err != nil {
			return nil, fmt.Errorf("handshake: %w", err)
		}
	} else {
		cargs := []string{rflags}
		if s.Delete {
			cargs = append(cargs, "--delete")
		}
		p, err = drv.StartClientReceiver(cargs, dest, nil, -1, -1, nil)
		if err != nil {
			return nil, err
		}
		if err = p.ServerHandshake(int32(777 + s.ID)); err != nil {
			return nil, fmt.Errorf("handshake: %w", err)
		}
	}
	defer p.End.Close()
	// instrument our output (after the handshake): count / cut
	cw := &cutWriter{limit: -1, flipAt: -1}
	if s.Mode == "cut" {
		cw.limit = int64(s.N)
		cw.onTrip = func() { p.End.Out.CloseWrite() }
	}
	cw.w = p.End
	if p.IsClient {
		p.Out = &wirekit.W{W: &wirekit.MuxWriter{W: cw}} // the cut may fall inside a frame header
	} else {
		p.Out = &wirekit.W{W: cw}
	}
	cr := &cutReader{limit: -1}
	if s.Mode == "cutup" {
		cr.limit = int64(s.N)
		cr.onTrip = func() { p.End.In.CloseRead() }
	}
	cr.r = p.In.R
	p.In = &wirekit.R{R: cr}

	p.Out.EncodeList(fl, lo, wirekit.NoCompression)
	obs.ListBytes = cw.n
	if s.Mode == "flip" {
		cw.flipAt = cw.n + int64(s.N)
	}
	var sortedNames []string
	for _, e := range fl.SortedEntries() {
		sortedNames = append(sortedNames, e.Name)
	}
	unitsDone := 0
	started := false
	rs := &wirekit.RefSender{In: p.In, Out: p.Out, Seed: p.Seed, Batch: s.Batch}
	rs.Answer = func(req *wirekit.Request) (*wirekit.Answer, error) {
		// the receiver numbers the entries in bytewise name order
		k := -1
		if req.Idx >= 0 && int(req.Idx) < len(sortedNames) {
			for i, f := range files {
				if f.name == sortedNames[req.Idx] {
					k = i
				}
			}
		}
		if k < 0 && req.Idx >= 0 && int(req.Idx) < len(sortedNames) && sortedNames[req.Idx] == bystander {
			// the receiver asks for the up-to-date bystander: it must have lost it (the inotify watch tells);
			// serve it, so that the session itself goes on as the scenario describes
			return wirekit.WholeFile(p.Seed, req.Idx, []byte("bystander, up to date"), 0), nil
		}
		if k < 0 {
			return nil, fmt.Errorf("unexpected request for index %d", req.Idx)
		}
		f := files[k]
		nt := s.NToks[k]
		a := &wirekit.Answer{Idx: req.Idx, Head: req.Head}
		lit := f.new
		if f.old != nil && nt >= 2 && req.Head.Count > 0 {
			a.Toks = append(a.Toks, wirekit.Token{Ref: 0})
			lit = f.new[700:]
			nt--
		}
		step := (len(lit) + nt - 1) / nt
		for off := 0; off < len(lit); off += step {
			a.Toks = append(a.Toks, wirekit.Token{Lit: lit[off:min(off+step, len(lit))]})
		}
		a.Sum = wirekit.FileSum(p.Seed, f.new)
		return a, nil
	}
	killed := false
	rs.Before = func(stage string, idx int32, unit int) {
		if stage == "phase" || killed {
			return
		}
		if started && !cw.tripped {
			unitsDone++ // the previous unit was written completely
		}
		started = true
		if stage == "done" {
			started = false // "done" is not a unit itself: nothing is written after it for this file
		}
		switch s.Mode {
		case "freeze":
			if waitDrained(p.End.Out, 5*time.Second) {
				snap, lnk, _ := atomicSnapshot(dest, files)
				if n := len(obs.Events); n == 0 || obs.Events[n-1].D != unitsDone {
					obs.Events = append(obs.Events, atomicEvent{D: unitsDone, Snap: snap, Lnk: lnk, Stage: stage})
				}
			}
		case "kill":
			if unitsDone == s.N-1 {
				waitDrained(p.End.Out, 5*time.Second) // units 1..N-1 are processed
			}
			if unitsDone == s.N {
				if s.Delay > 0 {
					time.Sleep(time.Duration(s.Delay) * time.Microsecond)
				}
				killed = true
				syscall.Kill(os.Getpid(), syscall.SIGKILL)
				time.Sleep(time.Second)
			}
		}
	}
	if s.Mode == "flip" {
		// an inverted bit can turn a length into a larger one: the receiver then waits for bytes that will never be
		// sent while the reference sender waits for its next request.  Once the whole session is parked, the
		// connection is closed (a peer that went away), as after a cut.
		served := make(chan struct{})
		defer close(served)
		go func() {
			select {
			case <-served:
			case <-idleAfter(500 * time.Millisecond):
				p.End.Out.CloseWrite()
			}
		}()
	}
	serr := rs.Serve()
	if serr == nil {
		serr = p.Finish()
	}
	obs.Bytes = cw.n
	obs.UpBytes = cr.n
	var derr error
	finished := false
	select {
	case derr = <-p.Done:
		finished = true
	case <-idleAfter(1 * time.Second):
		p.End.Out.CloseWrite()
		select {
		case derr = <-p.Done:
			finished = true
		case <-idleAfter(10 * time.Second):
		}
	}
	p.End.Close()
	fin := &obs.Final
	fin.D = unitsDone
	switch {
	case !finished:
		fin.Result, fin.Err = "hung", "receiver did not return"
	case derr != nil:
		fin.Result, fin.Err = "err", derr.Error()
	default:
		fin.Result = "ok"
	}
	if s.Mode == "flip" {
		fin.Mode = "damaged"
	} else if s.Mode == "cut" || s.Mode == "cutup" {
		fin.Mode = "error"
		if s.Mode == "cut" {
			fin.DMin = unitsDone
		}
	} else {
		fin.Mode = "done"
		if serr != nil && fin.Err == "" {
			fin.Err = "reference sender: " + serr.Error()
		}
	}
	// temp files are removed once the session's connection has been closed;
	// the receiver goroutine may need a moment to observe the close
	deadline := time.Now().Add(1000 * time.Millisecond)
	for {
		fin.Snap, fin.Lnk, fin.Extra = atomicSnapshot(dest, files)
		fin.Temps = len(fin.Extra)
		if fin.Temps == 0 || time.Now().After(deadline) {
			break
		}
		time.Sleep(2 * time.Millisecond)
	}
	return obs, nil
}

// deathSnapshot is used by the parent process when a worker died (SIGKILL
// scenarios): it classifies the destination the dead worker left behind.
func deathSnapshot(line []byte, workerDir string) any {
	var s atomicScn
	if json.Unmarshal(line, &s) != nil || !s.SnapOnDeath {
		return nil
	}
	snap, lnk, extra := atomicSnapshot(filepath.Join(workerDir, "dst"), atomicFiles(&s))
	return map[string]any{"snap": snap, "lnk": lnk, "extra": extra}
}
