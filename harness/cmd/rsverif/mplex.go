package main

import (
	"bytes"
	"context"
	"encoding/binary"
	"encoding/json"
	"fmt"
	"io"
	"os"
	"path/filepath"
	"strings"
	"sync"
	"time"

	"github.com/gokrazy/rsync/rsyncclient"
	"github.com/gokrazy/rsync/rsyncd"
	"github.com/gokrazy/rsync/verifharness/fstree"
	"github.com/gokrazy/rsync/verifharness/wirekit"
	"github.com/gokrazy/rsync/verifharness/xport"
)

// mplexScn: a real client pulling from a real server through a proxy that
// re-cuts the server's multiplexed output (C17).
type mplexScn struct {
	ID      int    `json:"id"`
	Shape   string `json:"shape"` // small | sizes | literal | delta | listing | error
	Framing struct {
		Kind    string `json:"kind"` // none | fixed | coalesce | pattern | runs | errat
		Size    int    `json:"size"` // fixed: data frame size
		Pattern []struct {
			Tag int `json:"tag"`
			Len int `json:"len"`
		} `json:"pattern"`
		Units int  `json:"units"`
		Run   int  `json:"run"`   // runs: this many info/empty frames before each data frame
		Empty bool `json:"empty"` // runs: empty data frames instead of info frames
		// InfoText: what the info frames of a run carry: "" = a line of text; "EMPTY" = nothing at all (a frame of
		// length 0); "NONL" = text without a newline; "NL" = a newline only
		InfoText string `json:"infotext"`
		First    int    `json:"first"` // runs: only before the first N data frames (0: all)
		ErrAt    int    `json:"errat"` // errat: inject an error frame at this logical stream offset
		// FromEnd > 0: ... counted back from the END of the stream (the last phase marker, the statistics)
		FromEnd int `json:"fromend"`
	} `json:"framing"`
}

type mplexObs struct {
	ID      int    `json:"id"`
	Shape   string `json:"shape"`
	Framing string `json:"framing"`
	// what the real server emitted
	NFrames   int   `json:"nframes"`
	MaxLen    int   `json:"maxlen"`
	Tags      []int `json:"tags"`
	Parsed    bool  `json:"parsed"`    // the server's stream was a sequence of complete, well-formed frames up to its end
	StreamLen int   `json:"streamlen"` // logical data bytes
	// what the client made of the re-framed stream
	InjErr    bool            `json:"injerr"`
	BaseOK    bool            `json:"baseok"` // result of the unframed baseline run (true: success)
	Result    string          `json:"result"`
	Err       string          `json:"err"`
	Same      bool            `json:"same"`  // destination tree / listing identical to the baseline
	MsgOK     bool            `json:"msgok"` // the error carries the server's (or injected) message
	OutFrames int             `json:"outframes"`
	Scn       json.RawMessage `json:"scn"`
}

func init() { handlers["mplex"] = mplexHandler }

type reframer struct {
	mu       sync.Mutex
	scn      *mplexScn
	total    int // expected logical stream length (from the baseline)
	off      int // logical offset forwarded so far
	step     int
	budget   int
	dataSeen int
	out      io.Writer
	frames   int
	injected bool
	stopped  bool
	pend     []byte // coalesce: logical bytes not yet framed
	gen      int    // coalesce: generation of the pending flush timer
}

// flushPend (coalesce) sends what is pending as one short frame; call with r.mu held.
func (r *reframer) flushPend() error {
	if len(r.pend) == 0 {
		return nil
	}
	err := r.frame(wirekit.TagData, r.pend)
	r.off += len(r.pend)
	r.pend = nil
	return err
}

func (r *reframer) frame(tag int, p []byte) error {
	r.frames++
	return wirekit.WriteFrame(r.out, tag, p)
}

// feed forwards logical data bytes to the client, cut as the scenario says.
func (r *reframer) feed(p []byte) error {
	f := &r.scn.Framing
	if f.Kind == "coalesce" {
		// MERGE the server's frames: data frames of exactly f.Size bytes whatever the server's write sizes were;
		// a shorter frame only when the server has been silent for a moment (it may be waiting for the client)
		r.mu.Lock()
		defer r.mu.Unlock()
		r.pend = append(r.pend, p...)
		size := min(max(f.Size, 1), wirekit.MaxFrame)
		for len(r.pend) >= size {
			if err := r.frame(wirekit.TagData, r.pend[:size]); err != nil {
				return err
			}
			r.pend = append([]byte(nil), r.pend[size:]...)
			r.off += size
		}
		r.gen++
		if len(r.pend) > 0 {
			g := r.gen
			time.AfterFunc(4*time.Millisecond, func() {
				r.mu.Lock()
				defer r.mu.Unlock()
				if r.gen == g {
					r.flushPend()
				}
			})
		}
		return nil
	}
	for len(p) > 0 && !r.stopped {
		switch f.Kind {
		case "fixed":
			n := min(max(f.Size, 1), len(p), wirekit.MaxFrame)
			if err := r.frame(wirekit.TagData, p[:n]); err != nil {
				return err
			}
			p = p[n:]
			r.off += n
		case "runs":
			if f.First == 0 || r.dataSeen < f.First {
				for i := 0; i < f.Run; i++ {
					var err error
					if f.Empty {
						err = r.frame(wirekit.TagData, nil)
					} else {
						text := []byte(fmt.Sprintf("info %d\n", i))
						switch f.InfoText {
						case "EMPTY":
							text = nil
						case "NONL":
							text = []byte("x")
						case "NL":
							text = []byte("\n")
						}
						err = r.frame(wirekit.TagInfo, text)
					}
					if err != nil {
						return err
					}
				}
			}
			r.dataSeen++
			n := min(len(p), 7+r.dataSeen%13)
			if err := r.frame(wirekit.TagData, p[:n]); err != nil {
				return err
			}
			p = p[n:]
			r.off += n
		case "errat":
			if f.FromEnd > 0 {
				f.ErrAt = max(0, r.total-f.FromEnd)
				f.FromEnd = 0
			}
			n := len(p)
			if r.off+n > f.ErrAt {
				n = f.ErrAt - r.off
			}
			if n > 0 {
				if err := r.frame(wirekit.TagData, p[:min(n, wirekit.MaxFrame)]); err != nil {
					return err
				}
				k := min(n, wirekit.MaxFrame)
				p = p[k:]
				r.off += k
				continue
			}
			r.injected, r.stopped = true, true
			return r.frame(wirekit.TagError, []byte("INJECTED-ERROR-TEXT at the server\n"))
		case "pattern":
			unit := (r.total + f.Units - 1) / max(f.Units, 1)
			if unit < 1 {
				unit = 1
			}
			// non-data steps fire as soon as they are reached
			for r.budget == 0 && r.step < len(f.Pattern) {
				st := f.Pattern[r.step]
				r.step++
				switch {
				case st.Tag == 0 && st.Len > 0:
					r.budget = st.Len * unit
				case st.Tag == 0:
					if err := r.frame(wirekit.TagData, nil); err != nil {
						return err
					}
				case st.Tag == 2:
					text := []byte("interleaved info\n")
					if st.Len == 0 {
						text = nil // an informational frame of length 0
					}
					if err := r.frame(wirekit.TagInfo, text); err != nil {
						return err
					}
				case st.Tag == 1:
					r.injected, r.stopped = true, true
					return r.frame(wirekit.TagError, []byte("INJECTED-ERROR-TEXT at the server\n"))
				}
			}
			n := len(p)
			if r.budget > 0 {
				n = min(n, r.budget)
			}
			n = min(n, wirekit.MaxFrame)
			if err := r.frame(wirekit.TagData, p[:n]); err != nil {
				return err
			}
			if r.budget > 0 {
				r.budget -= n
			}
			p = p[n:]
			r.off += n
		default: // none: one frame per chunk
			n := min(len(p), wirekit.MaxFrame)
			if err := r.frame(wirekit.TagData, p[:n]); err != nil {
				return err
			}
			p = p[n:]
			r.off += n
		}
	}
	return nil
}

type sessionResult struct {
	ok       bool
	err      string
	tree     string
	listing  string
	nframes  int
	maxlen   int
	tags     map[int]bool
	parsed   bool
	stream   int
	out      int
	injected bool
}

func buildShape(shape string, src, dst string) {
	w := func(p string, c int, sz int64, mt int64) {
		full := filepath.Join(src, p)
		os.MkdirAll(filepath.Dir(full), 0o755)
		os.WriteFile(full, fstree.Content(c, sz), 0o644)
		t := time.Unix(mt, 0)
		os.Chtimes(full, t, t)
	}
	switch shape {
	case "small", "listing", "error":
		w("a", 1, 10, 1000)
		w("d/b", 2, 300, 1000)
		w("d/c", 3, 0, 1000)
		os.Symlink("a", filepath.Join(src, "l"))
	case "sizes":
		for i, sz := range []int64{4093, 4094, 4095, 4096, 4097, 262144 + 4096} {
			w(fmt.Sprintf("f%d", i), 10+i, sz, 1000)
		}
	case "literal":
		w("big", 5, 600*1024+17, 1000)
	case "delta":
		w("f", 6, 200000, 1000)
		// the destination holds an older, edited copy
		old := fstree.Edit(fstree.Content(6, 200000), "ins:70000:33")
		os.WriteFile(filepath.Join(dst, "f"), old, 0o644)
		t := time.Unix(900, 0)
		os.Chtimes(filepath.Join(dst, "f"), t, t)
	}
}

func treeDigest(dir string) string {
	var b strings.Builder
	filepath.Walk(dir, func(p string, info os.FileInfo, err error) error {
		if err != nil {
			return nil
		}
		rel, _ := filepath.Rel(dir, p)
		fmt.Fprintf(&b, "%s %v ", rel, info.Mode())
		if info.Mode().IsRegular() {
			data, _ := os.ReadFile(p)
			fmt.Fprintf(&b, "%x %d", wirekit.PlainMD4(data), info.ModTime().Unix())
		}
		if info.Mode()&os.ModeSymlink != 0 {
			t, _ := os.Readlink(p)
			b.WriteString("-> " + t)
		}
		b.WriteString("\n")
		return nil
	})
	return b.String()
}

// runThroughProxy runs one real client <-> real server session.
func runThroughProxy(base string, s *mplexScn, total int) *sessionResult {
	res := &sessionResult{tags: map[int]bool{}}
	src := filepath.Join(base, "src")
	dst := filepath.Join(base, "dst")
	fstree.Reset(src)
	fstree.Reset(dst)
	buildShape(s.Shape, src, dst)
	var stdout bytes.Buffer
	logw := &capBuf{}
	client, err := rsyncclient.New([]string{"-rlt"}, rsyncclient.DontRestrict(), rsyncclient.WithStderr(logw))
	if err != nil {
		res.err = err.Error()
		return res
	}
	_ = stdout
	srv, _ := rsyncd.NewServer(nil, rsyncd.WithStderr(io.Discard), rsyncd.DontRestrict())
	srcArg := src + "/"
	if s.Shape == "error" {
		srcArg = src + "/does-not-exist/" // the server reports an error in an error frame
	}
	cA, cB := xport.Conn(-1, -1, nil) // client <-> proxy
	sA, sB := xport.Conn(-1, -1, nil) // proxy <-> server
	sdone := make(chan error, 1)
	go func() {
		conn := rsyncd.NewConnection(sB, sB, "proxy")
		err := srv.HandleConnArgs(context.Background(), conn, nil, client.ServerCommandOptions(srcArg))
		sB.Close()
		sdone <- err
	}()
	// client -> server: straight through
	go func() {
		io.Copy(sA, cB)
		sA.Out.CloseWrite()
	}()
	rf := &reframer{scn: s, total: total, out: cB}
	// server -> client
	pdone := make(chan struct{})
	go func() {
		defer close(pdone)
		defer cB.Out.CloseWrite()
		defer func() { // (coalesce) what is still pending goes out before the stream is closed
			rf.mu.Lock()
			rf.gen++
			rf.flushPend()
			rf.mu.Unlock()
		}()
		var hs [8]byte // protocol version + seed are not framed
		if _, err := io.ReadFull(sA, hs[:]); err != nil {
			return
		}
		cB.Write(hs[:])
		res.parsed = true
		for {
			var h [4]byte
			if n, err := io.ReadFull(sA, h[:]); err != nil {
				if n != 0 {
					res.parsed = false // the stream ended inside a frame header
				}
				return
			}
			hv := binary.LittleEndian.Uint32(h[:])
			tag := int(hv>>24) - 7
			n := int(hv & 0xffffff)
			res.nframes++
			res.tags[tag] = true
			if n > res.maxlen {
				res.maxlen = n
			}
			payload := make([]byte, n)
			if _, err := io.ReadFull(sA, payload); err != nil {
				if !rf.stopped {
					res.parsed = false // fewer payload bytes than the header announced
				}
				return
			}
			if tag != wirekit.TagData {
				// the server's own info/error frames pass through unchanged (after what is pending)
				rf.mu.Lock()
				rf.gen++
				rf.flushPend()
				rf.frame(tag, payload)
				rf.mu.Unlock()
				continue
			}
			res.stream += n
			if err := rf.feed(payload); err != nil || rf.stopped {
				// after an injected error the server side of the session is torn down
				sA.Close()
				return
			}
		}
	}()
	cdone := make(chan error, 1)
	dest := dst + "/"
	if s.Shape == "listing" {
		dest = ""
	}
	go func() {
		_, err := client.Run(context.Background(), cA, []string{dest})
		cdone <- err
	}()
	var cerr error
	// a stalled session is established by the transport, not by a long sleep:
	// no byte moved on any of the four pipes for 3 s
	progress := func() int64 {
		var sum int64
		for _, p := range []*xport.Pipe{cA.In, cA.Out, sA.In, sA.Out} {
			_, _, _, pr := p.State()
			sum += pr
		}
		return sum
	}
	last := progress()
	var idle idleMeter
wait:
	for {
		select {
		case cerr = <-cdone:
			break wait
		case <-time.After(idleTick):
			quiet := idle.sample()
			if p := progress(); p != last {
				last = p
				idle.n = 0
			} else if quiet >= 3*time.Second {
				cerr = fmt.Errorf("HUNG: no transport progress and every goroutine of the session parked for 3 s; the client did not return")
				break wait
			}
		}
	}
	cA.Close()
	sA.Close()
	select {
	case <-sdone:
	case <-idleAfter(5 * time.Second):
	}
	select {
	case <-pdone:
	case <-idleAfter(5 * time.Second):
	}
	res.ok = cerr == nil
	if cerr != nil {
		res.err = cerr.Error()
	}
	res.tree = treeDigest(dst)
	res.out = rf.frames
	res.injected = rf.injected
	return res
}

func mplexHandler(w *workerCtx, line []byte) (any, error) {
	var s mplexScn
	if err := json.Unmarshal(line, &s); err != nil {
		return nil, err
	}
	base := filepath.Join(w.dir, fmt.Sprintf("mx%d", s.ID))
	defer func() { fstree.MakeWritable(base); os.RemoveAll(base) }()
	// baseline: the server's own framing
	none := s
	none.Framing.Kind = "none"
	b := runThroughProxy(filepath.Join(base, "base"), &none, 0)
	r := runThroughProxy(filepath.Join(base, "run"), &s, b.stream)
	obs := &mplexObs{ID: s.ID, Shape: s.Shape, Framing: s.Framing.Kind, Scn: json.RawMessage(line), Tags: []int{}}
	obs.NFrames, obs.MaxLen, obs.Parsed, obs.StreamLen = b.nframes, b.maxlen, b.parsed, b.stream
	for t := range b.tags {
		obs.Tags = append(obs.Tags, t)
	}
	obs.BaseOK = b.ok
	obs.InjErr = r.injected
	obs.OutFrames = r.out
	if r.ok {
		obs.Result = "ok"
	} else {
		obs.Result, obs.Err = "err", r.err
	}
	obs.Same = r.tree == b.tree
	switch {
	case r.injected:
		obs.MsgOK = strings.Contains(r.err, "INJECTED-ERROR-TEXT")
	case !b.ok:
		// the server's own error must surface with the same text
		obs.MsgOK = !r.ok && r.err == b.err
	default:
		obs.MsgOK = true
	}
	return obs, nil
}
