package main

import (
	"bufio"
	"context"
	"encoding/json"
	"fmt"
	"io"
	"io/fs"
	"os"
	"path/filepath"
	"strings"
	"testing/fstest"
	"time"

	"github.com/gokrazy/rsync/internal/maincmd"
	"github.com/gokrazy/rsync/internal/rsyncdconfig"
	"github.com/gokrazy/rsync/internal/rsyncos"
	"github.com/gokrazy/rsync/rsyncd"
	"github.com/gokrazy/rsync/verifharness/drv"
	"github.com/gokrazy/rsync/verifharness/fstree"
	"github.com/gokrazy/rsync/verifharness/wirekit"
	"github.com/gokrazy/rsync/verifharness/xport"
)

// romodScn: an upload attempt (the harness plays the uploading client over the
// daemon protocol) against a module of a given kind (C07).
type romodScn struct {
	ID        int      `json:"id"`
	Kind      string   `json:"kind"`      // ro | rw | fs
	Upload    string   `json:"upload"`    // benign | hostile | delete-empty
	Sub       string   `json:"sub"`       // root | existing | new
	Flags     []string `json:"flags"`     // subset of n, delete
	Transport string   `json:"transport"` // conn | stdio
	Missing   bool     `json:"missing"`   // the module directory does not exist yet
	Mixed     bool     `json:"mixed"`     // several modules with mixed writability are configured
	ArgForm   string   `json:"argform"`   // normal | no-server (the "--server" line is missing) | long (options spelled out as long options) | dup (options given twice)
	Layout    string   `json:"layout"`    // alone | sibling | prefix | nested | parent | same | same-slash: where writable modules sit relative to the module under test
}

type romodObs struct {
	ID        int             `json:"id"`
	Kind      string          `json:"kind"`
	Upload    string          `json:"upload"`
	Sub       string          `json:"sub"`
	Flags     []string        `json:"flags"`
	Transport string          `json:"transport"`
	Missing   bool            `json:"missing"`
	Reply     string          `json:"reply"`   // ok | error (handshake)
	Refused   bool            `json:"refused"` // the session was ended by the server with an error (frame or close) before any request
	ErrText   string          `json:"errtext"`
	Requests  int             `json:"requests"`
	Changed   bool            `json:"changed"` // the module (or the other modules) differ after the attempt
	Diff      []string        `json:"diff"`
	Scn       json.RawMessage `json:"scn"`
}

func init() { handlers["romod"] = romodHandler }

func snapTree(dir string) map[string]string {
	m := map[string]string{}
	filepath.Walk(dir, func(p string, info os.FileInfo, err error) error {
		if err != nil {
			return nil
		}
		rel, _ := filepath.Rel(dir, p)
		d := fmt.Sprintf("%v %d", info.Mode(), info.Size())
		if info.Mode().IsRegular() {
			b, _ := os.ReadFile(p)
			d += fmt.Sprintf(" %x %d", wirekit.PlainMD4(b), info.ModTime().Unix())
		}
		if info.Mode()&os.ModeSymlink != 0 {
			t, _ := os.Readlink(p)
			d += " -> " + t
		}
		if info.IsDir() {
			d = fmt.Sprintf("%v", info.Mode()) // sizes/mtimes of directories are not compared
		}
		m[rel] = d
		return nil
	})
	return m
}

func romodHandler(w *workerCtx, line []byte) (any, error) {
	var s romodScn
	if err := json.Unmarshal(line, &s); err != nil {
		return nil, err
	}
	obs := &romodObs{ID: s.ID, Kind: s.Kind, Upload: s.Upload, Sub: s.Sub, Flags: s.Flags, Transport: s.Transport, Missing: s.Missing,
		Diff: []string{}, Scn: json.RawMessage(line)}
	if obs.Flags == nil {
		obs.Flags = []string{}
	}
	base := filepath.Join(w.dir, fmt.Sprintf("ro%d", s.ID))
	defer func() { fstree.MakeWritable(base); os.RemoveAll(base) }()
	modDir := filepath.Join(base, "mod")
	otherRO := filepath.Join(base, "other-ro")
	otherRW := filepath.Join(base, "other-rw")
	for _, d := range []string{otherRO, otherRW} {
		os.MkdirAll(d, 0o755)
		os.WriteFile(filepath.Join(d, "keep"), []byte("other"), 0o644)
	}
	if !s.Missing {
		os.MkdirAll(filepath.Join(modDir, "existing"), 0o755)
		os.WriteFile(filepath.Join(modDir, "keep.txt"), []byte("keep me"), 0o644)
		os.WriteFile(filepath.Join(modDir, "existing", "old"), []byte("old"), 0o644)
		os.WriteFile(filepath.Join(modDir, "extra"), []byte("not in the upload"), 0o644)
	}
	mapfs := fstest.MapFS{"keep.txt": &fstest.MapFile{Data: []byte("keep me")}, "existing/old": &fstest.MapFile{Data: []byte("old")}}
	var mod rsyncd.Module
	switch s.Kind {
	case "ro":
		mod = rsyncd.Module{Name: "m", Path: modDir}
	case "rw":
		mod = rsyncd.Module{Name: "m", Path: modDir, Writable: true}
	case "fs":
		mod = rsyncd.Module{Name: "m", FS: mapfs}
	}
	mods := []rsyncd.Module{mod}
	if s.Mixed && s.Layout == "" {
		s.Layout = "sibling"
	}
	switch s.Layout {
	case "sibling":
		mods = []rsyncd.Module{{Name: "mm", Path: otherRW, Writable: true}, mod, {Name: "m2", Path: otherRO}}
	case "prefix": // a writable module whose path is a string prefix of the module's path (…/mo vs …/mod)
		pre := filepath.Join(base, "mo")
		os.MkdirAll(pre, 0o755)
		os.WriteFile(filepath.Join(pre, "keep"), []byte("other"), 0o644)
		mods = []rsyncd.Module{{Name: "mo", Path: pre, Writable: true}, mod, {Name: "m2", Path: otherRO}}
	case "nested": // the module's directory lies below a writable module's directory
		mods = []rsyncd.Module{{Name: "top", Path: base, Writable: true}, mod}
	case "same": // a writable module exports the very same directory under another name
		mods = []rsyncd.Module{{Name: "rwtwin", Path: modDir, Writable: true}, mod}
	case "same-slash": // ... spelled with a trailing slash, and listed after the module
		mods = []rsyncd.Module{mod, {Name: "rwtwin", Path: modDir + "/", Writable: true}}
	case "parent": // a writable module's directory lies below the module's directory
		mods = []rsyncd.Module{mod, {Name: "sub", Path: filepath.Join(modDir, "existing"), Writable: true}}
	}
	before := snapTree(base)
	mapBefore := fmt.Sprintf("%v", len(mapfs))

	fl := "-rt"
	del := false
	for _, f := range s.Flags {
		if f == "n" {
			fl += "n"
		}
		if f == "delete" {
			del = true
		}
	}
	buildArgs := func(prefix string) []string {
		args := []string{"--server", fl}
		if del {
			args = append(args, "--delete")
		}
		switch s.ArgForm {
		case "no-server": // a hand-written client that omits the --server line: still receive mode (no --sender)
			args = args[1:]
		case "long":
			args = []string{"--server", "--recursive", "--times", "--links"}
			if strings.Contains(fl, "n") {
				args = append(args, "--dry-run")
			}
			if del {
				args = append(args, "--delete")
			}
		case "dup":
			args = append([]string{"--server", "--server"}, args[1:]...)
			args = append(args, fl)
		}
		target := prefix
		switch s.Sub {
		case "existing":
			target = prefix + "existing/"
		case "new":
			target = prefix + "incoming/today/"
		}
		if target == "" {
			target = "/"
		}
		return append(args, ".", target)
	}
	// ---- start the daemon side
	a, b := xport.Conn(-1, -1, nil)
	done := make(chan error, 1)
	if s.Transport == "cmd" {
		// the module handed to the server directly (rsyncd.Server.HandleConnArgs, as library users and the
		// in-memory test servers do): no daemon handshake, the same module record
		srv, err := drv.NewServer(mods, nil)
		if err != nil {
			return nil, err
		}
		m := mod
		go func() {
			conn := rsyncd.NewConnection(b, b, "cmd")
			err := srv.HandleConnArgs(context.Background(), conn, &m, buildArgs(""))
			b.Close()
			done <- err
		}()
	} else if s.Transport == "stdio" {
		cfg := &rsyncdconfig.Config{Modules: mods}
		go func() {
			osenv := &rsyncos.Env{Stdin: b, Stdout: b, Stderr: io.Discard, DontRestrict: true}
			_, err := maincmd.Main(context.Background(), osenv, []string{"rsync", "--server", "--daemon", "."}, cfg)
			b.Close()
			done <- err
		}()
	} else {
		srv, err := drv.NewServer(mods, nil)
		if err != nil {
			return nil, err
		}
		go func() {
			conn := rsyncd.NewConnection(b, b, "127.0.0.1:5555")
			err := srv.HandleDaemonConn(context.Background(), conn)
			b.Close()
			done <- err
		}()
	}
	defer a.Close()
	// ---- the uploading client
	rd := bufio.NewReader(a)
	reply := "@RSYNCD: OK"
	if s.Transport == "cmd" {
		(&wirekit.W{W: a}).Int32(27)
		if v, err := (&wirekit.R{R: rd}).Int32(); err != nil || v != 27 {
			reply = fmt.Sprintf("version exchange: %v %v", v, err)
		}
	} else {
		fmt.Fprintf(a, "@RSYNCD: 27\nm\n")
		if _, err := rd.ReadString('\n'); err != nil {
			return nil, fmt.Errorf("greeting: %v", err)
		}
		reply, _ = rd.ReadString('\n')
	}
	if strings.TrimSpace(reply) != "@RSYNCD: OK" {
		obs.Reply, obs.ErrText, obs.Refused = "error", strings.TrimSpace(reply), true
	} else {
		obs.Reply = "ok"
		if s.Transport != "cmd" {
			for _, x := range buildArgs("m/") {
				fmt.Fprintf(a, "%s\n", x)
			}
			fmt.Fprintf(a, "\n")
		}
		raw := &wirekit.R{R: rd}
		if seed, err := raw.Int32(); err != nil {
			obs.Refused, obs.ErrText = true, "no seed: "+err.Error()
		} else {
			dm := &wirekit.Demux{R: rd}
			in := &wirekit.R{R: dm}
			out := &wirekit.W{W: a}
			if del {
				out.Int32(0)
			}
			list := &wirekit.FileList{Entries: []wirekit.Entry{{Name: ".", Size: 4096, Mtime: 2_000_000, Mode: wirekit.SIFDIR | 0o755, Flags: wirekit.XTopDir}}}
			payload := []byte("uploaded data")
			switch s.Upload {
			case "benign":
				list.Entries = append(list.Entries, wirekit.Entry{Name: "newfile", Size: int64(len(payload)), Mtime: 2_000_000, Mode: wirekit.SIFREG | 0o644},
					wirekit.Entry{Name: "keep.txt", Size: int64(len(payload)), Mtime: 2_000_001, Mode: wirekit.SIFREG | 0o600})
			case "hostile":
				list.Entries = append(list.Entries, wirekit.Entry{Name: "../escape", Size: int64(len(payload)), Mtime: 2_000_000, Mode: wirekit.SIFREG | 0o644},
					wirekit.Entry{Name: "keep.txt", Size: 0, Mtime: 2_000_001, Mode: wirekit.SIFDIR | 0o777})
			case "delete-empty":
				// the most destructive legal upload: an empty tree (with --delete everything else goes)
			}
			out.EncodeList(list, wirekit.ListOpts{}, wirekit.NoCompression)
			sorted := list.SortedEntries()
			rs := &wirekit.RefSender{In: in, Out: out, Seed: seed, DryRun: strings.Contains(fl, "n")}
			rs.Answer = func(req *wirekit.Request) (*wirekit.Answer, error) {
				obs.Requests++
				if req.Idx < 0 || int(req.Idx) >= len(sorted) {
					return nil, fmt.Errorf("bad index")
				}
				return wirekit.DeltaAnswer(seed, req, payload, 0), nil
			}
			serr := rs.Serve()
			if serr == nil {
				if _, err := in.Int32(); err != nil {
					serr = err
				}
			}
			if serr != nil {
				obs.Refused = obs.Requests == 0 && len(rs.Requests) == 0
				obs.ErrText = dm.ErrMsg
				if obs.ErrText == "" {
					obs.ErrText = serr.Error()
				}
			}
		}
	}
	a.Close()
	select {
	case <-done:
	case <-idleAfter(10 * time.Second):
		obs.ErrText += " [daemon side did not return]"
	}
	after := snapTree(base)
	for k, v := range before {
		if after[k] != v {
			obs.Diff = append(obs.Diff, fmt.Sprintf("%s: %q -> %q", k, v, after[k]))
		}
	}
	for k, v := range after {
		if _, ok := before[k]; !ok {
			obs.Diff = append(obs.Diff, fmt.Sprintf("%s: created %q", k, v))
		}
	}
	if fmt.Sprintf("%v", len(mapfs)) != mapBefore {
		obs.Diff = append(obs.Diff, "the fs.FS module changed")
	}
	obs.Changed = len(obs.Diff) > 0
	return obs, nil
}

var _ fs.FS = fstest.MapFS{}
