package main

import (
	"bytes"
	"encoding/json"
	"fmt"
	"os"
	"path/filepath"
	"time"

	"github.com/gokrazy/rsync/rsyncd"
	"github.com/gokrazy/rsync/verifharness/drv"
	"github.com/gokrazy/rsync/verifharness/fstree"
	"github.com/gokrazy/rsync/verifharness/wirekit"
)

// rtokScn: one file transfer to a REAL receiver in which the reference sender
// answers the receiver's request with a SCRIPTED, valid token stream
// (RecvDelta.tla: references in any order, remainder block anywhere, literal
// runs anywhere) whose trailer is the checksum of what the script denotes (C02,
// receiver half).  A symbol is 700/blk bytes, so that the real generator's
// block length (700 for files below 490000 bytes) is blk symbols.
type rtokScn struct {
	ID     int   `json:"id"`
	Basis  []int `json:"basis"`
	Blk    int   `json:"blk"`
	Script []struct {
		Lit []int `json:"lit"`
		Ref *int  `json:"ref"`
	} `json:"script"`
	Recv string `json:"recv"`
	// Huge: the basis blocks lie BEYOND 2 GiB: the basis file starts with a sparse run of zero blocks, so that every
	// block the script references starts at a byte offset >= 2^31 (offset arithmetic in more than 32 bits)
	Huge bool `json:"huge"`
}

type rtokObs struct {
	ID     int             `json:"id"`
	Basis  []int           `json:"basis"`
	Blk    int             `json:"blk"`
	Script json.RawMessage `json:"script"`
	Recv   string          `json:"recv"`
	Result string          `json:"result"`
	Err    string          `json:"err"`
	Out    []int           `json:"out"`   // the destination file afterwards, as symbols (-1: unknown bytes, -2: ragged tail, -3: absent)
	Temps  int             `json:"temps"` // stray entries in the destination directory afterwards
	Head   []int32         `json:"head"`  // the sum head the real generator sent
}

func init() { handlers["rtok"] = rtokHandler }

func rtokHandler(w *workerCtx, line []byte) (any, error) {
	var s rtokScn
	if err := json.Unmarshal(line, &s); err != nil {
		return nil, err
	}
	var raw struct {
		Script json.RawMessage `json:"script"`
	}
	json.Unmarshal(line, &raw)
	if s.Blk < 1 || 700%s.Blk != 0 {
		return nil, fmt.Errorf("block length %d symbols does not divide 700", s.Blk)
	}
	width := 700 / s.Blk
	blockBytes, padBlocks := 700, 0
	if s.Huge {
		// total = B*B + remainder, so the generator's block length floor(sqrt(total)) is B; the first B-2 blocks are a hole
		const B = 46344
		if B%s.Blk != 0 || len(s.Basis)/s.Blk != 2 {
			return nil, fmt.Errorf("huge basis needs exactly two full blocks (basis %d symbols, block %d)", len(s.Basis), s.Blk)
		}
		blockBytes, padBlocks, width = B, B-2, B/s.Blk
	}
	obs := &rtokObs{ID: s.ID, Basis: s.Basis, Blk: s.Blk, Script: raw.Script, Recv: s.Recv, Out: []int{}, Head: []int32{}}
	if obs.Basis == nil {
		obs.Basis = []int{}
	}
	sym := func(v int) []byte { return symBytes(v, width, 91) }
	known := map[string]int{}
	var basis []byte
	for _, v := range s.Basis {
		basis = append(basis, sym(v)...)
		known[string(sym(v))] = v
	}
	// what the script denotes, concretely
	var target []byte
	for _, tk := range s.Script {
		if tk.Ref != nil {
			off := *tk.Ref * blockBytes
			end := min(off+blockBytes, len(basis))
			if off >= len(basis) {
				return nil, fmt.Errorf("script references block %d beyond the basis", *tk.Ref)
			}
			target = append(target, basis[off:end]...)
			continue
		}
		for _, v := range tk.Lit {
			target = append(target, sym(v)...)
			known[string(sym(v))] = v
		}
	}
	dest := filepath.Join(w.dir, "dst")
	if err := fstree.Reset(dest); err != nil {
		return nil, err
	}
	fpath := filepath.Join(dest, "f")
	if s.Huge {
		f, err := os.Create(fpath)
		if err != nil {
			return nil, err
		}
		pad := int64(padBlocks) * int64(blockBytes)
		if err := f.Truncate(pad + int64(len(basis))); err == nil {
			_, err = f.WriteAt(basis, pad)
		}
		f.Close()
		if err != nil {
			return nil, err
		}
		old := time.Unix(1_000_000, 0)
		os.Chtimes(fpath, old, old)
	} else if len(s.Basis) > 0 {
		if err := os.WriteFile(fpath, basis, 0o644); err != nil {
			return nil, err
		}
		old := time.Unix(1_000_000, 0)
		os.Chtimes(fpath, old, old)
	}
	lo := wirekit.ListOpts{}
	fl := &wirekit.FileList{Entries: []wirekit.Entry{
		{Name: ".", Size: 4096, Mtime: 2_000_000, Mode: wirekit.SIFDIR | 0o755, Flags: wirekit.XTopDir},
		{Name: "f", Size: int64(len(target)), Mtime: 2_000_000, Mode: wirekit.SIFREG | 0o644},
	}}
	var p *drv.RecvPeer
	var err error
	if s.Recv == "daemon" {
		srv, err := drv.NewServer(nil, nil)
		if err != nil {
			return nil, err
		}
		mod := &rsyncd.Module{Name: "m", Path: dest, Writable: true}
		p = drv.StartServerReceiver(srv, mod, []string{"--server", "-rt", ".", "/"}, -1, -1, nil)
		if err = p.ClientHandshake(false); err != nil {
			return nil, fmt.Errorf("handshake: %w", err)
		}
	} else {
		if p, err = drv.StartClientReceiver([]string{"-rt"}, dest, nil, -1, -1, nil); err != nil {
			return nil, err
		}
		if err = p.ServerHandshake(int32(777 + s.ID)); err != nil {
			return nil, fmt.Errorf("handshake: %w", err)
		}
	}
	defer p.End.Close()
	p.Out.EncodeList(fl, lo, wirekit.NoCompression)
	if p.Out.Err != nil {
		return nil, p.Out.Err
	}
	rs := &wirekit.RefSender{In: p.In, Out: p.Out, Seed: p.Seed}
	var scriptErr error
	rs.Answer = func(req *wirekit.Request) (*wirekit.Answer, error) {
		if req.Idx != 1 {
			return nil, fmt.Errorf("unexpected request for index %d", req.Idx)
		}
		h := req.Head
		obs.Head = []int32{h.Count, h.Blk, h.S2, h.Rem}
		if len(s.Basis) > 0 && (int(h.Blk) != blockBytes || int(h.Count) != padBlocks+(len(basis)+blockBytes-1)/blockBytes || int(h.Rem) != len(basis)%blockBytes) {
			scriptErr = fmt.Errorf("the generator's block layout %v is not the expected one (%d-byte blocks over %d bytes after %d hole blocks)", obs.Head, blockBytes, len(basis), padBlocks)
			return nil, scriptErr
		}
		a := &wirekit.Answer{Idx: req.Idx, Head: h, Sum: wirekit.FileSum(p.Seed, target)}
		for _, tk := range s.Script {
			if tk.Ref != nil {
				a.Toks = append(a.Toks, wirekit.Token{Ref: int32(*tk.Ref + padBlocks)})
				continue
			}
			var lit []byte
			for _, v := range tk.Lit {
				lit = append(lit, sym(v)...)
			}
			a.Toks = append(a.Toks, wirekit.Token{Lit: lit})
		}
		return a, nil
	}
	srvErr := make(chan error, 1)
	go func() {
		err := rs.Serve()
		if err == nil {
			err = p.Finish()
		}
		srvErr <- err
	}()
	var derr error
	finished := false
	select {
	case derr = <-p.Done:
		finished = true
	case <-idleAfter(30 * time.Second):
	}
	if scriptErr != nil {
		return nil, scriptErr
	}
	switch {
	case !finished:
		obs.Result = "hung"
	case derr != nil:
		obs.Result, obs.Err = "err", derr.Error()
	default:
		obs.Result = "ok"
	}
	p.End.Close()
	if b, err := os.ReadFile(fpath); err != nil {
		obs.Out = []int{-3}
	} else {
		for off := 0; off < len(b); off += width {
			if off+width > len(b) {
				obs.Out = append(obs.Out, -2)
				break
			}
			if v, ok := known[string(b[off:off+width])]; ok {
				obs.Out = append(obs.Out, v)
			} else {
				obs.Out = append(obs.Out, -1)
			}
		}
	}
	ents, _ := os.ReadDir(dest)
	for _, e := range ents {
		if e.Name() != "f" {
			obs.Temps++
		}
	}
	_ = bytes.Equal
	return obs, nil
}
