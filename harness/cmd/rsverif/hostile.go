package main

import (
	"bufio"
	"bytes"
	"context"
	"encoding/binary"
	"encoding/json"
	"fmt"
	"io"
	"math/rand"
	"os"
	"path/filepath"
	"runtime"
	"strings"
	"syscall"
	"time"

	"github.com/gokrazy/rsync/rsyncclient"
	"github.com/gokrazy/rsync/rsyncd"
	"github.com/gokrazy/rsync/verifharness/fstree"
	"github.com/gokrazy/rsync/verifharness/wirekit"
	"github.com/gokrazy/rsync/verifharness/xport"
)

// hostileScn: one damaged session against a real daemon or client (C08).
type hostileScn struct {
	ID       int      `json:"id"`
	Victim   string   `json:"victim"` // daemon-sender | daemon-receiver | client
	Field    string   `json:"field"`  // field to damage ("" with Kind argline/noise)
	Class    string   `json:"class"`
	Kind     string   `json:"kind"`     // "" (field mutation) | argline | noise | cut
	Args     []string `json:"args"`     // argline: extra argument lines
	Seed     int64    `json:"seed"`     // noise
	Cut      int      `json:"cut"`      // cut: truncate our stream at this offset
	Only     bool     `json:"only"`     // argline: Args are the ONLY argument lines (nothing of the valid request)
	Frame    int      `json:"frame"`    // bigframe (client): one data frame of this many bytes, all delivered
	Progress bool     `json:"progress"` // the victim is asked to display progress (client: --progress; daemon: a --progress argument line)
	NoServer bool     `json:"noserver"` // argline: the valid request WITHOUT its "--server" line (a hand-written client)
	Field2   string   `json:"field2"`   // pair mutation: a second field of the same header damaged as well
	Class2   string   `json:"class2"`
}

type hostileObs struct {
	ID       int             `json:"id"`
	Victim   string          `json:"victim"`
	Field    string          `json:"field"`
	Class    string          `json:"class"`
	Kind     string          `json:"kind"`
	Alive    bool            `json:"alive"`
	Ended    bool            `json:"ended"`
	Retire   bool            `json:"retire_worker,omitempty"` // the victim still runs: do not reuse this worker
	NextOK   bool            `json:"nextok"`
	Result   string          `json:"result"`   // what the attacked session returned: error text or "ok"
	Hit      bool            `json:"hit"`      // the field exists in the script (the mutation was applied)
	Reported string          `json:"reported"` // error the victim reported back to the peer, if any
	Len      int             `json:"len"`
	Scn      json.RawMessage `json:"scn"`
}

func init() { handlers["hostile"] = hostileHandler }

type fld struct {
	name string
	kind string // i32 byte bytes line i64
	i    int64
	b    []byte
}

func fI(name string, v int64) fld  { return fld{name: name, kind: "i32", i: v} }
func fB(name string, b []byte) fld { return fld{name: name, kind: "bytes", b: b} }
func fL(name string, s string) fld { return fld{name: name, kind: "line", b: []byte(s + "\n")} }
func fY(name string, v byte) fld   { return fld{name: name, kind: "byte", i: int64(v)} }
func f64(name string, v int64) fld { return fld{name: name, kind: "i64", i: v} }

// serialise builds the byte stream, damaging the FIRST field called target.
// Returns the bytes, whether the target was found, and the cut offset (-1: none).
// preDamage applies the companion mutation of a pair (Field2/Class2) to the first field of that name.
// ruleText handles the classes "rule:<prefix>|<pattern>" of the field filter.rule: the filter list then carries that
// very rule, well-formed on the wire (its length word fits), whatever it means to the rule parser.
func ruleText(fs []fld, target, class string) ([]fld, bool) {
	if target != "filter.rule" || !strings.HasPrefix(class, "rule:") {
		return fs, false
	}
	text := strings.Replace(strings.TrimPrefix(class, "rule:"), "|", "", 1)
	out := append([]fld(nil), fs...)
	for i := range out {
		if out[i].name == "filter.len" {
			out[i] = fI("filter.len", int64(len(text)))
		}
		if out[i].name == "filter.rule" {
			out[i] = fB("filter.rule", []byte(text))
		}
	}
	if text == "" {
		// a length word 0 ends the list: send the empty rule as the list's end and drop the original terminator
		var o2 []fld
		for _, f := range out {
			if f.name != "filter.rule" && f.name != "filter.end" {
				o2 = append(o2, f)
			}
		}
		out = o2
	}
	return out, true
}

func preDamage(fs []fld, target, class string, rnd *rand.Rand) []fld {
	if target == "" {
		return fs
	}
	if out, ok := ruleText(fs, target, class); ok {
		return out
	}
	out := append([]fld(nil), fs...)
	for i, f := range out {
		if f.name == target {
			out[i] = damage(f, class, rnd)
			break
		}
	}
	return out
}

func serialise(fs []fld, target, class string, rnd *rand.Rand) ([]byte, bool, int) {
	var out bytes.Buffer
	hit := false
	cut := -1
	for _, f := range fs {
		damaged := !hit && f.name == target
		if damaged {
			hit = true
			if class == "truncated-here" {
				// the stream ends inside this field (after its first byte, if it has several)
				var tmp bytes.Buffer
				writeField(&tmp, f)
				n := tmp.Len() / 2
				out.Write(tmp.Bytes()[:n])
				cut = out.Len()
				return out.Bytes(), true, cut
			}
			f = damage(f, class, rnd)
		}
		writeField(&out, f)
	}
	return out.Bytes(), hit, cut
}

func writeField(w *bytes.Buffer, f fld) {
	switch f.kind {
	case "i32":
		var b [4]byte
		binary.LittleEndian.PutUint32(b[:], uint32(int32(f.i)))
		w.Write(b[:])
	case "i64":
		ww := &wirekit.W{W: w}
		ww.Int64(f.i)
	case "byte":
		w.WriteByte(byte(f.i))
	default:
		w.Write(f.b)
	}
}

func damage(f fld, class string, rnd *rand.Rand) fld {
	switch f.kind {
	case "i32", "i64":
		switch class {
		case "zero":
			f.i = 0
		case "minus-one":
			f.i = -1
		case "int-min":
			f.i = -2147483648
		case "plus-one":
			f.i++
		case "minus-one-rel":
			f.i--
		case "huge":
			f.i = 1000000
		case "wrong-type":
			// text where a binary integer belongs (kept below 2^20 as a count: "ab\0\0")
			return fld{name: f.name, kind: "bytes", b: []byte{'a', 'b', 0, 0}}
		case "garbage":
			// a random value; count-like fields stay below 2^20 unless negative (C08's domain)
			if rnd.Intn(2) == 0 {
				f.i = int64(rnd.Intn(1 << 20))
			} else {
				f.i = -1 - int64(rnd.Intn(1<<31-1))
			}
		}
		if f.kind == "i64" && (class == "minus-one" || class == "int-min") {
			// a negative 64-bit quantity on the wire
			var b bytes.Buffer
			b.Write([]byte{0xff, 0xff, 0xff, 0xff})
			var q [8]byte
			binary.LittleEndian.PutUint64(q[:], uint64(f.i))
			b.Write(q[:])
			return fld{name: f.name, kind: "bytes", b: b.Bytes()}
		}
	case "byte":
		switch class {
		case "zero":
			f.i = 0
		case "minus-one":
			f.i = 0xff
		case "int-min":
			f.i = 0x80
		case "plus-one":
			f.i = (f.i + 1) & 0xff
		case "minus-one-rel":
			f.i = (f.i - 1) & 0xff
		case "huge":
			f.i = 0x7f
		case "wrong-type":
			f.i = 'x'
		case "garbage":
			f.i = int64(rnd.Intn(256))
		}
	default: // bytes, line
		nl := f.kind == "line"
		body := f.b
		if nl {
			body = f.b[:len(f.b)-1]
		}
		switch class {
		case "zero":
			body = nil
		case "minus-one":
			body = bytes.Repeat([]byte{0xff}, len(body))
		case "int-min":
			body = bytes.Repeat([]byte{0x80}, max(len(body), 1))
		case "plus-one":
			body = append(append([]byte{}, body...), 'Z')
		case "minus-one-rel":
			if len(body) > 0 {
				body = body[:len(body)-1]
			}
		case "huge":
			body = bytes.Repeat([]byte("A"), 100000)
		case "wrong-type":
			if nl {
				body = []byte{0, 1, 2, 0xfe, 0xff}
			} else {
				body = []byte("text where binary belongs")
			}
		case "garbage":
			body = make([]byte, len(body))
			rnd.Read(body)
			if nl {
				body = bytes.ReplaceAll(body, []byte("\n"), []byte("x"))
			}
		}
		f.b = body
		if nl {
			f.b = append(append([]byte{}, body...), '\n')
		}
	}
	return f
}

// waitDone waits for the victim's handler; a victim that merely waits for more
// input is released by closing our side (stalled peers are outside C08).
func waitDone(done chan error, closeFn func(), pipes []*xport.Pipe) (bool, error) {
	progress := func() int64 {
		var s int64
		for _, p := range pipes {
			_, _, _, pr := p.State()
			s += pr
		}
		return s
	}
	last := progress()
	closed := false
	var idle idleMeter
	cpu0 := processCPU()
	for {
		select {
		case err := <-done:
			return true, err
		case <-time.After(idleTick):
		}
		if processCPU()-cpu0 > 40*time.Second {
			// the victim neither ends nor rests: it has burnt 40 s of CPU on a
			// script of a few hundred bytes (a budget in CPU time, not wall time,
			// so that a loaded machine does not change the observation)
			buf := make([]byte, 1<<20)
			return false, fmt.Errorf("BUSY: the victim burnt 40 s of CPU without ending:\n%s", busySummary(string(buf[:runtime.Stack(buf, true)])))
		}
		quiet := idle.sample()
		if p := progress(); p != last {
			last = p
			idle.n = 0
			continue
		}
		if !closed && quiet >= 300*time.Millisecond {
			// nothing moves and the victim is parked: it waits for more input
			closeFn()
			closed = true
			idle.n = 0
		} else if closed && quiet >= 5*time.Second {
			return false, nil
		}
	}
}

func hostileHandler(w *workerCtx, line []byte) (any, error) {
	var s hostileScn
	if err := json.Unmarshal(line, &s); err != nil {
		return nil, err
	}
	obs := &hostileObs{ID: s.ID, Victim: s.Victim, Field: s.Field, Class: s.Class, Kind: s.Kind, Alive: true, Scn: json.RawMessage(line)}
	rnd := rand.New(rand.NewSource(s.Seed + int64(s.ID)))
	base := filepath.Join(w.dir, fmt.Sprintf("h%d", s.ID))
	defer func() { fstree.MakeWritable(base); os.RemoveAll(base) }()
	mod := filepath.Join(base, "mod")
	up := filepath.Join(base, "up")
	dest := filepath.Join(base, "dest")
	for _, d := range []string{mod, up, dest} {
		os.MkdirAll(d, 0o755)
	}
	fdata := fstree.Content(7, 1000)
	os.WriteFile(filepath.Join(mod, "f"), fdata, 0o644)
	os.WriteFile(filepath.Join(mod, "g"), []byte("gg"), 0o644)
	mods := []rsyncd.Module{{Name: "m", Path: mod}, {Name: "up", Path: up, Writable: true}}
	srv, err := rsyncd.NewServer(mods, rsyncd.WithStderr(io.Discard), rsyncd.DontRestrict())
	if err != nil {
		return nil, err
	}
	switch s.Victim {
	case "daemon-sender", "daemon-receiver":
		a, b := xport.Conn(-1, -1, nil)
		done := make(chan error, 1)
		go func() {
			conn := rsyncd.NewConnection(b, b, "10.0.0.1:1")
			err := srv.HandleDaemonConn(context.Background(), conn)
			b.Close()
			done <- err
		}()
		var script []byte
		var hit bool
		if s.Victim == "daemon-sender" {
			if s.Progress {
				s.Args = append(append([]string{}, s.Args...), "--progress")
			}
			fs := dropServer(daemonSenderScript(fdata, s.Args, s.Only), s.NoServer)
			if rt, ok := ruleText(fs, s.Field, s.Class); ok {
				script, _, _ = serialise(rt, "", "", rnd)
				hit = true
			} else {
				script, hit, _ = serialise(preDamage(fs, s.Field2, s.Class2, rnd), s.Field, s.Class, rnd)
			}
			script = applyNoise(script, &s, rnd)
			a.Write(script)
		} else {
			// two stages: the trailer of the uploaded file needs the daemon's seed
			if s.Progress {
				s.Args = append(append([]string{}, s.Args...), "--progress")
			}
			head := dropServer(daemonReceiverHead(s.Args), s.NoServer)
			hb, hit1, cut := serialise(preDamage(head, s.Field2, s.Class2, rnd), s.Field, s.Class, rnd)
			a.Write(hb)
			hit = hit1
			script = hb
			if cut < 0 {
				seed, ok := readDaemonSeed(a)
				if ok {
					body := daemonReceiverBody(seed)
					body = preDamage(body, s.Field2, s.Class2, rnd)
					bb, hit2, _ := serialise(body, s.Field, s.Class, rnd)
					if hit1 {
						bb, _, _ = serialise(body, "", "", rnd)
					}
					hit = hit1 || hit2
					bb = applyNoise(bb, &s, rnd)
					a.Write(bb)
					script = append(script, bb...)
				}
			}
		}
		obs.Hit, obs.Len = hit || s.Kind != "", len(script)
		// drain what the daemon says (error frames, ...) without blocking it
		var said bytes.Buffer
		go io.Copy(&said, a)
		ended, herr := waitDone(done, func() { a.Out.CloseWrite() }, []*xport.Pipe{a.In, a.Out})
		a.Close()
		obs.Ended = ended
		obs.Retire = !ended
		if herr != nil {
			obs.Result = herr.Error()
		} else if ended {
			obs.Result = "ok"
		}
		if i := bytes.Index(said.Bytes(), []byte("@ERROR")); i >= 0 {
			obs.Reported = strings.SplitN(string(said.Bytes()[i:]), "\n", 2)[0]
		} else if i := bytes.Index(said.Bytes(), []byte("gokr-rsync [")); i >= 0 {
			obs.Reported = strings.SplitN(string(said.Bytes()[i:]), "\n", 2)[0]
		}
		obs.NextOK = canonicalPull(srv) == nil
	case "client":
		a, b := xport.Conn(-1, -1, nil) // a: client end, b: our (server) end
		cargs := []string{"-rlto"}
		if s.Progress {
			cargs = append(cargs, "--progress")
		}
		// the library client captures os.Stdout when it is created: give it /dev/null (the worker's stdout carries results)
		savedStdout := os.Stdout
		if devnull, derr := os.OpenFile(os.DevNull, os.O_WRONLY, 0); derr == nil {
			os.Stdout = devnull
			defer devnull.Close()
		}
		cl, err := rsyncclient.New(cargs, rsyncclient.DontRestrict(), rsyncclient.WithStderr(io.Discard))
		os.Stdout = savedStdout
		if err != nil {
			return nil, err
		}
		done := make(chan error, 1)
		go func() {
			_, err := cl.Run(context.Background(), a, []string{dest})
			a.Close()
			done <- err
		}()
		fs := clientScript(fdata)
		if s.Kind == "bigframe" {
			// version, seed, then ONE data frame of s.Frame bytes (a file list that never ends), all delivered
			fs = []fld{fI("version", 27), fI("seed", 4711), fY("h0", byte(s.Frame)), fY("h1", byte(s.Frame>>8)), fY("h2", byte(s.Frame>>16)), fY("h3", 7),
				fB("payload", bytes.Repeat([]byte{0x40, 1, 0, 0, 0, 'x', 0, 0, 0, 0, 0, 0, 0, 0, 0xa4, 0x81, 0, 0}, s.Frame/18+1)[:s.Frame])}
		}
		script, hit, _ := serialise(preDamage(fs, s.Field2, s.Class2, rnd), s.Field, s.Class, rnd)
		script = applyNoise(script, &s, rnd)
		obs.Hit, obs.Len = hit || s.Kind != "", len(script)
		b.Write(script)
		go io.Copy(io.Discard, b)
		ended, herr := waitDone(done, func() { b.Out.CloseWrite() }, []*xport.Pipe{b.In, b.Out})
		b.Close()
		obs.Ended = ended
		obs.Retire = !ended
		if herr != nil {
			obs.Result = herr.Error()
		} else if ended {
			obs.Result = "ok"
		}
		obs.NextOK = true
	}
	if len(obs.Result) > 300 {
		obs.Result = obs.Result[:300]
	}
	return obs, nil
}

func applyNoise(script []byte, s *hostileScn, rnd *rand.Rand) []byte {
	switch s.Kind {
	case "cut":
		if s.Cut < len(script) {
			return script[:s.Cut]
		}
	case "noise":
		out := append([]byte{}, script...)
		// overwrite a random span with random bytes, or insert / delete some
		if len(out) > 0 {
			at := rnd.Intn(len(out))
			n := 1 + rnd.Intn(16)
			switch rnd.Intn(3) {
			case 0:
				for i := at; i < len(out) && i < at+n; i++ {
					out[i] = byte(rnd.Intn(256))
				}
			case 1:
				junk := make([]byte, n)
				rnd.Read(junk)
				out = append(out[:at], append(junk, out[at:]...)...)
			case 2:
				out = append(out[:at], out[min(at+n, len(out)):]...)
			}
		}
		return out
	}
	return script
}

// dropServer removes the "--server" argument line.
func dropServer(fs []fld, drop bool) []fld {
	if !drop {
		return fs
	}
	var out []fld
	for _, f := range fs {
		if f.name != "args.server" {
			out = append(out, f)
		}
	}
	return out
}

func daemonSenderScript(fdata []byte, extra []string, only bool) []fld {
	fs := []fld{fL("greeting", "@RSYNCD: 27"), fL("module", "m")}
	if !only {
		fs = append(fs, fL("args.server", "--server"), fL("args.sender", "--sender"))
	}
	for _, a := range extra {
		fs = append(fs, fL("args.extra", a))
	}
	if !only {
		fs = append(fs, fL("args.flags", "-rt"), fL("args.dot", "."), fL("args.path", "m/"))
	}
	fs = append(fs, fL("args.end", ""))
	rule := []byte("- zzz")
	fs = append(fs, fI("filter.len", int64(len(rule))), fB("filter.rule", rule), fI("filter.end", 0))
	// request file f (index 1 of ".", "f", "g") with two block sums of an unrelated basis
	basis := fstree.Content(8, 1000)
	head, sums := wirekit.Sums(0, basis, 700, 16)
	fs = append(fs, fI("req.index", 1), fI("req.count", int64(head.Count)), fI("req.blk", int64(head.Blk)), fI("req.s2", int64(head.S2)), fI("req.rem", int64(head.Rem)))
	for _, sm := range sums {
		fs = append(fs, fI("req.weak", int64(int32(sm.Weak))), fB("req.strong", sm.Strong[:]))
	}
	fs = append(fs, fI("phase1", -1), fI("phase2", -1), fI("goodbye", -1))
	return fs
}

func daemonReceiverHead(extra []string) []fld {
	fs := []fld{fL("greeting", "@RSYNCD: 27"), fL("module", "up"), fL("args.server", "--server")}
	for _, a := range extra {
		fs = append(fs, fL("args.extra", a))
	}
	fs = append(fs, fL("args.flags", "-rlt"), fL("args.dot", "."), fL("args.path", "up/"), fL("args.end", ""))
	return fs
}

func listFields(withUID bool) []fld {
	var fs []fld
	ent := func(name string, mode int32, size int64, link string, flags byte) {
		fs = append(fs, fY("list.flags", flags), fI("list.namelen", int64(len(name))), fB("list.name", []byte(name)), f64("list.size", size),
			fI("list.mtime", 1_500_000_000), fI("list.mode", int64(mode)))
		if withUID {
			fs = append(fs, fI("list.uid", 1234))
		}
		if link != "" {
			fs = append(fs, fI("list.linklen", int64(len(link))), fB("list.link", []byte(link)))
		}
	}
	// (the wire order of a file list is free: the regular file comes first, so that a mutation of "list.<field>",
	// which damages the FIRST field of that name, hits the entry whose data follows)
	ent("f", wirekit.SIFREG|0o644, 1000, "", 0x40)
	// an entry that shares its first byte with the previous name (XMIT_SAME_NAME | XMIT_LONG_NAME): "fd", a directory
	fs = append(fs, fY("list2.flags", 0x60), fY("list2.l1", 1), fI("list2.namelen", 1), fB("list2.name", []byte("d")), f64("list2.size", 4096),
		fI("list2.mtime", 1_500_000_000), fI("list2.mode", int64(wirekit.SIFDIR|0o755)))
	if withUID {
		fs = append(fs, fI("list2.uid", 1234))
	}
	ent(".", wirekit.SIFDIR|0o755, 4096, "", 0x41)
	ent("l", wirekit.SIFLNK|0o777, 1, "f", 0x40)
	fs = append(fs, fY("list.end", 0))
	if withUID {
		fs = append(fs, fI("idlist.id", 1234), fY("idlist.len", 4), fB("idlist.name", []byte("user")), fI("idlist.end", 0))
	}
	fs = append(fs, fI("list.ioerr", 0))
	return fs
}

func dataFields(seed int32, fdata []byte) []fld {
	sum := wirekit.FileSum(seed, fdata)
	return []fld{fI("data.index", 1), fI("data.count", 0), fI("data.blk", 700), fI("data.s2", 16), fI("data.rem", 0),
		fI("data.toklen", 600), fB("data.tok", fdata[:600]), fI("data.toklen2", 400), fB("data.tok2", fdata[600:]),
		fI("data.end", 0), fB("data.sum", sum[:]), fI("phase1", -1), fI("phase2", -1)}
}

func readDaemonSeed(a *xport.End) (int32, bool) {
	// "@RSYNCD: 27\n" "@RSYNCD: OK\n" then 4 bytes
	type res struct {
		seed int32
		ok   bool
	}
	ch := make(chan res, 1)
	go func() {
		rd := bufio.NewReader(a)
		for i := 0; i < 2; i++ {
			l, err := rd.ReadString('\n')
			if err != nil || strings.HasPrefix(l, "@ERROR") {
				ch <- res{}
				return
			}
		}
		var b [4]byte
		if _, err := io.ReadFull(rd, b[:]); err != nil {
			ch <- res{}
			return
		}
		ch <- res{int32(binary.LittleEndian.Uint32(b[:])), true}
	}()
	select {
	case r := <-ch:
		return r.seed, r.ok
	case <-idleAfter(2 * time.Second):
		return 0, false
	}
}

func daemonReceiverBody(seed int32) []fld {
	fdata := fstree.Content(7, 1000)
	fs := listFields(false)
	// with a literal replaced by a block reference the receiver has no basis for
	d := dataFields(seed, fdata)
	fs = append(fs, d[:7]...)
	fs = append(fs, fI("data.ref", 400)) // stands for toklen2 (a literal of 400 bytes follows)
	fs = append(fs, d[8:]...)
	return fs
}

func clientScript(fdata []byte) []fld {
	seed := int32(4711)
	var payload bytes.Buffer
	inner := append(listFields(true), dataFields(seed, fdata)...)
	inner = append(inner, fI("stats", 1), fI("stats2", 2), fI("stats3", 3))
	_ = payload
	// everything after the seed travels in ONE data frame whose header is two more fields
	var body bytes.Buffer
	for _, f := range inner {
		writeField(&body, f)
	}
	fs := []fld{fI("version", 27), fI("seed", int64(seed)), fY("mux.len0", byte(body.Len())), fY("mux.len1", byte(body.Len()>>8)), fY("mux.len", byte(body.Len()>>16)), fY("mux.tag", 7)}
	fs = append(fs, inner...)
	return fs
}

// canonicalPull: a valid request by another client must still be served.
func canonicalPull(srv *rsyncd.Server) error {
	a, b := xport.Conn(-1, -1, nil)
	done := make(chan error, 1)
	go func() {
		conn := rsyncd.NewConnection(b, b, "10.0.0.2:2")
		err := srv.HandleDaemonConn(context.Background(), conn)
		b.Close()
		done <- err
	}()
	defer a.Close()
	errc := make(chan error, 1)
	go func() {
		rd := bufio.NewReader(a)
		fmt.Fprintf(a, "@RSYNCD: 27\nm\n")
		if _, err := rd.ReadString('\n'); err != nil {
			errc <- err
			return
		}
		l, err := rd.ReadString('\n')
		if err != nil || strings.TrimSpace(l) != "@RSYNCD: OK" {
			errc <- fmt.Errorf("reply %q %v", l, err)
			return
		}
		fmt.Fprintf(a, "--server\n--sender\n-r\n.\nm/\n\n")
		r0 := &wirekit.R{R: rd}
		if _, err := r0.Int32(); err != nil {
			errc <- err
			return
		}
		dm := &wirekit.Demux{R: rd}
		in := &wirekit.R{R: dm}
		out := &wirekit.W{W: a}
		out.Int32(0)
		fl, err := in.DecodeList(wirekit.ListOpts{})
		if err != nil {
			errc <- err
			return
		}
		if len(fl.Entries) != 3 {
			errc <- fmt.Errorf("canonical listing has %d entries", len(fl.Entries))
			return
		}
		out.Int32(-1)
		in.Int32()
		out.Int32(-1)
		in.Int32()
		for i := 0; i < 3; i++ {
			in.Int64()
		}
		out.Int32(-1)
		errc <- nil
	}()
	select {
	case err := <-errc:
		return err
	case <-idleAfter(10 * time.Second):
		return fmt.Errorf("canonical request timed out")
	}
}

// processCPU is the CPU time (user + system) this process has consumed.
func processCPU() time.Duration {
	var ru syscall.Rusage
	if err := syscall.Getrusage(syscall.RUSAGE_SELF, &ru); err != nil {
		return 0
	}
	return time.Duration(ru.Utime.Nano() + ru.Stime.Nano())
}

// busySummary lists, from a goroutine dump, the frames of the system under
// test in goroutines that are running or runnable.
func busySummary(dump string) string {
	var out []string
	for _, g := range strings.Split(dump, "\n\n") {
		if !strings.Contains(g, "[runnable") && !strings.Contains(g, "[running") {
			continue
		}
		var fr []string
		for _, l := range strings.Split(g, "\n") {
			if strings.Contains(l, "gokrazy/rsync/") && !strings.Contains(l, "verifharness") && !strings.HasPrefix(l, "\t") {
				if i := strings.LastIndex(l, "("); i > 0 {
					l = l[:i]
				}
				fr = append(fr, strings.TrimPrefix(strings.TrimSpace(l), "github.com/gokrazy/rsync/"))
			}
		}
		if len(fr) > 0 {
			if len(fr) > 4 {
				fr = fr[:4]
			}
			out = append(out, "busy in "+strings.Join(fr, " <- "))
		}
	}
	return strings.Join(out, "\n")
}
