package main

import "syscall"

var sigquit = syscall.SIGQUIT
