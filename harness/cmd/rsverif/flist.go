package main

import (
	"bytes"
	"encoding/json"
	"fmt"
	"io"
	"math/rand"
	"os"
	"path/filepath"
	"sort"
	"strings"
	"syscall"
	"time"

	"github.com/gokrazy/rsync/internal/receiver"
	"github.com/gokrazy/rsync/internal/rsyncopts"
	"github.com/gokrazy/rsync/internal/rsyncwire"
	"github.com/gokrazy/rsync/rsyncd"
	"github.com/gokrazy/rsync/verifharness/drv"
	"github.com/gokrazy/rsync/verifharness/fstree"
	"github.com/gokrazy/rsync/verifharness/wirekit"
)

// flistScn: the file-list wire format (C15).
//
//	mode "decode": Bytes (an encoding produced by Proto27MC) is fed to the real ReceiveFileList
//	mode "encode": the real sender lists a small tree; the raw list bytes go back for TLC to decode
//	mode "big":    large lists through both routes, judged by the reference codec (wirekit)
type flistScn struct {
	ID      int             `json:"id"`
	Mode    string          `json:"mode"`
	Opts    flOpts          `json:"opts"`
	Bytes   []int           `json:"bytes"`
	Tree    []fstree.Node   `json:"tree"`
	N       int             `json:"n"`       // big: number of entries
	Seed    int64           `json:"seed"`    // big
	Entries json.RawMessage `json:"entries"` // decode: the entries the spec encoded (echoed)
}

type flOpts struct {
	UID      bool `json:"uid"`
	GID      bool `json:"gid"`
	Links    bool `json:"links"`
	Devices  bool `json:"devices"`
	Specials bool `json:"specials"`
	Checksum bool `json:"checksum"`
}

type flEntry struct {
	Name  []int `json:"name"`
	Size  []int `json:"size"` // four 16-bit limbs
	Mtime int64 `json:"mtime"`
	Mode  int32 `json:"mode"`
	UID   int32 `json:"uid"`
	GID   int32 `json:"gid"`
	Rdev  int32 `json:"rdev"`
	Link  []int `json:"link"`
	Sum   []int `json:"sum"`
}

type flistObs struct {
	ID      int             `json:"id"`
	Mode    string          `json:"mode"`
	Opts    flOpts          `json:"opts"`
	Bytes   []int           `json:"bytes"`
	Err     string          `json:"err"`
	Decoded []flEntry       `json:"decoded"` // decode: what the real receiver made of Bytes; encode: the tree as lstat sees it
	IOErr   int32           `json:"ioerr"`
	Entries json.RawMessage `json:"entries"`
	// big
	N        int    `json:"n"`
	Mismatch int    `json:"mismatch"`
	First    string `json:"first"`
}

func init() { handlers["flist"] = flistHandler }

func bytesToInts(b []byte) []int {
	out := make([]int, len(b))
	for i, c := range b {
		out[i] = int(c)
	}
	return out
}

func limbs(v int64) []int {
	u := uint64(v)
	return []int{int(u & 0xffff), int(u >> 16 & 0xffff), int(u >> 32 & 0xffff), int(u >> 48 & 0xffff)}
}

func realDecode(enc []byte, o flOpts) ([]*receiver.File, int32, error) {
	rt := &receiver.Transfer{
		Logger: discardLogger{},
		Opts: &receiver.TransferOpts{PreserveUid: o.UID, PreserveGid: o.GID, PreserveLinks: o.Links, PreserveDevices: o.Devices,
			PreserveSpecials: o.Specials, AlwaysChecksum: o.Checksum,
			InfoGTE:  func(rsyncopts.InfoLevel, uint16) bool { return false },
			DebugGTE: func(rsyncopts.DebugLevel, uint16) bool { return false }},
		Conn: &rsyncwire.Conn{Reader: bytes.NewReader(enc), Writer: io.Discard},
	}
	fl, err := rt.ReceiveFileList()
	return fl, rt.IOErrors, err
}

type discardLogger struct{}

func (discardLogger) Printf(string, ...any)    {}
func (discardLogger) Output(int, string) error { return nil }

func toEntries(fl []*receiver.File, o flOpts) []flEntry {
	out := []flEntry{}
	for _, f := range fl {
		e := flEntry{Name: bytesToInts([]byte(f.Name)), Size: limbs(f.Length), Mtime: f.ModTime.Unix(), Mode: f.Mode, UID: f.Uid, GID: f.Gid,
			Rdev: f.Rdev, Link: bytesToInts([]byte(f.LinkTarget)), Sum: []int{}}
		if o.Checksum {
			e.Sum = bytesToInts(f.Checksum[:])
		}
		out = append(out, e)
	}
	return out
}

func flistHandler(w *workerCtx, line []byte) (any, error) {
	var s flistScn
	if err := json.Unmarshal(line, &s); err != nil {
		return nil, err
	}
	obs := &flistObs{ID: s.ID, Mode: s.Mode, Opts: s.Opts, Bytes: []int{}, Decoded: []flEntry{}, Entries: s.Entries}
	if obs.Entries == nil {
		obs.Entries = json.RawMessage("[]")
	}
	switch s.Mode {
	case "decode":
		enc := make([]byte, len(s.Bytes))
		for i, v := range s.Bytes {
			enc[i] = byte(v)
		}
		obs.Bytes = s.Bytes
		fl, ioerr, err := realDecode(enc, s.Opts)
		if err != nil {
			obs.Err = err.Error()
			return obs, nil
		}
		obs.Decoded, obs.IOErr = toEntries(fl, s.Opts), ioerr
	case "encode":
		return flistEncode(w, &s, obs)
	case "big":
		return flistBig(w, &s, obs)
	}
	return obs, nil
}

// flistEncode: the real sender lists a tree; capture the exact bytes of the list.
func flistEncode(w *workerCtx, s *flistScn, obs *flistObs) (any, error) {
	base := filepath.Join(w.dir, fmt.Sprintf("fl%d", s.ID))
	defer func() { fstree.MakeWritable(base); os.RemoveAll(base) }()
	tree := filepath.Join(base, "t")
	os.MkdirAll(tree, 0o755)
	if err := fstree.Build(tree, s.Tree); err != nil {
		return nil, err
	}
	flags := "-r"
	for _, x := range []struct {
		on bool
		f  string
	}{{s.Opts.Links, "l"}, {s.Opts.UID, "o"}, {s.Opts.GID, "g"}, {s.Opts.Checksum, "c"}} {
		if x.on {
			flags += x.f
		}
	}
	args := []string{"--server", "--sender", flags}
	if s.Opts.Devices && s.Opts.Specials {
		args = append(args, "-D")
	} else if s.Opts.Devices {
		args = append(args, "--devices")
	} else if s.Opts.Specials {
		args = append(args, "--specials")
	}
	args = append(args, ".", ".")
	srv, err := drv.NewServer(nil, nil)
	if err != nil {
		return nil, err
	}
	p := drv.StartCommand(srv, &rsyncd.Module{Name: "m", Path: tree}, args, -1, -1, nil)
	defer p.End.Close()
	cs, err := drv.CommandHandshake(p)
	if err != nil {
		return nil, err
	}
	cs.Up.Int32(0)
	var raw bytes.Buffer
	tee := &wirekit.R{R: io.TeeReader(cs.Demux, &raw)}
	lo := wirekit.ListOpts{UID: s.Opts.UID, GID: s.Opts.GID, Links: s.Opts.Links, Devices: s.Opts.Devices, Specials: s.Opts.Specials, Checksum: s.Opts.Checksum}
	if _, err := tee.DecodeList(lo); err != nil {
		obs.Err = "reference decoder: " + err.Error()
	}
	obs.Bytes = bytesToInts(raw.Bytes())
	// end the session politely
	cs.Up.Int32(-1)
	cs.Down.Int32()
	cs.Up.Int32(-1)
	cs.Down.Int32()
	for i := 0; i < 3; i++ {
		cs.Down.Int64()
	}
	cs.Up.Int32(-1)
	select {
	case <-p.Done:
	case <-idleAfter(10 * time.Second):
	}
	// what the tree looks like to lstat (the entries the list must describe)
	filepath.Walk(tree, func(pth string, info os.FileInfo, err error) error {
		if err != nil {
			return nil
		}
		rel, _ := filepath.Rel(tree, pth)
		st := info.Sys().(*syscall.Stat_t)
		e := flEntry{Name: bytesToInts([]byte(rel)), Size: limbs(info.Size()), Mtime: info.ModTime().Unix(), Mode: int32(st.Mode), Link: []int{}, Sum: []int{}}
		if info.IsDir() {
			e.Size = limbs(4096)
		}
		if s.Opts.UID {
			e.UID = int32(st.Uid)
		}
		if s.Opts.GID {
			e.GID = int32(st.Gid)
		}
		isDev := st.Mode&syscall.S_IFMT == syscall.S_IFCHR || st.Mode&syscall.S_IFMT == syscall.S_IFBLK
		isSpec := st.Mode&syscall.S_IFMT == syscall.S_IFIFO || st.Mode&syscall.S_IFMT == syscall.S_IFSOCK
		if (s.Opts.Devices && isDev) || (s.Opts.Specials && isSpec) {
			e.Rdev = int32(st.Rdev)
		}
		if s.Opts.Links && info.Mode()&os.ModeSymlink != 0 {
			t, _ := os.Readlink(pth)
			e.Link = bytesToInts([]byte(t))
		}
		if s.Opts.Checksum {
			var sum [16]byte
			if info.Mode().IsRegular() {
				b, _ := os.ReadFile(pth)
				sum = wirekit.PlainMD4(b)
			}
			e.Sum = bytesToInts(sum[:])
		}
		obs.Decoded = append(obs.Decoded, e)
		return nil
	})
	return obs, nil
}

// flistBig: lists too large for TLC: the reference encoder (all compressions)
// into the real decoder, and the real sender's list into the reference decoder.
func flistBig(w *workerCtx, s *flistScn, obs *flistObs) (any, error) {
	r := rand.New(rand.NewSource(s.Seed))
	lo := wirekit.ListOpts{UID: s.Opts.UID, GID: s.Opts.GID, Links: s.Opts.Links, Devices: s.Opts.Devices, Specials: s.Opts.Specials, Checksum: s.Opts.Checksum}
	fl := &wirekit.FileList{}
	seen := map[string]bool{}
	dirs := []string{""}
	for len(fl.Entries) < s.N {
		dir := dirs[r.Intn(len(dirs))]
		nl := 1 + r.Intn(12)
		if r.Intn(50) == 0 {
			nl = 200 + r.Intn(55)
		}
		nb := make([]byte, nl)
		for i := range nb {
			c := byte(1 + r.Intn(255))
			if c == '/' {
				c = 'x'
			}
			nb[i] = c
		}
		name := dir + string(nb)
		if len(name) > 4000 || seen[name] || filepath.Clean(name) != name {
			continue
		}
		seen[name] = true
		e := wirekit.Entry{Name: name, Mtime: int32(r.Uint32()), UID: int32(r.Intn(3) * 1000), GID: int32(r.Intn(2) * 1000)}
		switch r.Intn(8) {
		case 0:
			e.Mode, e.Size = wirekit.SIFDIR|int32(r.Intn(512)), 4096
			if len(name) < 3500 {
				dirs = append(dirs, name+"/")
			}
		case 1:
			e.Mode = wirekit.SIFLNK | 0o777
			t := make([]byte, 1+r.Intn(40))
			r.Read(t)
			e.Link = string(t)
		case 2:
			e.Mode, e.Rdev = wirekit.SIFCHR|int32(r.Intn(512)), int32(r.Intn(1<<20))
		case 3:
			e.Mode = wirekit.SIFIFO | int32(r.Intn(512))
		default:
			e.Mode = wirekit.SIFREG | int32(r.Intn(512))
			e.Size = []int64{0, 1, 1<<31 - 1, 1 << 31, 1 << 40, int64(r.Intn(1 << 30))}[r.Intn(6)]
		}
		r.Read(e.Sum[:])
		if !e.IsReg() {
			e.Sum = [16]byte{}
		}
		fl.Entries = append(fl.Entries, e)
	}
	// the longest names a protocol-27 sender may send: MAXPATHLEN is 4096 including the terminating NUL, so 4095 bytes;
	// with its neighbours 4093 and 4094 (path-like: a slash every 200 bytes; bytes >= 0x80 in the last component)
	for _, total := range []int{4093, 4094, 4095} {
		nb := make([]byte, total)
		for i := range nb {
			switch {
			case i%200 == 199 && i < total-1:
				nb[i] = '/'
			case i > total-100:
				nb[i] = byte(0x80 + (i+total)%0x7f)
			default:
				nb[i] = byte('a' + (i+total)%26)
			}
		}
		e := wirekit.Entry{Name: string(nb), Mtime: int32(r.Uint32()), Mode: wirekit.SIFREG | 0o644, Size: int64(total)}
		r.Read(e.Sum[:])
		if !seen[e.Name] && filepath.Clean(e.Name) == e.Name {
			seen[e.Name] = true
			fl.Entries = append(fl.Entries, e)
		}
	}
	comp := wirekit.FullCompression
	if s.Seed%3 == 1 {
		comp = wirekit.NoCompression
	} else if s.Seed%3 == 2 {
		comp = wirekit.Compression{SameName: true, ShortName: r.Intn(2) == 0, SameMode: r.Intn(2) == 0, SameTime: r.Intn(2) == 0, SameUID: true, SameGID: r.Intn(2) == 0, SameRdev: r.Intn(2) == 0}
	}
	var buf bytes.Buffer
	wr := &wirekit.W{W: &buf}
	wr.EncodeList(fl, lo, comp)
	got, _, err := realDecode(buf.Bytes(), s.Opts)
	obs.N = len(fl.Entries)
	if err != nil {
		obs.Err = err.Error()
		obs.Mismatch = obs.N
		return obs, nil
	}
	want := fl.SortedEntries()
	if len(got) != len(want) {
		obs.Mismatch = obs.N
		obs.First = fmt.Sprintf("%d entries decoded, %d sent", len(got), len(want))
		return obs, nil
	}
	sort.SliceStable(got, func(i, j int) bool { return got[i].Name < got[j].Name })
	for i, e := range want {
		g := got[i]
		ok := g.Name == e.Name && g.Length == e.Size && int32(g.ModTime.Unix()) == e.Mtime && g.Mode == e.Mode
		if lo.UID {
			ok = ok && g.Uid == e.UID
		}
		if lo.GID {
			ok = ok && g.Gid == e.GID
		}
		if e.HasRdev(lo) {
			ok = ok && g.Rdev == e.Rdev
		}
		if lo.Links && e.IsLink() {
			ok = ok && g.LinkTarget == e.Link
		}
		if lo.Checksum {
			ok = ok && g.Checksum == e.Sum
		}
		if !ok {
			obs.Mismatch++
			if obs.First == "" {
				obs.First = fmt.Sprintf("entry %d: sent %+v, decoded %+v", i, e, *g)
				if len(obs.First) > 600 {
					obs.First = obs.First[:600]
				}
			}
		}
	}
	return obs, nil
}

var _ = strings.Join
