// rsverif is the Go side of the verification harness: it concretises
// TLC-generated scenarios, drives the real gokrazy/rsync code with them and
// records what the code did as NDJSON traces for TLC to validate.
//
//	rsverif run <kind> -in scen.ndjson -out obs.ndjson [-workers N]
//	rsverif worker <kind>          (internal: one scenario per stdin line)
//	rsverif gen <kind> ...         (concrete-domain generators)
package main

import (
	"bufio"
	"bytes"
	"encoding/json"
	"flag"
	"fmt"
	"io"
	"os"
	"os/exec"
	"runtime"
	"strings"
	"sync"
	"time"
)

// handler turns one scenario line into one observation (any JSON-able value).
type handler func(w *workerCtx, line []byte) (any, error)

type workerCtx struct {
	dir string // private scratch directory of this worker
}

var handlers = map[string]handler{}

// generators: rsverif gen <kind> -out file [flags]
var generators = map[string]func(args []string) error{}

func main() {
	if len(os.Args) < 3 {
		fmt.Fprintln(os.Stderr, "usage: rsverif run|worker|gen <kind> ...")
		os.Exit(2)
	}
	switch os.Args[1] {
	case "idletest":
		idleTest()
	case "worker":
		workerMain(os.Args[2])
	case "run":
		runMain(os.Args[2], os.Args[3:])
	case "gen":
		g, ok := generators[os.Args[2]]
		if !ok {
			fmt.Fprintln(os.Stderr, "unknown generator", os.Args[2])
			os.Exit(2)
		}
		if err := g(os.Args[3:]); err != nil {
			fmt.Fprintln(os.Stderr, "gen:", err)
			os.Exit(2)
		}
	default:
		fmt.Fprintln(os.Stderr, "unknown mode", os.Args[1])
		os.Exit(2)
	}
}

func workerMain(kind string) {
	h, ok := handlers[kind]
	if !ok {
		fmt.Fprintln(os.Stderr, "unknown kind", kind)
		os.Exit(2)
	}
	base := os.Getenv("RSVERIF_SCRATCH")
	if base == "" {
		base = os.TempDir()
	}
	var dir string
	var err error
	if d := os.Getenv("RSVERIF_WDIR"); d != "" {
		// the parent owns (and removes) the directory, also when we crash
		dir = d
		err = os.MkdirAll(dir, 0o755)
	} else {
		dir, err = os.MkdirTemp(base, "w-"+kind+"-")
	}
	if err != nil {
		fmt.Fprintln(os.Stderr, err)
		os.Exit(2)
	}
	defer os.RemoveAll(dir)
	ctx := &workerCtx{dir: dir}
	in := bufio.NewReaderSize(os.Stdin, 1<<20)
	// the protocol channel is the original stdout; the code under test may
	// print to os.Stdout (e.g. file names in a dry run): send that to stderr
	proto := os.Stdout
	os.Stdout = os.Stderr
	out := bufio.NewWriter(proto)
	for {
		line, err := in.ReadBytes('\n')
		if len(bytes.TrimSpace(line)) > 0 {
			caseT0 := time.Now()
			res, herr := h(ctx, bytes.TrimSpace(line))
			if f := os.Getenv("RSVERIF_DBG"); f != "" && time.Since(caseT0) > 3*time.Second {
				// debugging aid: which scenarios are slow
				if fh, err := os.OpenFile(f, os.O_APPEND|os.O_CREATE|os.O_WRONLY, 0o644); err == nil {
					fmt.Fprintf(fh, "%.1fs goroutines=%d %s\n", time.Since(caseT0).Seconds(), runtime.NumGoroutine(), bytes.TrimSpace(line))
					fh.Close()
				}
			}
			if herr != nil {
				res = map[string]any{"harness_error": herr.Error(), "scn": json.RawMessage(bytes.TrimSpace(line))}
			}
			b, merr := json.Marshal(res)
			if merr != nil {
				b, _ = json.Marshal(map[string]any{"harness_error": merr.Error()})
			}
			out.Write(b)
			out.WriteByte('\n')
			out.Flush()
		}
		if err != nil {
			break
		}
	}
	os.RemoveAll(dir)
}

// ring keeps the end of a worker's stderr and, separately, the beginning of its last crash report ("panic: ..." /
// "fatal error: ..." and what follows): with every goroutine dumped, the reason is far above the last 8 KiB.
type ring struct {
	mu      sync.Mutex
	buf     []byte
	crash   []byte
	inCrash bool
}

func (r *ring) Write(p []byte) (int, error) {
	r.mu.Lock()
	if !r.inCrash {
		for _, m := range []string{"fatal error: ", "panic: "} {
			if i := bytes.Index(p, []byte(m)); i >= 0 && (i == 0 || p[i-1] == '\n') {
				r.inCrash, r.crash = true, nil
				r.crash = append(r.crash, p[i:]...)
				break
			}
		}
	} else if len(r.crash) < 2500 {
		r.crash = append(r.crash, p...)
	}
	if len(r.crash) > 2500 {
		r.crash = r.crash[:2500]
	}
	r.buf = append(r.buf, p...)
	if len(r.buf) > 8192 {
		r.buf = r.buf[len(r.buf)-8192:]
	}
	r.mu.Unlock()
	return len(p), nil
}
func (r *ring) String() string {
	r.mu.Lock()
	defer r.mu.Unlock()
	return string(r.buf)
}

// CrashHead returns the beginning of the last crash report, if any.
func (r *ring) CrashHead() string {
	r.mu.Lock()
	defer r.mu.Unlock()
	return string(r.crash)
}

type child struct {
	dir    string
	cmd    *exec.Cmd
	stdin  io.WriteCloser
	stdout *bufio.Reader
	stderr *ring
}

func startChild(kind string) (*child, error) {
	cmd := exec.Command(os.Args[0], "worker", kind)
	base := os.Getenv("RSVERIF_SCRATCH")
	if base == "" {
		base = os.TempDir()
	}
	dir, err := os.MkdirTemp(base, "w-"+kind+"-")
	if err != nil {
		return nil, err
	}
	procs := os.Getenv("RSVERIF_WORKER_PROCS")
	if procs == "" {
		procs = "2"
	}
	cmd.Env = append(os.Environ(), "RSVERIF_WDIR="+dir, "GOMAXPROCS="+procs)
	stdin, err := cmd.StdinPipe()
	if err != nil {
		return nil, err
	}
	stdout, err := cmd.StdoutPipe()
	if err != nil {
		return nil, err
	}
	r := &ring{}
	cmd.Stderr = r
	if err := cmd.Start(); err != nil {
		return nil, err
	}
	return &child{dir: dir, cmd: cmd, stdin: stdin, stdout: bufio.NewReaderSize(stdout, 1<<20), stderr: r}, nil
}

func (c *child) stop() {
	c.stdin.Close()
	done := make(chan struct{})
	go func() { c.cmd.Wait(); close(done) }()
	select {
	case <-done:
	case <-time.After(5 * time.Second):
		c.cmd.Process.Kill()
		<-done
	}
	c.rmdir()
}

func (c *child) rmdir() {
	exec.Command("chmod", "-R", "u+rwx", c.dir).Run()
	os.RemoveAll(c.dir)
}

func runMain(kind string, args []string) {
	fs := flag.NewFlagSet("run", flag.ExitOnError)
	inFn := fs.String("in", "", "scenario NDJSON")
	outFn := fs.String("out", "", "observation NDJSON")
	nw := fs.Int("workers", runtime.NumCPU(), "worker subprocesses")
	perCase := fs.Duration("timeout", 120*time.Second, "per-case timeout (worker is killed)")
	fs.Parse(args)
	if _, ok := handlers[kind]; !ok {
		fmt.Fprintln(os.Stderr, "unknown kind", kind)
		os.Exit(2)
	}
	in, err := os.Open(*inFn)
	if err != nil {
		fmt.Fprintln(os.Stderr, err)
		os.Exit(2)
	}
	defer in.Close()
	outF, err := os.Create(*outFn)
	if err != nil {
		fmt.Fprintln(os.Stderr, err)
		os.Exit(2)
	}
	out := bufio.NewWriterSize(outF, 1<<20)
	var outMu sync.Mutex
	lines := make(chan []byte, 64)
	var wg sync.WaitGroup
	var crashed, timedOut, retried int64
	var cmu sync.Mutex
	for i := 0; i < *nw; i++ {
		wg.Add(1)
		go func() {
			defer wg.Done()
			var c *child
			defer func() {
				if c != nil {
					c.stop()
				}
			}()
			for line := range lines {
				type resp struct {
					b   []byte
					err error
				}
				var r resp
				// A case whose handler does not return in time is tried once more in a
				// fresh worker with three times the limit: only a second time-out is
				// reported as "hung" (a slow machine is not an observation).
				for attempt := 0; attempt < 2; attempt++ {
					if c == nil {
						var err error
						c, err = startChild(kind)
						if err != nil {
							fmt.Fprintln(os.Stderr, "start worker:", err)
							os.Exit(2)
						}
					}
					limit := *perCase
					if attempt > 0 {
						limit *= 3
					}
					ch := make(chan resp, 1)
					cc := c
					go func() {
						if _, err := cc.stdin.Write(append(line, '\n')); err != nil {
							ch <- resp{nil, err}
							return
						}
						b, err := cc.stdout.ReadBytes('\n')
						ch <- resp{b, err}
					}()
					to := false
					select {
					case r = <-ch:
					case <-time.After(limit):
						to = true
						// collect goroutine dump: SIGQUIT makes the Go runtime print stacks
						cc.cmd.Process.Signal(sigquit)
						time.Sleep(500 * time.Millisecond)
						cc.cmd.Process.Kill()
						r = <-ch
					}
					if r.err == nil && !to {
						if bytes.Contains(r.b, []byte(`"retire_worker":true`)) {
							// the case left a victim behind that still runs (or hangs) in this
							// worker: the next case gets a fresh process
							cc.cmd.Process.Kill()
							cc.cmd.Wait()
							cc.rmdir()
							c = nil
						}
						break
					}
					// worker died (or was killed): that is an observation
					cc.cmd.Wait()
					death := deathSnapshot(line, cc.dir)
					cc.rmdir()
					st := cc.stderr.String()
					c = nil
					if to && attempt == 0 {
						cmu.Lock()
						retried++
						cmu.Unlock()
						continue
					}
					obs := map[string]any{
						"scn":     json.RawMessage(line),
						"crashed": !to,
						"hung":    to,
						"stderr":  crashText(cc.stderr.CrashHead(), tail(st, 3000)),
					}
					if death != nil {
						obs["death"] = death
					}
					b, _ := json.Marshal(obs)
					r.b = append(b, '\n')
					cmu.Lock()
					if to {
						timedOut++
					} else {
						crashed++
					}
					cmu.Unlock()
					break
				}
				outMu.Lock()
				out.Write(r.b)
				outMu.Unlock()
			}
		}()
	}
	sc := bufio.NewReaderSize(in, 1<<20)
	n := 0
	for {
		line, err := sc.ReadBytes('\n')
		line = bytes.TrimSpace(line)
		if len(line) > 0 {
			// TLC's CSVWrite of ToJson output yields a JSON string containing JSON
			if line[0] == '"' {
				var s string
				if json.Unmarshal(line, &s) == nil {
					line = []byte(s)
				}
			}
			lines <- append([]byte(nil), line...)
			n++
		}
		if err != nil {
			break
		}
	}
	close(lines)
	wg.Wait()
	out.Flush()
	outF.Close()
	fmt.Printf("{\"cases\":%d,\"crashed\":%d,\"hung\":%d,\"retried\":%d}\n", n, crashed, timedOut, retried)
}

// crashText: the reason of a crash first, then the end of the output (unless the end already contains the reason).
func crashText(head, end string) string {
	if head == "" || strings.Contains(end, head[:min(len(head), 60)]) {
		return end
	}
	return head[:min(len(head), 1200)] + "\n[...]\n" + end
}

func tail(s string, n int) string {
	if len(s) > n {
		return s[len(s)-n:]
	}
	return s
}

// ---------------------------------------------------------------- idleness
//
// Verdicts such as "the session hangs" or "the victim waits for input that
// will never come" must not depend on how fast this machine happens to be:
// a loaded machine makes a healthy session slow, not idle.  The session is
// idle when no goroutine that executes code of the system under test or of the
// harness's protocol peers (any frame from github.com/gokrazy/rsync/...) is
// running, runnable or inside a system call: they are all parked on channels,
// condition variables, timers or the network poller.  The states come from a
// consistent goroutine dump (runtime.Stack stops the world for it, so ONE
// sampler per process takes them, every idleTick, and only while somebody
// waits).  idleAfter(d) fires when the idleness score (+1 per idle sample, -1
// per busy one, floor 0) reaches d / idleTick.  "rsverif idletest x"
// calibrates: parked goroutines are seen idle by every sample, a spinning one
// by none.

var idleBuf = make([]byte, 1<<20)
var idleBufMu sync.Mutex

func sessionIdle() bool {
	idleBufMu.Lock()
	defer idleBufMu.Unlock()
	var buf []byte
	for {
		n := runtime.Stack(idleBuf, true)
		if n < len(idleBuf) {
			buf = idleBuf[:n]
			break
		}
		idleBuf = make([]byte, 2*len(idleBuf))
	}
	for _, g := range bytes.Split(buf, []byte("\n\ngoroutine ")) {
		nl := bytes.IndexByte(g, '\n')
		if nl < 0 {
			continue
		}
		head := g[:nl]
		i, j := bytes.IndexByte(head, '['), bytes.IndexByte(head, ']')
		if i < 0 || j < i {
			continue
		}
		state := head[i+1 : j]
		if k := bytes.IndexByte(state, ','); k >= 0 {
			state = state[:k]
		}
		if s := string(state); s != "running" && s != "runnable" && s != "syscall" {
			continue
		}
		body := g[nl:]
		if bytes.Contains(body, []byte("main.sessionIdle")) {
			continue // the sampler itself
		}
		if string(state) == "syscall" && (bytes.Contains(body, []byte("unix.Openat(")) || bytes.Contains(body, []byte("syscall.Open(")) || bytes.Contains(body, []byte("syscall.openat("))) {
			// inside open(2): that takes microseconds unless the path is a named pipe without a peer, where it never
			// returns.  Seen in every sample of an idle period, it is a parked activity like any other.
			continue
		}
		if bytes.Contains(body, []byte("gokrazy/rsync")) || bytes.Contains(body, []byte("main.idleSpin")) {
			return false
		}
	}
	return true
}

const idleTick = 50 * time.Millisecond

func idleScore(score int, idle bool) int {
	if idle {
		return score + 1
	}
	if score < 1 {
		return 0
	}
	return score - 1
}

// One sampler serves all waiters: it runs while somebody waits.  A waiter
// abandoned by its select (the awaited event came first) is released as soon
// as the process has been idle long enough - at the latest between two cases.
var idleState struct {
	mu      sync.Mutex
	running bool
	waiters []*idleWaiter
}

type idleWaiter struct {
	need  int
	score int
	ch    chan time.Time
}

func idleSampler() {
	for {
		time.Sleep(idleTick)
		idle := sessionIdle()
		idleState.mu.Lock()
		keep := idleState.waiters[:0]
		for _, w := range idleState.waiters {
			w.score = idleScore(w.score, idle)
			if w.score >= w.need {
				w.ch <- time.Now()
			} else {
				keep = append(keep, w)
			}
		}
		idleState.waiters = keep
		if len(keep) == 0 {
			idleState.running = false
			idleState.mu.Unlock()
			return
		}
		idleState.mu.Unlock()
	}
}

// idleAfter returns a channel that receives once the process has been idle
// for d.
func idleAfter(d time.Duration) <-chan time.Time {
	w := &idleWaiter{need: int(d / idleTick), ch: make(chan time.Time, 1)}
	if w.need < 3 {
		w.need = 3
	}
	idleState.mu.Lock()
	idleState.waiters = append(idleState.waiters, w)
	if !idleState.running {
		idleState.running = true
		go idleSampler()
	}
	idleState.mu.Unlock()
	return w.ch
}

// idleMeter scores idleness for polling loops (one sample per idleTick).
type idleMeter struct{ n int }

func (m *idleMeter) sample() time.Duration {
	m.n = idleScore(m.n, sessionIdle())
	return time.Duration(m.n) * idleTick
}
