package main

import (
	"bufio"
	"bytes"
	"context"
	"encoding/json"
	"fmt"
	"io"
	"os"
	"path/filepath"
	"sort"
	"strings"
	"testing/fstest"
	"time"

	"github.com/gokrazy/rsync/rsyncd"
	"github.com/gokrazy/rsync/verifharness/drv"
	"github.com/gokrazy/rsync/verifharness/fstree"
	"github.com/gokrazy/rsync/verifharness/wirekit"
	"github.com/gokrazy/rsync/verifharness/xport"
)

// discloseScn: one request path sent to a real serving daemon whose module
// directory contains links leaving it; canaries mark everything outside (C06).
type discloseScn struct {
	ID        int      `json:"id"`
	Prefix    string   `json:"prefix"`
	Path      string   `json:"path"`
	Trail     bool     `json:"trail"`
	Opts      []string `json:"opts"` // c, l
	Effective bool     `json:"effective"`
	Inside    bool     `json:"inside"`
	FSMod     bool     `json:"fsmod"` // fs.FS-backed module
	Swap      bool     `json:"swap"`  // the same daemon first serves the module, then the module directory is moved away and replaced by a new one
	Prime     bool     `json:"prime"` // the same daemon first serves the same request on the sibling module "mm" (same names, sizes, mtimes; other contents)
}

type discloseObs struct {
	ID        int             `json:"id"`
	Arg       string          `json:"arg"`
	Opts      []string        `json:"opts"`
	FSMod     bool            `json:"fsmod"`
	Effective bool            `json:"effective"`
	Result    string          `json:"result"`
	Err       string          `json:"err"`
	Listed    []string        `json:"listed"`
	Fetched   int             `json:"fetched"`
	Leaks     []string        `json:"leaks"`  // canaries found in the server's byte stream / decoded entries
	Events    []string        `json:"events"` // inotify events on the outside region
	Scn       json.RawMessage `json:"scn"`
}

func init() { handlers["disclose"] = discloseHandler }

type teeReader struct {
	r   io.Reader
	buf *bytes.Buffer
}

func (t *teeReader) Read(p []byte) (int, error) {
	n, err := t.r.Read(p)
	if n > 0 && t.buf.Len() < 8<<20 {
		t.buf.Write(p[:n])
	}
	return n, err
}

func discloseHandler(w *workerCtx, line []byte) (any, error) {
	var s discloseScn
	if err := json.Unmarshal(line, &s); err != nil {
		return nil, err
	}
	obs := &discloseObs{ID: s.ID, Opts: s.Opts, FSMod: s.FSMod, Effective: s.Effective, Listed: []string{}, Leaks: []string{}, Events: []string{}, Scn: json.RawMessage(line)}
	if obs.Opts == nil {
		obs.Opts = []string{}
	}
	box := filepath.Join(w.dir, fmt.Sprintf("dbox%d", s.ID))
	defer func() { fstree.MakeWritable(box); os.RemoveAll(box) }()
	mod := filepath.Join(box, "mod")
	mod2 := filepath.Join(box, "mm")
	outside := filepath.Join(box, "outside")
	for _, d := range []string{filepath.Join(mod, "a", "a"), mod2, filepath.Join(outside, "subSECRETDIRNAME"), filepath.Join(outside, "a")} {
		os.MkdirAll(d, 0o755)
	}
	secret := []byte("TOPSECRET-CONTENT-" + strings.Repeat("Zq9", 1000))
	secretTime := time.Unix(1234567891, 0)
	secretFile := filepath.Join(outside, "file")
	os.WriteFile(secretFile, secret, 0o600)
	os.Chtimes(secretFile, secretTime, secretTime)
	os.WriteFile(filepath.Join(outside, "SECRETNAME-7f3a"), []byte("x"), 0o600)
	os.WriteFile(filepath.Join(outside, "a", "SECRETNAME-inner"), []byte("y"), 0o600)
	os.Symlink("SECRET-LINK-TARGET-e1", filepath.Join(outside, "olink"))
	os.WriteFile(filepath.Join(box, "SECRETNAME-box"), []byte("z"), 0o600)
	os.WriteFile(filepath.Join(mod2, "SECRETNAME-othermodule"), []byte("other module"), 0o644)
	// inside the module
	os.WriteFile(filepath.Join(mod, "f"), []byte("inside f"), 0o644)
	os.WriteFile(filepath.Join(mod, "a", "inner"), []byte("inside inner"), 0o644)
	os.WriteFile(filepath.Join(mod, "a", "a", "deep"), []byte("inside deep"), 0o644)
	// the sibling module "mm" holds files with the SAME relative names, sizes and mtimes, and other contents
	os.MkdirAll(filepath.Join(mod2, "a", "a"), 0o755)
	twin := time.Unix(1_111_111_111, 0)
	for _, pr := range [][2]string{{"f", "INSIDE F"}, {"a/inner", "INSIDE INNER"}, {"a/a/deep", "INSIDE DEEP"}} {
		os.WriteFile(filepath.Join(mod2, pr[0]), []byte(pr[1]), 0o644)
		os.Chtimes(filepath.Join(mod2, pr[0]), twin, twin)
		os.Chtimes(filepath.Join(mod, pr[0]), twin, twin)
	}
	own := map[string][]byte{"f": []byte("inside f"), "a/inner": []byte("inside inner"), "a/a/deep": []byte("inside deep")}
	os.Symlink("../outside", filepath.Join(mod, "l"))
	os.Symlink("../outside/file", filepath.Join(mod, "lf"))
	os.Symlink("a", filepath.Join(mod, "li"))
	os.Symlink(outside, filepath.Join(mod, "labs"))
	// absolute targets that merely START with the module path
	os.Symlink(mod+"/../outside", filepath.Join(mod, "ldd"))
	sib := mod + "-private"
	os.MkdirAll(sib, 0o755)
	os.WriteFile(filepath.Join(sib, "SECRETNAME-sibling"), secret, 0o600)
	os.Symlink(sib, filepath.Join(mod, "lsib"))
	os.Symlink("../outside", filepath.Join(mod, "a", "l"))

	var m rsyncd.Module
	if s.FSMod {
		m = rsyncd.Module{Name: "m", FS: fstest.MapFS{
			"f": &fstest.MapFile{Data: []byte("inside f")}, "a/inner": &fstest.MapFile{Data: []byte("inside inner")},
			"a/a/deep": &fstest.MapFile{Data: []byte("inside deep")}}}
	} else {
		m = rsyncd.Module{Name: "m", Path: mod}
	}
	srv, err := drv.NewServer([]rsyncd.Module{m, {Name: "mm", Path: mod2}}, nil)
	if err != nil {
		return nil, err
	}
	arg := s.Prefix
	if s.Path != "" {
		if arg == "" || strings.HasSuffix(arg, "/") {
			arg += s.Path
		} else {
			arg += "/" + s.Path
		}
	}
	if s.Trail {
		arg += "/"
	}
	if s.Prefix == "/abs" {
		arg = outside + "/" + s.Path
	}
	obs.Arg = arg
	watch, werr := startWatch([]string{box, outside, filepath.Join(outside, "subSECRETDIRNAME"), filepath.Join(outside, "a"), mod + "-private"}, nil)
	if werr != nil {
		return nil, werr
	}
	defer watch.close()
	a, b := xport.Conn(-1, -1, nil)
	done := make(chan error, 1)
	go func() {
		conn := rsyncd.NewConnection(b, b, "127.0.0.1:7777")
		err := srv.HandleDaemonConn(context.Background(), conn)
		b.Close()
		done <- err
	}()
	defer a.Close()
	raw := &bytes.Buffer{}
	rd := bufio.NewReader(&teeReader{r: a, buf: raw})
	lo := wirekit.ListOpts{}
	flags := "-r"
	for _, o := range s.Opts {
		flags += o
		if o == "l" {
			lo.Links = true
		}
		if o == "c" {
			lo.Checksum = true
		}
	}
	sess := func(a *xport.End, rd *bufio.Reader, module, arg string, record bool) error {
		fmt.Fprintf(a, "@RSYNCD: 27\n%s\n", module)
		if _, err := rd.ReadString('\n'); err != nil {
			return err
		}
		reply, err := rd.ReadString('\n')
		if err != nil {
			return err
		}
		if strings.TrimSpace(reply) != "@RSYNCD: OK" {
			return fmt.Errorf("daemon: %s", strings.TrimSpace(reply))
		}
		for _, x := range []string{"--server", "--sender", flags, ".", arg} {
			fmt.Fprintf(a, "%s\n", x)
		}
		fmt.Fprintf(a, "\n")
		r0 := &wirekit.R{R: rd}
		seed, err := r0.Int32()
		if err != nil {
			return err
		}
		dm := &wirekit.Demux{R: rd}
		in := &wirekit.R{R: dm}
		out := &wirekit.W{W: a}
		out.Int32(0) // empty filter list
		fl, err := in.DecodeList(lo)
		if err != nil {
			if dm.ErrMsg != "" {
				return fmt.Errorf("server error: %s", dm.ErrMsg)
			}
			return fmt.Errorf("file list: %w", err)
		}
		sorted := fl.SortedEntries()
		for _, e := range sorted {
			if !record {
				break
			}
			obs.Listed = append(obs.Listed, e.Name)
			if e.Size == int64(len(secret)) && int64(e.Mtime) == secretTime.Unix() {
				obs.Leaks = append(obs.Leaks, "metadata of outside/file in entry "+e.Name)
			}
			if lo.Checksum && e.Sum == wirekit.PlainMD4(secret) {
				obs.Leaks = append(obs.Leaks, "checksum of outside/file in entry "+e.Name)
			}
			// a listed checksum that is not the checksum of the module's OWN file of that name was computed from something else
			if data, ok := own[e.Name]; ok && lo.Checksum && e.IsReg() && !s.FSMod && e.Sum != wirekit.PlainMD4(data) {
				obs.Leaks = append(obs.Leaks, "checksum in entry "+e.Name+" is not that of the module's own file")
			}
		}
		// fetch every listed regular file in full
		for i, e := range sorted {
			if !e.IsReg() {
				continue
			}
			out.Int32(int32(i))
			out.SumHead(wirekit.SumHead{})
			idx, err := in.Int32()
			if err != nil {
				return fmt.Errorf("fetch %s: %w", e.Name, err)
			}
			if idx != int32(i) {
				return fmt.Errorf("fetch %s: index %d", e.Name, idx)
			}
			if _, err := in.SumHead(); err != nil {
				return err
			}
			toks, err := in.ReadTokens()
			if err != nil {
				return err
			}
			var data []byte
			for _, t := range toks {
				data = append(data, t.Lit...)
			}
			if _, err := in.Bytes(16); err != nil {
				return err
			}
			if record {
				obs.Fetched++
				if bytes.Contains(data, secret[:40]) {
					obs.Leaks = append(obs.Leaks, "content of outside/file fetched as "+e.Name)
				}
				if want, ok := own[e.Name]; ok && !bytes.Equal(data, want) {
					obs.Leaks = append(obs.Leaks, "content fetched as "+e.Name+" is not the module's own file")
				}
			}
			_ = seed
		}
		out.Int32(-1)
		if _, err := in.Int32(); err != nil {
			return err
		}
		out.Int32(-1)
		if _, err := in.Int32(); err != nil {
			return err
		}
		for i := 0; i < 3; i++ {
			if _, err := in.Int64(); err != nil {
				return err
			}
		}
		out.Int32(-1)
		return nil
	}
	if s.Prime {
		// the same request shape, first, to the sibling module on the same server
		pa, pb := xport.Conn(-1, -1, nil)
		pdone := make(chan error, 1)
		go func() {
			conn := rsyncd.NewConnection(pb, pb, "127.0.0.1:7776")
			err := srv.HandleDaemonConn(context.Background(), conn)
			pb.Close()
			pdone <- err
		}()
		perr := make(chan error, 1)
		go func() { perr <- sess(pa, bufio.NewReader(pa), "mm", "mm/", false) }()
		select {
		case <-perr:
		case <-idleAfter(20 * time.Second):
		}
		pa.Close()
		select {
		case <-pdone:
		case <-idleAfter(5 * time.Second):
		}
	}
	if s.Swap && !s.FSMod {
		// serve the module once, then replace its directory: the old tree (with a secret) now lies outside the module
		pa, pb := xport.Conn(-1, -1, nil)
		pdone := make(chan error, 1)
		go func() {
			conn := rsyncd.NewConnection(pb, pb, "127.0.0.1:7775")
			err := srv.HandleDaemonConn(context.Background(), conn)
			pb.Close()
			pdone <- err
		}()
		perr := make(chan error, 1)
		go func() { perr <- sess(pa, bufio.NewReader(pa), "m", "m/", false) }()
		select {
		case <-perr:
		case <-idleAfter(20 * time.Second):
		}
		pa.Close()
		select {
		case <-pdone:
		case <-idleAfter(5 * time.Second):
		}
		os.WriteFile(filepath.Join(mod, "f"), []byte("SECRETNAME-oldtree content"), 0o644) // same size class does not matter: it must never be served again
		os.Rename(mod, filepath.Join(box, "mod.old"))
		os.MkdirAll(filepath.Join(mod, "a", "a"), 0o755)
		for name, data := range own {
			os.WriteFile(filepath.Join(mod, name), data, 0o644)
		}
	}
	errc := make(chan error, 1)
	go func() { errc <- sess(a, rd, "m", arg, true) }()
	select {
	case err := <-errc:
		if err != nil {
			obs.Result, obs.Err = "err", err.Error()
		} else {
			obs.Result = "ok"
		}
	case <-idleAfter(20 * time.Second):
		obs.Result, obs.Err = "hung", "session did not finish"
	}
	a.Close()
	select {
	case <-done:
	case <-idleAfter(5 * time.Second):
	}
	time.Sleep(time.Millisecond)
	watch.drain(func(dir, n string) bool { return dir == box && (n == "mod" || n == "mm" || n == "mod.old") }) // (mod.old: the harness's own rename in the "replaced" history)
	obs.Events = append(obs.Events, watch.events...)
	// scan the raw server stream for canaries
	stream := raw.Bytes()
	for _, c := range []string{"SECRETNAME", "SECRETDIRNAME", "TOPSECRET-CONTENT", "SECRET-LINK-TARGET"} {
		if bytes.Contains(stream, []byte(c)) {
			obs.Leaks = append(obs.Leaks, "canary "+c+" in the server's byte stream")
		}
	}
	sum := wirekit.PlainMD4(secret)
	if bytes.Contains(stream, sum[:]) {
		obs.Leaks = append(obs.Leaks, "MD4 of outside/file in the server's byte stream")
	}
	sort.Strings(obs.Leaks)
	sort.Strings(obs.Events)
	if len(obs.Events) > 20 {
		obs.Events = obs.Events[:20]
	}
	if len(obs.Listed) > 40 {
		obs.Listed = obs.Listed[:40]
	}
	return obs, nil
}
