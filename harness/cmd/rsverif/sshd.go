package main

import (
	"bufio"
	"bytes"
	"context"
	"crypto/ecdsa"
	"crypto/ed25519"
	"crypto/elliptic"
	crand "crypto/rand"
	"crypto/rsa"
	"encoding/json"
	"fmt"
	"io"
	"net"
	"os"
	"os/exec"
	"path/filepath"
	"strings"
	"sync"
	"syscall"
	"time"

	"github.com/gokrazy/rsync/internal/anonssh"
	"github.com/gokrazy/rsync/internal/maincmd"
	"github.com/gokrazy/rsync/internal/rsyncdconfig"
	"github.com/gokrazy/rsync/internal/rsyncos"
	"github.com/gokrazy/rsync/rsyncd"
	"github.com/gokrazy/rsync/verifharness/fstree"
	"golang.org/x/crypto/ssh"
)

// sshScn: one SSH session against a real anonymous / authorised SSH listener (C20).
type sshScn struct {
	ID       int      `json:"id"`
	Listener string   `json:"listener"` // anon | auth
	KeyFile  string   `json:"keyfile"`  // empty | blank-lines | comments-only | one-key | several-keys
	Key      string   `json:"key"`      // listed-ed25519 | listed-ecdsa | unlisted-ed25519 | unlisted-ecdsa | unlisted-rsa | forged-cert
	Req      string   `json:"req"`      // exec | shell | env | subsystem | pty-req | channel:direct-tcpip
	Prog     string   `json:"prog"`     // first word of the exec line ("" = rsync)
	Base     []string `json:"base"`
	Extra    []string `json:"extra"`
	Paths    []string `json:"paths"`
	Admit    bool     `json:"admit"`
	Both     bool     `json:"both"`
	NoReply  bool     `json:"noreply"` // exec request sent with want-reply = false
	Real     bool     `json:"real"`    // run the gokr-rsync binary built from /repo (RSVERIF_GOKR) instead of the in-process listener
}

type sshObs struct {
	ID           int      `json:"id"`
	Listener     string   `json:"listener"`
	KeyFile      string   `json:"keyfile"`
	Key          string   `json:"key"`
	Req          string   `json:"req"`
	Cmd          string   `json:"cmd"`
	Admit        bool     `json:"admit"`
	Both         bool     `json:"both"`
	Real         bool     `json:"real"`
	Started      bool     `json:"started"`  // the listener could be started with this configuration
	Admitted     bool     `json:"admitted"` // the SSH handshake succeeded
	HandshakeErr string   `json:"handshakeerr"`
	Accepted     bool     `json:"accepted"` // the request was answered with success
	NOut         int      `json:"nout"`     // bytes the session wrote to the channel
	Probed       bool     `json:"probed"`   // the harness sent a protocol version first
	Modules      []string `json:"modules"`  // module names listed over the daemon protocol
	Listed       bool     `json:"listed"`   // the module listing completed
	Outcome      string   `json:"outcome"`  // daemon-protocol | refused | command | none
	First        string   `json:"first"`    // first bytes on the channel
	Exit         int      `json:"exit"`     // exit-status (-1: none)
	Canary       bool     `json:"canary"`   // the program named by -e / --rsh ran
	OutsideRead  bool     `json:"outsideread"`
	Dropped      bool     `json:"dropped"` // files appeared in the drop directory
	Alive        bool     `json:"alive"`
	Events       []string `json:"events"`
}

func init() { handlers["ssh"] = sshHandler }

var (
	sshKeysOnce sync.Once
	sshKeys     map[string]ssh.Signer
)

func genKeys() {
	sshKeys = map[string]ssh.Signer{}
	for _, n := range []string{"listed-ed25519", "unlisted-ed25519", "attacker"} {
		_, priv, _ := ed25519.GenerateKey(crand.Reader)
		s, _ := ssh.NewSignerFromKey(priv)
		sshKeys[n] = s
	}
	for _, n := range []string{"listed-ecdsa", "unlisted-ecdsa"} {
		k, _ := ecdsa.GenerateKey(elliptic.P256(), crand.Reader)
		s, _ := ssh.NewSignerFromKey(k)
		sshKeys[n] = s
	}
	k, _ := rsa.GenerateKey(crand.Reader, 2048)
	s, _ := ssh.NewSignerFromKey(k)
	sshKeys["unlisted-rsa"] = s
	// a "certificate" for the attacker's own key that merely NAMES a listed key as its CA
	cert := &ssh.Certificate{Key: sshKeys["attacker"].PublicKey(), CertType: ssh.UserCert, KeyId: "forged", ValidPrincipals: []string{"x"},
		ValidBefore: ssh.CertTimeInfinity, SignatureKey: sshKeys["listed-ed25519"].PublicKey(),
		Signature: &ssh.Signature{Format: ssh.KeyAlgoED25519, Blob: bytes.Repeat([]byte{0x42}, 64)}}
	if cs, err := ssh.NewCertSigner(cert, sshKeys["attacker"]); err == nil {
		sshKeys["forged-cert"] = cs
	}
}

// publicOnly offers a public key its holder cannot sign for (the public half of somebody else's key): the server
// is asked whether the key would be acceptable, the signature that follows is worthless.
type publicOnly struct{ pub ssh.PublicKey }

func (p publicOnly) PublicKey() ssh.PublicKey { return p.pub }
func (p publicOnly) Sign(io.Reader, []byte) (*ssh.Signature, error) {
	return &ssh.Signature{Format: "none@example.net", Blob: make([]byte, 64)}, nil
}

// signersOf: the keys a client offers on ONE connection, in order.
func signersOf(key string) []ssh.Signer {
	borrowed := publicOnly{sshKeys["listed-ed25519"].PublicKey()}
	switch key {
	case "borrowed-then-unlisted":
		return []ssh.Signer{borrowed, sshKeys["unlisted-ed25519"]}
	case "unlisted-then-borrowed":
		return []ssh.Signer{sshKeys["unlisted-ecdsa"], borrowed, sshKeys["unlisted-ed25519"]}
	}
	if s := sshKeys[key]; s != nil {
		return []ssh.Signer{s}
	}
	return nil
}

func sshHandler(w *workerCtx, line []byte) (any, error) {
	var s sshScn
	if err := json.Unmarshal(line, &s); err != nil {
		return nil, err
	}
	sshKeysOnce.Do(genKeys)
	obs := &sshObs{ID: s.ID, Listener: s.Listener, KeyFile: s.KeyFile, Key: s.Key, Req: s.Req, Admit: s.Admit, Both: s.Both, Real: s.Real, Outcome: "none", Exit: -1, Alive: true, Events: []string{}, Modules: []string{}}
	base := filepath.Join(w.dir, fmt.Sprintf("ssh%d", s.ID))
	defer func() { fstree.MakeWritable(base); os.RemoveAll(base) }()
	mod := filepath.Join(base, "mod")
	outside := filepath.Join(base, "outside")
	drop := filepath.Join(base, "drop")
	for _, d := range []string{mod, outside, drop} {
		os.MkdirAll(d, 0o755)
	}
	// a configuration file a peer might name in its command line (--gokr.config=OUTSIDE/evil.toml)
	os.WriteFile(filepath.Join(outside, "evil.toml"), []byte("[[listener]]\nrsyncd = \"127.0.0.1:0\"\n[[module]]\nname = \"evil\"\npath = \""+outside+"\"\n"), 0o644)
	// "." in a command line must not reach other cases' directories: an
	// admitted client-mode transfer may still be walking it when the next case runs
	cwd := filepath.Join(w.dir, "ssh-cwd")
	os.MkdirAll(cwd, 0o755)
	os.Chdir(cwd)
	os.WriteFile(filepath.Join(mod, "hello"), []byte("world"), 0o644)
	os.WriteFile(filepath.Join(outside, "secret"), []byte("TOPSECRET"), 0o600)
	marker := filepath.Join(base, "canary-ran")
	canary := filepath.Join(base, "canary.sh")
	os.WriteFile(canary, []byte("#!/bin/sh\necho ran > "+marker+"\nexit 1\n"), 0o755)
	// authorized_keys
	ak := filepath.Join(base, "authorized_keys")
	pub := func(n string) string {
		return strings.TrimSpace(string(ssh.MarshalAuthorizedKey(sshKeys[n].PublicKey())))
	}
	var akc string
	switch s.KeyFile {
	case "empty":
		akc = ""
	case "blank-lines":
		akc = "\n\n   \n"
	case "comments-only":
		akc = "# no keys authorized\n\n# " + pub("listed-ed25519") + "\n"
	case "one-key":
		akc = pub("listed-ed25519") + " user@host\n"
	case "several-keys":
		akc = "# team keys\n\n" + pub("listed-ed25519") + " a@b\n\n# second\n" + pub("listed-ecdsa") + "\n"
	}
	os.WriteFile(ak, []byte(akc), 0o600)
	var addr string
	if s.Real {
		d, err := startRealDaemon(base, s.Listener, ak, mod)
		if err != nil {
			return nil, err
		}
		defer d.stop()
		if d.addr == "" {
			// the daemon refused this configuration: it admits nobody
			obs.HandshakeErr = "listener: " + d.lastLine
			return obs, nil
		}
		addr = d.addr
		obs.Started = true
	} else {
		ln, err := net.Listen("tcp", "127.0.0.1:0")
		if err != nil {
			return nil, err
		}
		defer ln.Close()
		addr = ln.Addr().String()
		lcfg := rsyncdconfig.Listener{HostKeyPath: filepath.Join(base, "hostkey")}
		if s.Listener == "anon" {
			lcfg.AnonSSH = addr
		} else {
			lcfg.AuthorizedSSH = rsyncdconfig.SSHListener{Address: addr, AuthorizedKeys: ak}
		}
		osenv := &rsyncos.Env{Stderr: io.Discard, Stdout: io.Discard, DontRestrict: true}
		cfg := &rsyncdconfig.Config{Listeners: []rsyncdconfig.Listener{lcfg}, Modules: []rsyncd.Module{{Name: "m", Path: mod}}}
		sshl, err := anonssh.ListenerFromConfig(osenv, lcfg)
		if err != nil {
			// a listener that cannot be configured admits nobody
			obs.HandshakeErr = "listener: " + err.Error()
			return obs, nil
		}
		obs.Started = true
		ctx, cancel := context.WithCancel(context.Background())
		defer cancel()
		go anonssh.Serve(ctx, osenv, ln, sshl, cfg, func(args []string, stdin io.Reader, stdout io.Writer, stderr io.Writer) error {
			// the same environment internal/maincmd gives its SSH sessions (the
			// "real" scenarios run maincmd's own closure)
			osenv := &rsyncos.Env{Stdin: stdin, Stdout: stdout, Stderr: stderr, DontRestrict: true, NoExit: true}
			_, err := maincmd.Main(ctx, osenv, args, cfg)
			return err
		})
	}
	watch, werr := startWatch([]string{outside}, nil)
	if werr != nil {
		return nil, werr
	}
	defer watch.close()
	signers := signersOf(s.Key)
	if signers == nil {
		return nil, fmt.Errorf("no key %q", s.Key)
	}
	ccfg := &ssh.ClientConfig{User: "x", Auth: []ssh.AuthMethod{ssh.PublicKeys(signers...)}, HostKeyCallback: ssh.InsecureIgnoreHostKey(), Timeout: 5 * time.Second}
	client, err := ssh.Dial("tcp", addr, ccfg)
	if err != nil {
		obs.HandshakeErr = err.Error()
		if len(obs.HandshakeErr) > 200 {
			obs.HandshakeErr = obs.HandshakeErr[:200]
		}
		return obs, nil
	}
	defer client.Close()
	obs.Admitted = true
	prog := s.Prog
	if prog == "" {
		prog = "rsync"
	}
	cmd := append([]string{prog}, s.Base...)
	cmd = append(cmd, s.Extra...)
	cmd = append(cmd, s.Paths...)
	cmdline := strings.Join(cmd, " ")
	cmdline = strings.ReplaceAll(cmdline, "CANARY", canary)
	cmdline = strings.ReplaceAll(cmdline, "OUTSIDE", outside)
	cmdline = strings.ReplaceAll(cmdline, "DROP", drop)
	obs.Cmd = cmdline
	switch {
	case strings.HasPrefix(s.Req, "channel:"):
		ch, reqs, err := client.OpenChannel(strings.TrimPrefix(s.Req, "channel:"), ssh.Marshal(struct {
			Host  string
			Port  uint32
			OHost string
			OPort uint32
		}{"127.0.0.1", 22, "127.0.0.1", 1}))
		if err != nil {
			obs.Outcome = "refused"
		} else {
			go ssh.DiscardRequests(reqs)
			ch.Close()
			obs.Outcome = "command"
		}
	default:
		sess, err := client.NewSession()
		if err != nil {
			obs.Outcome = "refused"
			break
		}
		defer sess.Close()
		stdout, _ := sess.StdoutPipe()
		stdin, _ := sess.StdinPipe()
		var rerr error
		reqDone := make(chan error, 1)
		go func() {
			var rerr error
			switch s.Req {
			case "exec":
				if s.NoReply {
					// the want-reply flag is the client's to choose: no answer is waited for
					_, rerr = sess.SendRequest("exec", false, ssh.Marshal(struct{ Command string }{cmdline}))
				} else {
					rerr = sess.Start(cmdline)
				}
			case "shell":
				rerr = sess.Shell()
			case "env":
				// like ssh(1) SendEnv: no reply wanted; an accepted env request alone
				// runs nothing, what matters is that nothing else becomes possible
				_, rerr = sess.SendRequest("env", false, ssh.Marshal(struct{ Name, Value string }{"LD_PRELOAD", "/tmp/x.so"}))
				if rerr == nil {
					rerr = sess.Shell()
				}
			case "subsystem":
				rerr = sess.RequestSubsystem("sftp")
			case "pty-req":
				rerr = sess.RequestPty("xterm", 24, 80, ssh.TerminalModes{})
				if rerr == nil {
					rerr = sess.Shell()
				}
			}
			reqDone <- rerr
		}()
		select {
		case rerr = <-reqDone:
		case <-quietAfter(s.Real, 5*time.Second, 30*time.Second):
			rerr = fmt.Errorf("no reply to the request")
		}
		if rerr != nil {
			obs.Outcome = "refused"
			break
		}
		obs.Accepted = true
		// everything the session writes to the channel
		var mu sync.Mutex
		var got []byte
		eof := make(chan struct{})
		go func() {
			buf := make([]byte, 4096)
			for {
				n, err := stdout.Read(buf)
				mu.Lock()
				if len(got) < 1<<16 {
					got = append(got, buf[:n]...)
				}
				mu.Unlock()
				if err != nil {
					close(eof)
					return
				}
			}
		}()
		snapshot := func() []byte { mu.Lock(); defer mu.Unlock(); return append([]byte(nil), got...) }
		// waitFor waits until cond holds, the channel is closed, or the session has
		// been quiet for d: for the in-process listener "quiet" is idleness of its
		// goroutines (independent of the machine's speed), for the real binary,
		// whose goroutines we cannot see, 4 x d of wall time
		waitFor := func(d time.Duration, cond func(b []byte) bool) []byte {
			quiet := quietAfter(s.Real, d, 4*d)
			for {
				b := snapshot()
				if cond(b) {
					return b
				}
				select {
				case <-eof:
					return snapshot()
				case <-quiet:
					return snapshot()
				case <-time.After(5 * time.Millisecond):
				}
			}
		}
		first := waitFor(500*time.Millisecond, func(b []byte) bool { return len(b) >= 9 })
		if len(first) == 0 {
			// a command-mode server waits for the peer's protocol version before it
			// says anything: speak first, so that a started server shows itself
			stdin.Write([]byte{27, 0, 0, 0})
			first = waitFor(1*time.Second, func(b []byte) bool { return len(b) >= 8 })
			obs.Probed = true
			if bytes.HasPrefix(first, []byte("@RSYNCD:")) {
				return nil, fmt.Errorf("the daemon greeting arrived only after the probe (machine too slow for the real-binary wait): no observation")
			}
		}
		greeted := bytes.HasPrefix(first, []byte("@RSYNCD:"))
		if greeted {
			// speak the daemon protocol: ask for the module list
			io.WriteString(stdin, "@RSYNCD: 27\n#list\n")
			all := waitFor(5*time.Second, func(b []byte) bool { return bytes.Contains(b, []byte("@RSYNCD: EXIT")) })
			lines := strings.Split(string(all), "\n")
			for _, l := range lines[1:] {
				if l == "" || strings.HasPrefix(l, "@RSYNCD:") {
					continue
				}
				obs.Modules = append(obs.Modules, strings.TrimSpace(strings.SplitN(l, "\t", 2)[0]))
			}
			obs.Listed = bytes.Contains(all, []byte("@RSYNCD: EXIT"))
		}
		stdin.Close()
		done := make(chan error, 1)
		go func() { done <- sess.Wait() }()
		select {
		case err := <-done:
			obs.Exit = 0
			if ee, ok := err.(*ssh.ExitError); ok {
				obs.Exit = ee.ExitStatus()
			} else if err != nil {
				obs.Exit = -2
			}
		case <-quietAfter(s.Real, 3*time.Second, 15*time.Second):
		}
		all := snapshot()
		obs.NOut = len(all)
		if len(all) > 48 {
			all = all[:48]
		}
		obs.First = fmt.Sprintf("%q", all)
		switch {
		case greeted:
			obs.Outcome = "daemon-protocol"
		case obs.NOut == 0 && obs.Exit > 0:
			obs.Outcome = "refused" // accepted, but ended with an error status without a byte on the channel
		case s.NoReply && obs.Exit != 0 && !bytes.HasPrefix(snapshot(), []byte{27, 0, 0, 0}):
			// no reply was asked for, so a refusal can only show as: no rsync protocol on the channel (not even after
			// the probe) and no successful exit status - a refusal message in plain text is not a command that ran
			obs.Outcome = "refused"
		default:
			obs.Outcome = "command"
		}
	}
	time.Sleep(20 * time.Millisecond)
	if _, err := os.Stat(marker); err == nil {
		obs.Canary = true
	}
	watch.drain(func(dir, n string) bool { return false })
	obs.Events = append(obs.Events, watch.events...)
	obs.OutsideRead = len(watch.events) > 0
	if ents, _ := os.ReadDir(drop); len(ents) > 0 {
		obs.Dropped = true
	}
	// the daemon must still accept connections (SSH banner on a fresh TCP connection)
	obs.Alive = false
	for attempt := 0; attempt < 10 && !obs.Alive; attempt++ {
		c2, err := net.DialTimeout("tcp", addr, 10*time.Second)
		if err != nil {
			if ne, ok := err.(net.Error); ok && ne.Timeout() {
				continue // a slow machine, not a dead listener
			}
			break // refused: nobody listens any more
		}
		c2.SetReadDeadline(time.Now().Add(10 * time.Second))
		buf := make([]byte, 8)
		n, rerr := io.ReadAtLeast(c2, buf, 4)
		c2.Close()
		if n >= 4 && string(buf[:4]) == "SSH-" {
			obs.Alive = true
		} else if ne, ok := rerr.(net.Error); !(ok && ne.Timeout()) {
			break // closed without a banner
		}
	}
	return obs, nil
}

// realDaemon is the gokr-rsync binary built from /repo, started as a daemon
// with one SSH listener on a free loopback port.
type realDaemon struct {
	cmd      *exec.Cmd
	addr     string
	lastLine string
}

func startRealDaemon(base, listener, ak, mod string) (*realDaemon, error) {
	bin := os.Getenv("RSVERIF_GOKR")
	if bin == "" {
		return nil, fmt.Errorf("RSVERIF_GOKR not set")
	}
	var l string
	if listener == "anon" {
		l = "anon_ssh = \"127.0.0.1:0\"\n"
	} else {
		l = "[listener.authorized_ssh]\naddress = \"127.0.0.1:0\"\nauthorized_keys = \"" + ak + "\"\n"
	}
	cfg := "[[listener]]\nhost_key_path = \"" + filepath.Join(base, "hostkey") + "\"\n" + l + "\n[[module]]\nname = \"m\"\npath = \"" + mod + "\"\n"
	cfgfn := filepath.Join(base, "rsyncd.toml")
	if err := os.WriteFile(cfgfn, []byte(cfg), 0o644); err != nil {
		return nil, err
	}
	cmd := exec.Command(bin, "--daemon", "--gokr.config="+cfgfn)
	cmd.SysProcAttr = &syscall.SysProcAttr{Setpgid: true}
	cmd.Stdout = io.Discard
	pr, pw, err := os.Pipe()
	if err != nil {
		return nil, err
	}
	cmd.Stderr = pw
	if err := cmd.Start(); err != nil {
		pr.Close()
		pw.Close()
		return nil, err
	}
	pw.Close()
	d := &realDaemon{cmd: cmd}
	found := make(chan string, 1)
	go func() {
		sc := bufio.NewScanner(pr)
		sc.Buffer(make([]byte, 1<<16), 1<<20)
		sent := false
		for sc.Scan() {
			t := sc.Text()
			if !sent {
				d.lastLine = t
				if i := strings.Index(t, "SSH) on "); i >= 0 {
					found <- strings.TrimSpace(t[i+len("SSH) on "):])
					sent = true
				}
			}
		}
		pr.Close()
		if !sent {
			found <- ""
		}
	}()
	select {
	case d.addr = <-found:
	case <-time.After(20 * time.Second):
		d.stop()
		return nil, fmt.Errorf("daemon did not start listening within 20s")
	}
	if len(d.lastLine) > 200 {
		d.lastLine = d.lastLine[len(d.lastLine)-200:]
	}
	return d, nil
}

func (d *realDaemon) stop() {
	if d.cmd.Process != nil {
		syscall.Kill(-d.cmd.Process.Pid, syscall.SIGKILL)
		d.cmd.Process.Kill()
		d.cmd.Wait()
	}
}

// quietAfter fires when the session has been quiet for d: idleness of the
// in-process listener's goroutines, or wall time for the real binary.
func quietAfter(real bool, d, wall time.Duration) <-chan time.Time {
	if real {
		return time.After(wall)
	}
	return idleAfter(d)
}
