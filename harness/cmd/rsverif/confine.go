package main

import (
	"bytes"
	"encoding/binary"
	"encoding/json"
	"fmt"
	"os"
	"path/filepath"
	"sort"
	"strings"
	"time"

	"github.com/gokrazy/rsync/rsyncd"
	"github.com/gokrazy/rsync/verifharness/drv"
	"github.com/gokrazy/rsync/verifharness/fstree"
	"github.com/gokrazy/rsync/verifharness/wirekit"
	"golang.org/x/sys/unix"
)

// confineScn: one hostile file list (or daemon destination argument) sent to a
// real receiver whose destination root sits in a sandbox full of canaries (C05).
type confineScn struct {
	ID      int    `json:"id"`
	Name    string `json:"name"`  // hostile name ("/ABS/" prefix = absolute path into the outside region)
	T       string `json:"t"`     // reg dir lnk fifo sock chr
	SendS   bool   `json:"sends"` // the list first sends the symlink s -> ../outside
	Escapes bool   `json:"escapes"`
	Recv    string `json:"recv"`
	Delete  bool   `json:"delete"`
	Batch   bool   `json:"batch"`  // the reference sender answers requests only after the generator has finished its pass (deferred commits)
	Push    bool   `json:"push"`   // the hostile sender also transmits file data for every listed entry WITHOUT being asked (receiver.go accepts any index)
	Sub     string `json:"sub"`    // daemon: destination argument (after module-name stripping); "" = module root
	Benign  bool   `json:"benign"` // the list is harmless (sub-argument scenarios)
	More    []struct {
		Name string `json:"name"`
		T    string `json:"t"`
	} `json:"more"` // further hostile entries (random lists)
	Class string `json:"class"`
}

type confineObs struct {
	ID      int             `json:"id"`
	Class   string          `json:"class"`
	Name    string          `json:"name"`
	T       string          `json:"t"`
	Recv    string          `json:"recv"`
	Sub     string          `json:"sub"`
	Escapes bool            `json:"escapes"`
	Result  string          `json:"result"`
	Err     string          `json:"err"`
	Changed []string        `json:"changed"` // outside paths whose state differs after the session
	Events  []string        `json:"events"`  // inotify events on the outside region during the session
	Leak    bool            `json:"leak"`    // the generator sent checksums of an outside file
	Reqs    int             `json:"reqs"`
	Scn     json.RawMessage `json:"scn"`
}

func init() { handlers["confine"] = confineHandler }

type inoWatch struct {
	fd     int
	wds    map[int32]string
	events []string
	done   chan struct{}
}

const inoMask = unix.IN_OPEN | unix.IN_ACCESS | unix.IN_MODIFY | unix.IN_ATTRIB | unix.IN_CREATE | unix.IN_DELETE |
	unix.IN_MOVED_FROM | unix.IN_MOVED_TO | unix.IN_DELETE_SELF | unix.IN_CLOSE_WRITE

func startWatch(dirs []string, ignore func(dir, name string) bool) (*inoWatch, error) {
	fd, err := unix.InotifyInit1(unix.IN_NONBLOCK | unix.IN_CLOEXEC)
	if err != nil {
		return nil, err
	}
	w := &inoWatch{fd: fd, wds: map[int32]string{}, done: make(chan struct{})}
	for _, d := range dirs {
		wd, err := unix.InotifyAddWatch(fd, d, inoMask)
		if err != nil {
			unix.Close(fd)
			return nil, fmt.Errorf("inotify %s: %w", d, err)
		}
		w.wds[int32(wd)] = d
	}
	return w, nil
}

func maskNames(m uint32) string {
	var out []string
	for _, x := range []struct {
		b uint32
		n string
	}{{unix.IN_OPEN, "open"}, {unix.IN_ACCESS, "access"}, {unix.IN_MODIFY, "modify"}, {unix.IN_ATTRIB, "attrib"},
		{unix.IN_CREATE, "create"}, {unix.IN_DELETE, "delete"}, {unix.IN_MOVED_FROM, "moved_from"}, {unix.IN_MOVED_TO, "moved_to"},
		{unix.IN_DELETE_SELF, "delete_self"}, {unix.IN_CLOSE_WRITE, "close_write"}} {
		if m&x.b != 0 {
			out = append(out, x.n)
		}
	}
	return strings.Join(out, "+")
}

// drain reads all pending events (non-blocking).
func (w *inoWatch) drain(ignore func(dir, name string) bool) {
	buf := make([]byte, 64*1024)
	for {
		n, err := unix.Read(w.fd, buf)
		if n <= 0 || err != nil {
			return
		}
		off := 0
		for off+unix.SizeofInotifyEvent <= n {
			wd := int32(binary.LittleEndian.Uint32(buf[off:]))
			mask := binary.LittleEndian.Uint32(buf[off+4:])
			l := int(binary.LittleEndian.Uint32(buf[off+12:]))
			name := string(bytes.TrimRight(buf[off+16:off+16+l], "\x00"))
			off += unix.SizeofInotifyEvent + l
			dir := w.wds[wd]
			if ignore(dir, name) {
				continue
			}
			w.events = append(w.events, fmt.Sprintf("%s %s/%s", maskNames(mask), filepath.Base(dir), name))
		}
	}
}

func (w *inoWatch) close() { unix.Close(w.fd) }

func confineHandler(w *workerCtx, line []byte) (any, error) {
	var s confineScn
	if err := json.Unmarshal(line, &s); err != nil {
		return nil, err
	}
	obs := &confineObs{ID: s.ID, Class: s.Class, Name: s.Name, T: s.T, Recv: s.Recv, Sub: s.Sub, Escapes: s.Escapes,
		Changed: []string{}, Events: []string{}, Scn: json.RawMessage(line)}
	box := filepath.Join(w.dir, "box")
	fstree.MakeWritable(box)
	os.RemoveAll(box)
	dst := filepath.Join(box, "dst")
	outside := filepath.Join(box, "outside")
	for _, d := range []string{dst, outside, filepath.Join(outside, "sub"), filepath.Join(outside, "a"), filepath.Join(box, "a")} {
		if err := os.MkdirAll(d, 0o755); err != nil {
			return nil, err
		}
	}
	secret := []byte("CANARY-SECRET-" + strings.Repeat("0123456789abcdef", 90)) // > 1400 bytes: two blocks
	canaries := map[string][]byte{
		filepath.Join(outside, "file"):     secret,
		filepath.Join(outside, "sub", "f"): []byte("sub-canary"),
		filepath.Join(outside, "a", "f"):   []byte("a-canary"),
		filepath.Join(box, "canary"):       []byte("box-canary"),
		filepath.Join(box, "a", "f"):       []byte("box-a-canary"),
	}
	old := time.Unix(1_500_000, 0)
	for p, c := range canaries {
		os.WriteFile(p, c, 0o600)
		os.Chtimes(p, old, old)
	}
	os.Symlink("file", filepath.Join(outside, "link"))
	// inside the root: pre-existing links leaving it, and a plain directory
	os.Symlink("../outside", filepath.Join(dst, "l"))
	os.Symlink("../outside/file", filepath.Join(dst, "lf"))
	os.MkdirAll(filepath.Join(dst, "a", "a"), 0o755)
	os.WriteFile(filepath.Join(dst, "a", "f"), []byte("inside"), 0o644)
	for _, d := range []string{outside, filepath.Join(outside, "sub"), filepath.Join(outside, "a"), filepath.Join(box, "a"), box} {
		os.Chtimes(d, old, old)
	}
	snapOutside := func() map[string]string {
		m := map[string]string{}
		filepath.Walk(box, func(p string, info os.FileInfo, err error) error {
			if err != nil {
				return nil
			}
			rel, _ := filepath.Rel(box, p)
			if rel == "dst" {
				return filepath.SkipDir
			}
			if rel == "." {
				// the box itself: only its entry set matters (dst's own mtime may change)
				ents, _ := os.ReadDir(p)
				var names []string
				for _, e := range ents {
					names = append(names, e.Name())
				}
				m["."] = strings.Join(names, ",")
				return nil
			}
			st := info.Sys()
			d := fmt.Sprintf("%v %d %d", info.Mode(), info.ModTime().UnixNano(), info.Size())
			if s, ok := st.(*unix.Stat_t); ok {
				d += fmt.Sprintf(" %d:%d", s.Uid, s.Gid)
			}
			if info.Mode().IsRegular() {
				b, _ := os.ReadFile(p)
				d += " " + fmt.Sprintf("%x", wirekit.PlainMD4(b))
			}
			if info.Mode()&os.ModeSymlink != 0 {
				t, _ := os.Readlink(p)
				d += " -> " + t
			}
			m[rel] = d
			return nil
		})
		return m
	}
	before := snapOutside()

	name := s.Name
	if strings.HasPrefix(name, "/ABS/") {
		name = outside + "/" + strings.TrimPrefix(name, "/ABS/")
	}
	sub := strings.ReplaceAll(s.Sub, "/ABS/", outside+"/")
	lo := wirekit.ListOpts{Links: true, Devices: true, Specials: true, UID: true, GID: true}
	fl := &wirekit.FileList{Entries: []wirekit.Entry{{Name: ".", Size: 4096, Mtime: 2_000_000, Mode: wirekit.SIFDIR | 0o755, Flags: wirekit.XTopDir}}}
	if s.SendS {
		fl.Entries = append(fl.Entries, wirekit.Entry{Name: "s", Mtime: 2_000_000, Mode: wirekit.SIFLNK | 0o777, Link: "../outside"})
	}
	payload := []byte("hostile payload " + strings.Repeat("x", 100))
	if s.Benign {
		fl.Entries = append(fl.Entries, wirekit.Entry{Name: "newfile", Size: int64(len(payload)), Mtime: 2_000_000, Mode: wirekit.SIFREG | 0o644})
	} else {
		mk := func(name, t string) wirekit.Entry {
			if strings.HasPrefix(name, "/ABS/") {
				name = outside + "/" + strings.TrimPrefix(name, "/ABS/")
			}
			e := wirekit.Entry{Name: name, Mtime: 2_000_000, UID: 4242, GID: 4343}
			if strings.HasPrefix(t, "lnkto:") { // a symlink with a chosen target ("OUTSIDE" = the outside directory, absolute)
				e.Mode, e.Link = wirekit.SIFLNK|0o777, strings.ReplaceAll(strings.TrimPrefix(t, "lnkto:"), "OUTSIDE", outside)
				return e
			}
			switch t {
			case "rodir": // a directory without owner write permission: the receiver restores its mode in a pass AFTER the transfer
				e.Mode, e.Size = wirekit.SIFDIR|0o555, 4096
			case "reg":
				e.Mode, e.Size = wirekit.SIFREG|0o666, int64(len(payload))
			case "dir":
				e.Mode, e.Size = wirekit.SIFDIR|0o777, 4096
			case "lnk":
				e.Mode, e.Link = wirekit.SIFLNK|0o777, "/etc/passwd"
			case "lnkout":
				e.Mode, e.Link = wirekit.SIFLNK|0o777, "../outside"
			case "fifo":
				e.Mode = wirekit.SIFIFO | 0o666
			case "sock":
				e.Mode = wirekit.SIFSOCK | 0o666
			case "chr":
				e.Mode, e.Rdev = wirekit.SIFCHR|0o666, 0x0103 // /dev/null
			}
			return e
		}
		fl.Entries = append(fl.Entries, mk(s.Name, s.T))
		for _, m := range s.More {
			fl.Entries = append(fl.Entries, mk(m.Name, m.T))
		}
	}
	flags := "-rlptgoD"
	if s.Push {
		// without -D the generator silently skips special files, so the session stays alive while
		// the unrequested data for such an entry arrives
		flags = "-rlptgo"
		lo.Devices, lo.Specials = false, false
	}
	var p *drv.RecvPeer
	var err error
	watch, werr := startWatch([]string{box, outside, filepath.Join(outside, "sub"), filepath.Join(outside, "a"), filepath.Join(box, "a")}, nil)
	if werr != nil {
		return nil, werr
	}
	defer watch.close()
	ignore := func(dir, n string) bool { return dir == box && n == "dst" }
	if s.Recv == "daemon" {
		srv, err := drv.NewServer(nil, nil)
		if err != nil {
			return nil, err
		}
		mod := &rsyncd.Module{Name: "m", Path: dst, Writable: true}
		args := []string{"--server", flags}
		if s.Delete {
			args = append(args, "--delete")
		}
		if sub == "" {
			sub = "/"
		}
		args = append(args, ".", sub)
		p = drv.StartServerReceiver(srv, mod, args, -1, -1, nil)
		err = p.ClientHandshake(s.Delete)
		if err != nil {
			obs.Result, obs.Err = "err", "handshake: "+err.Error()
		}
	} else {
		args := []string{flags}
		if s.Delete {
			args = append(args, "--delete")
		}
		p, err = drv.StartClientReceiver(args, dst, nil, -1, -1, nil)
		if err != nil {
			return nil, err
		}
		if err = p.ServerHandshake(int32(99 + s.ID)); err != nil {
			obs.Result, obs.Err = "err", "handshake: "+err.Error()
		}
	}
	if obs.Result == "" {
		p.Out.EncodeList(fl, lo, wirekit.NoCompression)
		// the receiver cleans names before sorting: number the entries the same way
		sorted := append([]wirekit.Entry(nil), fl.Entries...)
		sort.SliceStable(sorted, func(i, j int) bool { return filepath.Clean(sorted[i].Name) < filepath.Clean(sorted[j].Name) })
		if s.Push {
			for i, e := range sorted {
				if e.Name == "." || (s.SendS && e.Name == "s") {
					continue
				}
				pre, seg := serializeAnswer(wirekit.WholeFile(p.Seed, int32(i), payload, 0), 0)
				p.Out.Bytes(pre)
				p.Out.Bytes(seg)
			}
		}
		rs := &wirekit.RefSender{In: p.In, Out: p.Out, Seed: p.Seed, Batch: s.Batch}
		rs.Answer = func(req *wirekit.Request) (*wirekit.Answer, error) {
			obs.Reqs++
			if req.Head.Count > 0 {
				// did the generator checksum an outside file?
				_, sums := wirekit.Sums(p.Seed, secret, req.Head.Blk, 16)
				for i := range req.Sums {
					if i < len(sums) && req.Sums[i].Weak == sums[i].Weak {
						obs.Leak = true
					}
				}
			}
			if req.Idx < 0 || int(req.Idx) >= len(sorted) || !sorted[req.Idx].IsReg() {
				return nil, fmt.Errorf("request for index %d", req.Idx)
			}
			return wirekit.DeltaAnswer(p.Seed, req, payload, 0), nil
		}
		serr := rs.Serve()
		if serr == nil {
			serr = p.Finish()
		}
		if serr != nil {
			p.End.Close() // the reference sender gave up: end the session for the receiver too
		}
		select {
		case derr := <-p.Done:
			if derr != nil {
				obs.Result, obs.Err = "err", derr.Error()
			} else {
				obs.Result = "ok"
			}
		case <-idleAfter(10 * time.Second):
			obs.Result, obs.Err = "hung", fmt.Sprintf("receiver did not return (sender: %v)", serr)
		}
	}
	p.End.Close()
	time.Sleep(2 * time.Millisecond)
	watch.drain(ignore)
	obs.Events = append(obs.Events, watch.events...)
	after := snapOutside()
	keys := map[string]bool{}
	for k := range before {
		keys[k] = true
	}
	for k := range after {
		keys[k] = true
	}
	for k := range keys {
		if before[k] != after[k] {
			obs.Changed = append(obs.Changed, fmt.Sprintf("%s: %q -> %q", k, before[k], after[k]))
		}
	}
	sort.Strings(obs.Changed)
	sort.Strings(obs.Events)
	if len(obs.Events) > 20 {
		obs.Events = obs.Events[:20]
	}
	fstree.MakeWritable(box)
	return obs, nil
}
