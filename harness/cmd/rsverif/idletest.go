package main

import (
	"fmt"
	"os"
	"time"
)

// idleTest calibrates sessionIdle: an otherwise idle process (goroutines parked
// on channels and timers) must be reported idle by almost every sample; a
// process with a spinning goroutine by none.
func idleTest() {
	block := make(chan struct{})
	for i := 0; i < 8; i++ {
		go func() { <-block }()
	}
	go func() {
		for {
			time.Sleep(3 * time.Millisecond)
		}
	}()
	n, idle := 100, 0
	for i := 0; i < n; i++ {
		time.Sleep(idleTick / 5)
		if sessionIdle() {
			idle++
		}
	}
	stop := make(chan struct{})
	go idleSpin(stop)
	busyIdle := 0
	for i := 0; i < n; i++ {
		time.Sleep(idleTick / 5)
		if sessionIdle() {
			busyIdle++
		}
	}
	close(stop)
	fmt.Printf("{\"parked_idle\":%d,\"spinning_idle\":%d,\"samples\":%d}\n", idle, busyIdle, n)
	if idle < n*95/100 || busyIdle > n/20 {
		os.Exit(1)
	}
}

func idleSpin(stop chan struct{}) {
	x := 0
	for {
		select {
		case <-stop:
			return
		default:
			x++
		}
	}
}
