package main

import (
	"encoding/binary"
	"fmt"
	"sort"
	"strings"

	"github.com/gokrazy/rsync/verifharness/wirekit"
)

// Action-level trace of one COMPLETE session (pull or push) for RsyncTrace.tla:
// every item that enters one of the two ROLE channels of Rsync.tla
//
//	up   (generator -> sender):  ver | seed | rule k | rend | idx i | sum i | m 1 | m 2 | bye
//	down (sender -> receiver):   ver | seed | rule k | rend | ent | lend | ans i | tok i | end i | ack 1 | ack 2 | stats
//
// with the data each carries, in the total order of the transport (sequence
// numbers taken under the pipe mutex when the bytes were accepted).  When the
// client receives (pull) the role channel up is the physical client->server
// stream; when it sends (push) it is the multiplexed server->client stream.
type fullEv struct {
	Ch    string `json:"ch"`
	Item  string `json:"item"`
	F     int    `json:"f"`    // 1-based index into the sorted list | marker number | rule number
	Name  string `json:"name"` // ent, idx, ans, tok, end: the entry's name
	T     string `json:"t"`
	Sz    int64  `json:"sz"`
	Mt    int64  `json:"mt"`
	Perm  int    `json:"perm"`
	Tgt   string `json:"tgt"`
	N     int    `json:"n"`   // idx: number of block checksums that follow
	Dry   bool   `json:"dry"` // idx: the bare index of a dry run
	Lit   int64  `json:"lit"`
	Match int64  `json:"match"`
	Inc   bool   `json:"inc"`
	Pat   string `json:"pat"`
	// args (daemon protocol): the options as a server parsing the argument lines left to right ends up with
	Sender bool            `json:"sender"`
	SOpts  map[string]bool `json:"sopts,omitempty"`
}

type fullObs struct {
	Dir    string   `json:"dir"`
	Mode   string   `json:"mode"` // cmd | daemon
	Events []fullEv `json:"events"`
	Err    string   `json:"err"`
}

type fullOpts struct {
	List   wirekit.ListOpts
	Dry    bool
	Del    bool
	Daemon bool // the daemon protocol (text greetings, module, OK, argument lines) instead of the binary version exchange
}

// serverView parses daemon argument lines the way a protocol-27 server does: left to right, a later option
// overriding an earlier one, -D meaning --devices --specials.
func serverView(lines []string) (sender bool, o map[string]bool) {
	o = map[string]bool{"r": false, "l": false, "p": false, "t": false, "dv": false, "sp": false, "c": false, "I": false, "n": false, "del": false, "o": false, "g": false}
	long := map[string][2]string{"--delete": {"del", "1"}, "--devices": {"dv", "1"}, "--specials": {"sp", "1"}, "--no-devices": {"dv", ""}, "--no-specials": {"sp", ""},
		"--checksum": {"c", "1"}, "--dry-run": {"n", "1"}, "--ignore-times": {"I", "1"}, "--recursive": {"r", "1"}, "--links": {"l", "1"}, "--perms": {"p", "1"},
		"--times": {"t", "1"}, "--owner": {"o", "1"}, "--group": {"g", "1"}, "--no-D": {"", ""}}
	for _, a := range lines {
		switch {
		case a == "--sender":
			sender = true
		case a == "--no-D":
			o["dv"], o["sp"] = false, false
		case strings.HasPrefix(a, "--"):
			if kv, ok := long[a]; ok && kv[0] != "" {
				o[kv[0]] = kv[1] != ""
			}
		case strings.HasPrefix(a, "-") && len(a) > 1:
			for _, c := range a[1:] {
				switch c {
				case 'r', 'l', 'p', 't', 'c', 'I', 'n', 'o', 'g':
					o[string(c)] = true
				case 'D':
					o["dv"], o["sp"] = true, true
				case 'a':
					for _, k := range []string{"r", "l", "p", "t", "g", "o", "dv", "sp"} {
						o[k] = true
					}
				}
			}
		}
	}
	return
}

// lstream is one physical direction as a logical byte stream plus the map
// from logical to raw offsets (identity for the plain client->server stream).
type lstream struct {
	phys   string // pipe name in the operation log: "up" (client->server) | "down" (server->client)
	b      []byte
	rawEnd func(lend int) int
}

type fItem struct {
	ev   fullEv
	phys string
	end  int // raw end offset in the physical stream
}

func modeType(mode int32) string {
	switch mode & wirekit.SIFMT {
	case wirekit.SIFREG:
		return "reg"
	case wirekit.SIFDIR:
		return "dir"
	case wirekit.SIFLNK:
		return "lnk"
	case wirekit.SIFIFO:
		return "fifo"
	case wirekit.SIFSOCK:
		return "sock"
	case wirekit.SIFCHR:
		return "chr"
	case wirekit.SIFBLK:
		return "blk"
	}
	return "other"
}

func (r *wireRec) analyseFull(push bool, fo fullOpts) *fullObs {
	r.mu.Lock()
	defer r.mu.Unlock()
	out := &fullObs{Dir: "pull", Events: []fullEv{}}
	if push {
		out.Dir = "push"
	}
	fail := func(f string, a ...any) *fullObs { out.Err = fmt.Sprintf(f, a...); return out }
	out.Mode = "cmd"
	if fo.Daemon {
		out.Mode = "daemon"
	}
	// ---- the text preamble of the daemon protocol
	readLine := func(b []byte, pos int) (string, int, bool) {
		for i := pos; i < len(b); i++ {
			if b[i] == '\n' {
				return string(b[pos:i]), i + 1, true
			}
		}
		return "", pos, false
	}
	type pre struct {
		item string
		end  int
		args []string
	}
	var cpre, spre []pre
	cpos, spos := 0, 0
	if fo.Daemon {
		l, p, ok := readLine(r.up, cpos)
		if !ok || l != "@RSYNCD: 27" {
			return fail("client greeting %q", l)
		}
		cpos = p
		cpre = append(cpre, pre{"greet", cpos, nil})
		if l, p, ok = readLine(r.up, cpos); !ok {
			return fail("client stream: no module line")
		}
		cpos = p
		cpre = append(cpre, pre{"module", cpos, nil})
		var args []string
		for {
			if l, p, ok = readLine(r.up, cpos); !ok {
				return fail("client stream: argument lines not terminated")
			}
			cpos = p
			if l == "" {
				break
			}
			args = append(args, l)
		}
		cpre = append(cpre, pre{"args", cpos, args})
		if l, p, ok = readLine(r.down, spos); !ok || !strings.HasPrefix(l, "@RSYNCD: 27") {
			return fail("server greeting %q", l)
		}
		spos = p
		spre = append(spre, pre{"greet", spos, nil})
		if l, p, ok = readLine(r.down, spos); !ok || l != "@RSYNCD: OK" {
			return fail("server reply %q", l)
		}
		spos = p
		spre = append(spre, pre{"ok", spos, nil})
	}
	// ---- the two physical streams as logical streams
	c2s := &lstream{phys: "up", b: r.up, rawEnd: func(l int) int { return l }}
	hdr := spos + 4 // raw bytes of the server stream before multiplexing starts: [version] seed
	if !fo.Daemon {
		hdr = 8
	}
	if len(r.down) < hdr {
		return fail("server stream: short (%d bytes)", len(r.down))
	}
	type seg struct{ lstart, rstart, n int }
	var segs []seg
	logical := append([]byte(nil), r.down[:hdr]...)
	for pos := hdr; pos < len(r.down); {
		if pos+4 > len(r.down) {
			return fail("server stream: truncated frame header at %d", pos)
		}
		hv := binary.LittleEndian.Uint32(r.down[pos:])
		tag, n := int(hv>>24)-7, int(hv&0xffffff)
		pos += 4
		if pos+n > len(r.down) {
			return fail("server stream: truncated frame at %d", pos)
		}
		if tag == 0 {
			segs = append(segs, seg{len(logical), pos, n})
			logical = append(logical, r.down[pos:pos+n]...)
		} else if tag == 1 {
			return fail("server reported an error: %q", string(r.down[pos:pos+n]))
		}
		pos += n
	}
	rawLen := len(r.down)
	s2c := &lstream{phys: "down", b: logical, rawEnd: func(lend int) int {
		if lend <= hdr {
			return lend
		}
		i := sort.Search(len(segs), func(i int) bool { return segs[i].lstart+segs[i].n >= lend })
		if i == len(segs) {
			return rawLen
		}
		return segs[i].rstart + (lend - segs[i].lstart)
	}}
	roleUp, roleDown := c2s, s2c // pull: the client is the receiving side
	cliCh, srvCh := "up", "down"
	if push {
		roleUp, roleDown = s2c, c2s
		cliCh, srvCh = "down", "up"
	}
	var items []fItem
	add := func(ls *lstream, lend int, ev fullEv) { items = append(items, fItem{ev, ls.phys, ls.rawEnd(lend)}) }
	cr := &posReader{b: c2s.b, pos: cpos}
	sr := &posReader{b: s2c.b, pos: spos}
	if fo.Daemon {
		for _, x := range cpre {
			ev := fullEv{Ch: cliCh, Item: x.item}
			if x.item == "args" {
				ev.Sender, ev.SOpts = serverView(x.args)
			}
			add(c2s, x.end, ev)
		}
		for _, x := range spre {
			add(s2c, x.end, fullEv{Ch: srvCh, Item: x.item})
		}
	} else {
		// ---- handshake: client version; server version
		if v, err := cr.i32(); err != nil || v != 27 {
			return fail("client version: %v %v", v, err)
		}
		add(c2s, cr.pos, fullEv{Ch: cliCh, Item: "ver"})
		if v, err := sr.i32(); err != nil || v != 27 {
			return fail("server version: %v %v", v, err)
		}
		add(s2c, sr.pos, fullEv{Ch: srvCh, Item: "ver"})
	}
	if _, err := sr.i32(); err != nil {
		return fail("seed: %v", err)
	}
	add(s2c, sr.pos, fullEv{Ch: srvCh, Item: "seed"})
	// ---- filter rules (client -> server): always when pulling, with --delete when pushing
	if !push || fo.Del {
		for k := 1; ; k++ {
			n, err := cr.i32()
			if err != nil {
				return fail("filter list: %v", err)
			}
			if n == 0 {
				add(c2s, cr.pos, fullEv{Ch: cliCh, Item: "rend"})
				break
			}
			if n < 0 || cr.pos+int(n) > len(cr.b) {
				return fail("filter list: bad length %d", n)
			}
			text := string(cr.b[cr.pos : cr.pos+int(n)])
			cr.pos += int(n)
			ev := fullEv{Ch: cliCh, Item: "rule", F: k, Pat: text}
			if strings.HasPrefix(text, "- ") {
				ev.Pat = text[2:]
			} else if strings.HasPrefix(text, "+ ") {
				ev.Inc, ev.Pat = true, text[2:]
			}
			add(c2s, cr.pos, ev)
		}
	}
	ur, dr := cr, sr // readers of the role channels, positioned after the handshake
	if push {
		ur, dr = sr, cr
	}
	// ---- down: file list
	var sorted []wirekit.Entry
	{
		wr := &wirekit.R{R: dr}
		wr.OnEntry = func(e *wirekit.Entry) {
			add(roleDown, dr.pos, fullEv{Ch: "down", Item: "ent", Name: e.Name, T: modeType(e.Mode), Sz: e.Size, Mt: int64(e.Mtime),
				Perm: int(e.Mode & 0o7777), Tgt: e.Link})
		}
		fl, err := wr.DecodeList(fo.List)
		if err != nil {
			return fail("file list: %v", err)
		}
		add(roleDown, dr.pos, fullEv{Ch: "down", Item: "lend", F: int(fl.IOErr)})
		sorted = fl.SortedEntries()
	}
	nameOf := func(idx int32) (string, bool) {
		if idx < 0 || int(idx) >= len(sorted) {
			return "", false
		}
		return sorted[idx].Name, true
	}
	// ---- up: requests, phase markers, goodbye
	markers := 0
	for ur.pos < len(ur.b) {
		idx, err := ur.i32()
		if err != nil {
			return fail("up: %v", err)
		}
		if idx == -1 {
			markers++
			switch {
			case markers <= 2:
				add(roleUp, ur.pos, fullEv{Ch: "up", Item: "m", F: markers})
			case markers == 3:
				add(roleUp, ur.pos, fullEv{Ch: "up", Item: "bye"})
			default:
				return fail("up: more than three end markers")
			}
			continue
		}
		if markers > 0 {
			return fail("up: request for index %d after an end marker (redo phase)", idx)
		}
		name, ok := nameOf(idx)
		if !ok {
			return fail("up: request for index %d outside the list of %d", idx, len(sorted))
		}
		if fo.Dry {
			add(roleUp, ur.pos, fullEv{Ch: "up", Item: "idx", F: int(idx) + 1, Name: name, Dry: true})
			continue
		}
		idxEnd := ur.pos
		var h [4]int32
		for i := range h {
			if h[i], err = ur.i32(); err != nil {
				return fail("up sum head: %v", err)
			}
		}
		if h[0] < 0 || h[2] < 0 || h[2] > 16 {
			return fail("up sum head: %v", h)
		}
		if err := ur.skip(int(h[0]) * (4 + int(h[2]))); err != nil {
			return fail("up sums: %v", err)
		}
		add(roleUp, idxEnd, fullEv{Ch: "up", Item: "idx", F: int(idx) + 1, Name: name, N: int(h[0])})
		add(roleUp, ur.pos, fullEv{Ch: "up", Item: "sum", F: int(idx) + 1, Name: name})
	}
	if markers != 3 {
		return fail("up: %d end markers, want 3", markers)
	}
	// ---- down: answers, acknowledgements, statistics
	acks := 0
	for acks < 2 {
		idx, err := dr.i32()
		if err != nil {
			return fail("down: %v", err)
		}
		if idx == -1 {
			acks++
			add(roleDown, dr.pos, fullEv{Ch: "down", Item: "ack", F: acks})
			continue
		}
		name, ok := nameOf(idx)
		if !ok {
			return fail("down: data for index %d outside the list of %d", idx, len(sorted))
		}
		if fo.Dry {
			add(roleDown, dr.pos, fullEv{Ch: "down", Item: "ans", F: int(idx) + 1, Name: name})
			continue
		}
		var h [4]int32
		for i := range h {
			if h[i], err = dr.i32(); err != nil {
				return fail("down sum head: %v", err)
			}
		}
		add(roleDown, dr.pos, fullEv{Ch: "down", Item: "ans", F: int(idx) + 1, Name: name})
		var lit, match int64
		for {
			t, err := dr.i32()
			if err != nil {
				return fail("down token: %v", err)
			}
			if t == 0 {
				dr.pos -= 4
				break
			}
			if t > 0 {
				if err := dr.skip(int(t)); err != nil {
					return fail("down literal: %v", err)
				}
				lit += int64(t)
				continue
			}
			blk := -(t + 1)
			if blk >= h[0] {
				return fail("down: reference to block %d of %d", blk, h[0])
			}
			if blk == h[0]-1 && h[3] > 0 {
				match += int64(h[3])
			} else {
				match += int64(h[1])
			}
		}
		add(roleDown, dr.pos, fullEv{Ch: "down", Item: "tok", F: int(idx) + 1, Name: name, Lit: lit, Match: match})
		if err := dr.skip(4 + 16); err != nil {
			return fail("down trailer: %v", err)
		}
		add(roleDown, dr.pos, fullEv{Ch: "down", Item: "end", F: int(idx) + 1, Name: name})
	}
	if !push {
		for i := 0; i < 3; i++ { // total read, total written, total size
			v, err := dr.i32()
			if err != nil {
				return fail("down stats: %v", err)
			}
			if v == -1 {
				if err := dr.skip(8); err != nil {
					return fail("down stats: %v", err)
				}
			}
		}
		add(roleDown, dr.pos, fullEv{Ch: "down", Item: "stats"})
	}
	if dr.pos != len(dr.b) {
		return fail("down: %d unexplained bytes at the end", len(dr.b)-dr.pos)
	}
	// ---- order by the transport's sequence numbers
	type wop struct {
		seq int64
		end int
	}
	ops := map[string][]wop{}
	cum := map[string]int{}
	for _, op := range r.log.Snapshot() {
		if op.Kind == "w" {
			cum[op.Pipe] += op.N
			ops[op.Pipe] = append(ops[op.Pipe], wop{op.Seq, cum[op.Pipe]})
		}
	}
	if cum["up"] != len(r.up) || cum["down"] != len(r.down) {
		return fail("operation log and tapped bytes disagree: up %d/%d down %d/%d", cum["up"], len(r.up), cum["down"], len(r.down))
	}
	type sev struct {
		seq int64
		it  fItem
		ord int
	}
	var evs []sev
	for k, it := range items {
		o := ops[it.phys]
		i := sort.Search(len(o), func(i int) bool { return o[i].end >= it.end })
		if i == len(o) {
			return fail("item %v ends after the last write", it.ev)
		}
		evs = append(evs, sev{o[i].seq, it, k})
	}
	sort.SliceStable(evs, func(i, j int) bool {
		if evs[i].seq != evs[j].seq {
			return evs[i].seq < evs[j].seq
		}
		if evs[i].it.phys == evs[j].it.phys {
			return evs[i].it.end < evs[j].it.end
		}
		return evs[i].ord < evs[j].ord
	})
	for _, e := range evs {
		out.Events = append(out.Events, e.it.ev)
	}
	return out
}
