package main

import (
	"bufio"
	"encoding/json"
	"fmt"
	"io"
	"strings"
	"time"

	"github.com/gokrazy/rsync/rsyncd"
	"github.com/gokrazy/rsync/verifharness/drv"
)

// aclScn: one connection attempt of a client address to a module with an ACL (C19).
type aclScn struct {
	ID     int             `json:"id"`
	Rules  []string        `json:"rules"`
	Addr   string          `json:"addr"`
	ARules json.RawMessage `json:"arules"`
	AAddr  json.RawMessage `json:"aaddr"`
}

type aclObs struct {
	ID       int             `json:"id"`
	Rules    []string        `json:"rules"`
	Addr     string          `json:"addr"`
	ARules   json.RawMessage `json:"arules"`
	AAddr    json.RawMessage `json:"aaddr"`
	Reply    string          `json:"reply"` // ok | error | other
	Line     string          `json:"line"`
	Trailing int             `json:"trailing"` // bytes the daemon sent after the @ERROR line
}

func init() { handlers["acl"] = aclHandler }

func aclHandler(w *workerCtx, line []byte) (any, error) {
	var s aclScn
	if err := json.Unmarshal(line, &s); err != nil {
		return nil, err
	}
	obs := &aclObs{ID: s.ID, Rules: s.Rules, Addr: s.Addr, ARules: s.ARules, AAddr: s.AAddr}
	if obs.Rules == nil {
		obs.Rules = []string{}
	}
	srv, err := drv.NewServer([]rsyncd.Module{{Name: "m", Path: w.dir, ACL: s.Rules}}, nil)
	if err != nil {
		return nil, err
	}
	name := s.Addr + ":40000"
	if strings.Contains(s.Addr, ":") {
		name = "[" + s.Addr + "]:40000"
	}
	p := drv.StartDaemon(srv, name, -1, -1, nil)
	defer p.End.Close()
	rd := bufio.NewReader(p.End)
	fmt.Fprintf(p.End, "@RSYNCD: 27\nm\n")
	greet, err := rd.ReadString('\n')
	if err != nil || !strings.HasPrefix(greet, "@RSYNCD: ") {
		return nil, fmt.Errorf("greeting: %q %v", greet, err)
	}
	reply, err := rd.ReadString('\n')
	obs.Line = strings.TrimSpace(reply)
	switch {
	case obs.Line == "@RSYNCD: OK":
		obs.Reply = "ok"
	case strings.HasPrefix(obs.Line, "@ERROR"):
		obs.Reply = "error"
		// the daemon must send nothing more and end the session
		done := make(chan int, 1)
		go func() {
			n, _ := io.Copy(io.Discard, rd)
			done <- int(n)
		}()
		select {
		case n := <-done:
			obs.Trailing = n
		case <-idleAfter(5 * time.Second):
			obs.Trailing = -1 // session not ended
		}
	default:
		obs.Reply = "other"
	}
	return obs, nil
}
