package main

import (
	"encoding/binary"
	"fmt"
	"sort"
	"sync"

	"github.com/gokrazy/rsync/verifharness/wirekit"
	"github.com/gokrazy/rsync/verifharness/xport"
)

// Action-level trace of one pull session (C18, SessionWire.tla): every item
// that enters one of the two channels, in the total order of the transport
// (sequence numbers taken under the pipe mutex when the bytes were accepted).
//
//	up   (generator -> sender):   idx f | sum f (sum head + block sums) | m 1 | m 2 | bye
//	down (sender -> receiver):    ans f (index + sum head) | tok f (all tokens) | end f (end token + file checksum) | ack 1 | ack 2 | stats
type wireEv struct {
	Ch   string `json:"ch"`
	Item string `json:"item"`
	F    int    `json:"f"`
}

type wireObs struct {
	NF     int      `json:"nf"`
	Events []wireEv `json:"events"`
	Err    string   `json:"err"`
	UpLen  int      `json:"uplen"`
	DnLen  int      `json:"downlen"`
}

type wireRec struct {
	log  *xport.Log
	mu   sync.Mutex
	up   []byte
	down []byte
}

func newWireRec() *wireRec { return &wireRec{log: &xport.Log{}} }

func (r *wireRec) attach(up, down *xport.Pipe) {
	up.Tap = func(p []byte) { r.mu.Lock(); r.up = append(r.up, p...); r.mu.Unlock() }
	down.Tap = func(p []byte) { r.mu.Lock(); r.down = append(r.down, p...); r.mu.Unlock() }
}

type wItem struct {
	ch   string
	item string
	idx  int32 // real file index (or marker number)
	end  int   // raw end offset in its pipe's byte stream
}

type posReader struct {
	b   []byte
	pos int
}

func (p *posReader) Read(b []byte) (int, error) {
	if p.pos >= len(p.b) {
		return 0, fmt.Errorf("short stream at %d", p.pos)
	}
	n := copy(b, p.b[p.pos:])
	p.pos += n
	return n, nil
}

func (p *posReader) i32() (int32, error) {
	if p.pos+4 > len(p.b) {
		return 0, fmt.Errorf("short stream at %d", p.pos)
	}
	v := int32(binary.LittleEndian.Uint32(p.b[p.pos:]))
	p.pos += 4
	return v, nil
}

func (p *posReader) skip(n int) error {
	if n < 0 || p.pos+n > len(p.b) {
		return fmt.Errorf("short stream at %d (+%d)", p.pos, n)
	}
	p.pos += n
	return nil
}

// analyse parses both streams of a finished pull session into items and orders
// them by the transport's sequence numbers.
func (r *wireRec) analyse(lo wirekit.ListOpts) *wireObs {
	r.mu.Lock()
	defer r.mu.Unlock()
	out := &wireObs{Events: []wireEv{}, UpLen: len(r.up), DnLen: len(r.down)}
	fail := func(f string, a ...any) *wireObs { out.Err = fmt.Sprintf(f, a...); return out }
	var items []wItem
	// ---- up: version, filter list, requests
	u := &posReader{b: r.up}
	if err := u.skip(4); err != nil {
		return fail("up: %v", err)
	}
	for {
		n, err := u.i32()
		if err != nil {
			return fail("up filter list: %v", err)
		}
		if n == 0 {
			break
		}
		if err := u.skip(int(n)); err != nil {
			return fail("up filter list: %v", err)
		}
	}
	markers := 0
	for u.pos < len(u.b) {
		idx, err := u.i32()
		if err != nil {
			return fail("up: %v", err)
		}
		if idx == -1 {
			markers++
			switch {
			case markers <= 2:
				items = append(items, wItem{"up", "m", int32(markers), u.pos})
			case markers == 3:
				items = append(items, wItem{"up", "bye", 0, u.pos})
			default:
				return fail("up: more than three markers")
			}
			continue
		}
		if markers >= 2 {
			return fail("up: request after the second marker")
		}
		items = append(items, wItem{"up", "idx", idx, u.pos})
		var h [4]int32
		for i := range h {
			if h[i], err = u.i32(); err != nil {
				return fail("up sum head: %v", err)
			}
		}
		if h[0] < 0 || h[2] < 0 || h[2] > 16 {
			return fail("up sum head: %v", h)
		}
		if err := u.skip(int(h[0]) * (4 + int(h[2]))); err != nil {
			return fail("up sums: %v", err)
		}
		items = append(items, wItem{"up", "sum", idx, u.pos})
	}
	// ---- down: version, seed (raw), then multiplexed
	if len(r.down) < 8 {
		return fail("down: short")
	}
	type seg struct{ lstart, rstart, n int }
	var segs []seg
	var logical []byte
	for pos := 8; pos < len(r.down); {
		if pos+4 > len(r.down) {
			return fail("down: truncated frame header at %d", pos)
		}
		hv := binary.LittleEndian.Uint32(r.down[pos:])
		tag, n := int(hv>>24)-7, int(hv&0xffffff)
		pos += 4
		if pos+n > len(r.down) {
			return fail("down: truncated frame at %d", pos)
		}
		if tag == 0 {
			segs = append(segs, seg{len(logical), pos, n})
			logical = append(logical, r.down[pos:pos+n]...)
		}
		pos += n
	}
	rawEnd := func(lend int) int { // raw offset just after logical byte lend-1
		if lend == 0 {
			return 8
		}
		i := sort.Search(len(segs), func(i int) bool { return segs[i].lstart+segs[i].n >= lend })
		if i == len(segs) {
			return len(r.down)
		}
		return segs[i].rstart + (lend - segs[i].lstart)
	}
	d := &posReader{b: logical}
	wr := &wirekit.R{R: d}
	if _, err := wr.DecodeList(lo); err != nil {
		return fail("down file list: %v", err)
	}
	acks := 0
	for acks < 2 {
		idx, err := d.i32()
		if err != nil {
			return fail("down: %v", err)
		}
		if idx == -1 {
			acks++
			items = append(items, wItem{"down", "ack", int32(acks), rawEnd(d.pos)})
			continue
		}
		if err := d.skip(16); err != nil {
			return fail("down sum head: %v", err)
		}
		items = append(items, wItem{"down", "ans", idx, rawEnd(d.pos)})
		for {
			t, err := d.i32()
			if err != nil {
				return fail("down token: %v", err)
			}
			if t == 0 {
				d.pos -= 4
				break
			}
			if t > 0 {
				if err := d.skip(int(t)); err != nil {
					return fail("down literal: %v", err)
				}
			}
		}
		items = append(items, wItem{"down", "tok", idx, rawEnd(d.pos)})
		if err := d.skip(4 + 16); err != nil {
			return fail("down trailer: %v", err)
		}
		items = append(items, wItem{"down", "end", idx, rawEnd(d.pos)})
	}
	for i := 0; i < 3; i++ { // total read, total written, total size
		v, err := d.i32()
		if err != nil {
			return fail("down stats: %v", err)
		}
		if v == -1 {
			if err := d.skip(8); err != nil {
				return fail("down stats: %v", err)
			}
		}
	}
	items = append(items, wItem{"down", "stats", 0, rawEnd(d.pos)})
	if d.pos != len(logical) {
		return fail("down: %d unexplained bytes after the statistics", len(logical)-d.pos)
	}
	// ---- order by the transport's sequence numbers
	type wop struct {
		seq int64
		end int
	}
	ops := map[string][]wop{}
	cum := map[string]int{}
	for _, op := range r.log.Snapshot() {
		if op.Kind == "w" {
			cum[op.Pipe] += op.N
			ops[op.Pipe] = append(ops[op.Pipe], wop{op.Seq, cum[op.Pipe]})
		}
	}
	if cum["up"] != len(r.up) || cum["down"] != len(r.down) {
		return fail("operation log and tapped bytes disagree: up %d/%d down %d/%d", cum["up"], len(r.up), cum["down"], len(r.down))
	}
	type ev struct {
		seq int64
		it  wItem
	}
	var evs []ev
	for _, it := range items {
		o := ops[it.ch]
		i := sort.Search(len(o), func(i int) bool { return o[i].end >= it.end })
		if i == len(o) {
			return fail("item %v ends after the last write", it)
		}
		evs = append(evs, ev{o[i].seq, it})
	}
	sort.SliceStable(evs, func(i, j int) bool {
		if evs[i].seq != evs[j].seq {
			return evs[i].seq < evs[j].seq
		}
		return evs[i].it.end < evs[j].it.end
	})
	ord := map[int32]int{}
	for _, e := range evs {
		f := int(e.it.idx)
		if e.it.item == "idx" || e.it.item == "sum" || e.it.item == "ans" || e.it.item == "tok" || e.it.item == "end" {
			if _, ok := ord[e.it.idx]; !ok {
				if e.it.item != "idx" {
					return fail("item %s for file index %d before its request", e.it.item, e.it.idx)
				}
				ord[e.it.idx] = len(ord) + 1
			} else if e.it.item == "idx" {
				// requested again (redo phase): outside Session.tla's happy path
				return fail("file index %d requested twice", e.it.idx)
			}
			f = ord[e.it.idx]
		}
		out.Events = append(out.Events, wireEv{e.it.ch, e.it.item, f})
	}
	out.NF = len(ord)
	return out
}
