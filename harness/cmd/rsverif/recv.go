package main

import (
	"encoding/json"
	"fmt"
	"os"
	"path/filepath"
	"sort"
	"strings"
	"time"

	"github.com/gokrazy/rsync/rsyncd"
	"github.com/gokrazy/rsync/verifharness/drv"
	"github.com/gokrazy/rsync/verifharness/fstree"
	"github.com/gokrazy/rsync/verifharness/wirekit"
)

// recvScn: a receiving-side scenario (RecvScen.tla Emit + fields added by the driver).
type recvScn struct {
	ID       int              `json:"id"`
	Family   string           `json:"family"`
	Universe []string         `json:"universe"`
	Dst      []fstree.Node    `json:"dst"`
	List     []recvEntry      `json:"list"`
	Opts     map[string]bool  `json:"opts"`
	IOErr    int32            `json:"ioerr"`
	Prot     []string         `json:"prot"`
	Recv     string           `json:"recv"`   // client | daemon
	Chunk    int              `json:"chunk"`  // literal chunk size of the reference sender
	UseIDs   bool             `json:"useids"` // -o -g: send uid/gid fields
	Users    []wirekit.IDName `json:"users"`
	Groups   []wirekit.IDName `json:"groups"`
	Judge    []string         `json:"judge"`  // aspects the property under check constrains (echoed for RecvTrace)
	Repeat   bool             `json:"repeat"` // run the same session a second time against the resulting destination (C12)
	Sub      string           `json:"sub"`    // daemon receiver: destination argument after module-name stripping ("" = "/", the module root)
}

type recvEntry struct {
	Name string `json:"name"`
	T    string `json:"t"`
	C    int    `json:"c"`
	Sz   int64  `json:"sz"`
	Mt   int64  `json:"mt"`
	Perm int    `json:"perm"`
	Tgt  string `json:"tgt"`
	Rdev int    `json:"rdev"`
	UID  int    `json:"uid"`
	GID  int    `json:"gid"`
}

type recvReq struct {
	Name string `json:"name"`
	Kind string `json:"kind"`
	Idx  int32  `json:"idx"`
}

type recvObs struct {
	ID       int             `json:"id"`
	Family   string          `json:"family"`
	Universe []string        `json:"universe"`
	Dst      []fstree.Node   `json:"dst"`
	List     []recvEntry     `json:"list"`
	Opts     map[string]bool `json:"opts"`
	IOErr    int32           `json:"ioerr"`
	Prot     []string        `json:"prot"`
	Recv     string          `json:"recv"`
	Result   string          `json:"result"`
	Err      string          `json:"err"`
	Reqs     []recvReq       `json:"reqs"`
	Final    []fstree.Node   `json:"final"`
	Extra    []string        `json:"extra"` // paths in the final tree outside the universe (e.g. leftover temp files)
	Lit      int64           `json:"lit"`   // literal bytes the reference sender transmitted
	Judge    []string        `json:"judge"`
	Result2  string          `json:"result2"` // repeat: the immediately repeated session
	Reqs2    []recvReq       `json:"reqs2"`   // ... and what the receiver requested in it
	Scn      json.RawMessage `json:"scn,omitempty"`
}

var typeBits = map[string]int32{
	"reg": wirekit.SIFREG, "dir": wirekit.SIFDIR, "lnk": wirekit.SIFLNK, "fifo": wirekit.SIFIFO,
	"sock": wirekit.SIFSOCK, "chr": wirekit.SIFCHR, "blk": wirekit.SIFBLK,
}

func (e *recvEntry) data() []byte { return fstree.Content(e.C, e.Sz) }

func optFlags(o map[string]bool) []string {
	s := "-"
	for _, k := range []string{"r", "l", "p", "t", "c", "I", "n", "o", "g"} {
		if o[k] {
			s += k
		}
	}
	if o["dv"] && o["sp"] {
		s += "D"
	}
	var out []string
	if s != "-" {
		out = append(out, s)
	}
	if o["dv"] && !o["sp"] {
		out = append(out, "--devices")
	}
	if o["sp"] && !o["dv"] {
		out = append(out, "--specials")
	}
	if o["del"] {
		out = append(out, "--delete")
	}
	return out
}

func init() {
	handlers["recv"] = recvHandler
}

func recvHandler(w *workerCtx, line []byte) (any, error) {
	var s recvScn
	if err := json.Unmarshal(line, &s); err != nil {
		return nil, err
	}
	obs := &recvObs{ID: s.ID, Family: s.Family, Universe: s.Universe, Dst: s.Dst, List: s.List, Opts: s.Opts,
		IOErr: s.IOErr, Prot: s.Prot, Recv: s.Recv, Reqs: []recvReq{}, Extra: []string{}, Judge: s.Judge}
	if obs.Judge == nil {
		obs.Judge = []string{}
	}
	if obs.Prot == nil {
		obs.Prot = []string{}
	}
	dest := filepath.Join(w.dir, "dst")
	if err := fstree.Reset(dest); err != nil {
		return nil, err
	}
	if err := fstree.Build(dest, s.Dst); err != nil {
		return nil, fmt.Errorf("building destination: %w", err)
	}
	known := fstree.Known{}
	for _, n := range s.Dst {
		if n.T == "reg" {
			known.Add(n.C, n.Sz)
		}
	}
	// the wire list, in the order given (the scenario lists entries sorted)
	lo := wirekit.ListOpts{Links: s.Opts["l"], Devices: s.Opts["dv"], Specials: s.Opts["sp"], Checksum: s.Opts["c"],
		UID: s.Opts["o"], GID: s.Opts["g"]}
	fl := &wirekit.FileList{IOErr: s.IOErr, Users: s.Users, Groups: s.Groups}
	for _, e := range s.List {
		we := wirekit.Entry{Name: e.Name, Size: e.Sz, Mtime: int32(e.Mt), Mode: typeBits[e.T] | int32(e.Perm),
			Link: e.Tgt, Rdev: int32(e.Rdev), UID: int32(e.UID), GID: int32(e.GID)}
		if e.T == "dir" {
			we.Size = 4096
		}
		if e.Name == "." {
			we.Flags = wirekit.XTopDir
		}
		if e.T == "reg" {
			known.Add(e.C, e.Sz)
			if lo.Checksum {
				we.Sum = wirekit.PlainMD4(e.data())
			}
		}
		fl.Entries = append(fl.Entries, we)
	}
	sorted := append([]recvEntry(nil), s.List...)
	sort.SliceStable(sorted, func(i, j int) bool { return sorted[i].Name < sorted[j].Name })

	args := optFlags(s.Opts)
	// the user's exclude rules behind the protected names: a plain name where the scenario protects that name at
	// every depth ("a" covers "d/a"), a path rule ("d/a") where it protects that one path only
	var protRules []string
	inProt := map[string]bool{}
	for _, p := range s.Prot {
		inProt[p] = true
	}
	for _, p := range s.Prot {
		if b := filepath.Base(p); b != p && inProt[b] {
			continue
		}
		protRules = append(protRules, p)
	}
	for _, p := range protRules {
		args = append(args, "--exclude="+p)
	}
	// one complete session of the reference sender against the real receiver
	session := func(o *recvObs, seedOff int) error {
		var p *drv.RecvPeer
		var err error
		if s.Recv == "daemon" {
			srv, err := drv.NewServer(nil, nil)
			if err != nil {
				return err
			}
			mod := &rsyncd.Module{Name: "m", Path: dest, Writable: true}
			sargs := append([]string{"--server"}, args...)
			sub := s.Sub
			if sub == "" {
				sub = "/"
			}
			sargs = append(sargs, ".", sub)
			p = drv.StartServerReceiver(srv, mod, sargs, -1, -1, nil)
			for _, x := range protRules {
				p.SendRules = append(p.SendRules, "- "+x) // the user's exclude rules protect these names from --delete
			}
			err = p.ClientHandshake(s.Opts["del"])
			if err != nil {
				o.Result, o.Err = "err", "handshake: "+err.Error()
			}
		} else {
			p, err = drv.StartClientReceiver(args, dest, nil, -1, -1, nil)
			if err != nil {
				return err
			}
			if err = p.ServerHandshake(int32(1000 + s.ID + seedOff)); err != nil {
				o.Result, o.Err = "err", "handshake: "+err.Error()
			}
		}
		defer p.End.Close()
		if o.Result == "" {
			err = recvSession(p, &s, fl, lo, sorted, o)
			select {
			case derr := <-p.Done:
				if derr != nil {
					o.Result, o.Err = "err", derr.Error()
				} else if err != nil {
					o.Result, o.Err = "err", "reference sender: "+err.Error()
				} else {
					o.Result = "ok"
				}
			case <-idleAfter(30 * time.Second):
				o.Result, o.Err = "err", fmt.Sprintf("receiver did not finish (sender side: %v)", err)
			}
		}
		return nil
	}
	if err := session(obs, 0); err != nil {
		return nil, err
	}
	final, err := fstree.Snapshot(dest, known)
	if err != nil {
		return nil, fmt.Errorf("snapshot: %w", err)
	}
	uni := map[string]bool{}
	for _, u := range s.Universe {
		uni[u] = true
	}
	for _, n := range final {
		if uni[n.P] {
			obs.Final = append(obs.Final, n)
		} else {
			obs.Extra = append(obs.Extra, n.P)
		}
	}
	obs.Reqs2 = []recvReq{}
	if s.Repeat && obs.Result == "ok" {
		// C12: the same sync again, immediately: what does the receiver ask for now?
		second := &recvObs{Reqs: []recvReq{}}
		if err := session(second, 5000); err != nil {
			return nil, err
		}
		obs.Result2, obs.Reqs2 = second.Result, second.Reqs
	}
	fstree.MakeWritable(dest)
	return obs, nil
}

func recvSession(p *drv.RecvPeer, s *recvScn, fl *wirekit.FileList, lo wirekit.ListOpts, sorted []recvEntry, obs *recvObs) error {
	p.Out.EncodeList(fl, lo, wirekit.NoCompression)
	if p.Out.Err != nil {
		return p.Out.Err
	}
	rs := &wirekit.RefSender{In: p.In, Out: p.Out, Seed: p.Seed, DryRun: s.Opts["n"]}
	rs.Answer = func(req *wirekit.Request) (*wirekit.Answer, error) {
		if req.Idx < 0 || int(req.Idx) >= len(sorted) {
			return nil, fmt.Errorf("receiver requested index %d of %d", req.Idx, len(sorted))
		}
		e := sorted[req.Idx]
		if e.T != "reg" {
			return nil, fmt.Errorf("receiver requested non-regular entry %q", e.Name)
		}
		a := wirekit.DeltaAnswer(p.Seed, req, e.data(), s.Chunk)
		for _, t := range a.Toks {
			if !t.IsRef() {
				obs.Lit += int64(len(t.Lit))
			}
		}
		return a, nil
	}
	err := rs.Serve()
	for _, r := range rs.Requests {
		rr := recvReq{Idx: r.Idx, Name: "?"}
		if r.Idx >= 0 && int(r.Idx) < len(sorted) {
			rr.Name = sorted[r.Idx].Name
		}
		switch {
		case s.Opts["n"]:
			rr.Kind = "dry"
		case r.Head.Count == 0:
			rr.Kind = "full"
		default:
			rr.Kind = "delta"
		}
		obs.Reqs = append(obs.Reqs, rr)
	}
	if err != nil {
		return err
	}
	return p.Finish()
}

var _ = strings.Join
var _ = os.Remove
