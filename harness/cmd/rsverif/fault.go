package main

import (
	"bytes"
	"encoding/binary"
	"encoding/json"
	"fmt"
	"os"
	"path/filepath"
	"sort"
	"time"

	"github.com/gokrazy/rsync/rsyncd"
	"github.com/gokrazy/rsync/verifharness/drv"
	"github.com/gokrazy/rsync/verifharness/fstree"
	"github.com/gokrazy/rsync/verifharness/wirekit"
)

// faultScn: one file transfer to a real receiver with exactly one fault
// injected into the file's data segment or into the receiver's basis (C03).
type faultScn struct {
	ID     int    `json:"id"`
	Basis  []int  `json:"basis"`  // symbols (each Scale bytes); empty: destination absent
	Target []int  `json:"target"` // symbols
	Scale  int    `json:"scale"`
	Recv   string `json:"recv"`
	Fault  struct {
		Kind string `json:"kind"` // none flip-literal swap-ref dup-token drop-token reorder truncate flip-trailer basis-changed bitflip
		K    int    `json:"k"`    // token position (mod number of tokens) / bit position for bitflip
		P    int    `json:"p"`    // parameter (new block index, byte position, ...)
	} `json:"fault"`
	Shape string `json:"shape"`
	// RoDir: the file lies in a directory the sender lists WITHOUT owner write permission (0555) and the session
	// preserves permissions (-p): after the transfer the receiver has a directory touch-up pass to run
	RoDir bool `json:"rodir"`
}

type faultObs struct {
	ID      int             `json:"id"`
	Shape   string          `json:"shape"`
	Recv    string          `json:"recv"`
	Kind    string          `json:"kind"`
	Applied bool            `json:"applied"` // the fault could be applied to this stream
	Denotes string          `json:"denotes"` // what the delivered stream denotes: target | other | unparsable
	Trailer bool            `json:"trailer"` // trailer delivered intact
	Result  string          `json:"result"`  // ok | err | hung
	Err     string          `json:"err"`
	Dst     string          `json:"dst"` // old | new | other | absent
	HadOld  bool            `json:"hadold"`
	Temps   int             `json:"temps"`   // stray entries in the destination directory afterwards
	SegBits int             `json:"segbits"` // size of the file's data segment in bits
	Scn     json.RawMessage `json:"scn"`
}

func init() { handlers["fault"] = faultHandler }

func serializeAnswer(a *wirekit.Answer, fromTok int) (pre, seg []byte) {
	var pb, sb bytes.Buffer
	pw := &wirekit.W{W: &pb}
	pw.Int32(a.Idx)
	sw := &wirekit.W{W: &sb}
	sw.SumHead(a.Head)
	sw.Tokens(a.Toks)
	sw.Bytes(a.Sum[:])
	return pb.Bytes(), sb.Bytes()
}

// denote interprets a (possibly damaged) data segment against basis.
func denote(seg []byte, basis []byte) (data []byte, sum []byte, ok bool) {
	r := &wirekit.R{R: bytes.NewReader(seg)}
	h, err := r.SumHead()
	if err != nil || h.Count < 0 || h.Blk < 0 || h.Rem < 0 || h.Rem > h.Blk {
		return nil, nil, false
	}
	toks, err := r.ReadTokens()
	if err != nil {
		return nil, nil, false
	}
	for _, t := range toks {
		if !t.IsRef() {
			data = append(data, t.Lit...)
			continue
		}
		if t.Ref < 0 || t.Ref >= h.Count {
			return nil, nil, false
		}
		off := int64(t.Ref) * int64(h.Blk)
		l := int64(h.BlockLen(t.Ref))
		if off+l > int64(len(basis)) {
			return nil, nil, false
		}
		data = append(data, basis[off:off+l]...)
	}
	sum, err = r.Bytes(16)
	if err != nil {
		return nil, nil, false
	}
	return data, sum, true
}

func faultHandler(w *workerCtx, line []byte) (any, error) {
	var s faultScn
	if err := json.Unmarshal(line, &s); err != nil {
		return nil, err
	}
	if s.Scale < 1 {
		s.Scale = 1
	}
	obs := &faultObs{ID: s.ID, Shape: s.Shape, Recv: s.Recv, Kind: s.Fault.Kind, Scn: json.RawMessage(line)}
	// symbols < 100 are full blocks (Scale bytes), symbols >= 100 narrow fresh data (16 bytes)
	conc := func(syms []int) []byte {
		out := []byte{}
		for _, v := range syms {
			if v >= 100 {
				out = append(out, symBytes(v, 16, 77)...)
			} else {
				out = append(out, symBytes(v, s.Scale, 77)...)
			}
		}
		return out
	}
	basis := conc(s.Basis)
	target := conc(s.Target)
	obs.HadOld = len(s.Basis) > 0
	dest := filepath.Join(w.dir, "dst")
	if err := fstree.Reset(dest); err != nil {
		return nil, err
	}
	fname := "f"
	if s.RoDir {
		fname = "ro/f"
		os.MkdirAll(filepath.Join(dest, "ro"), 0o755)
	}
	fpath := filepath.Join(dest, fname)
	if obs.HadOld {
		if err := os.WriteFile(fpath, basis, 0o644); err != nil {
			return nil, err
		}
		old := time.Unix(1_000_000, 0)
		os.Chtimes(fpath, old, old)
	}
	lo := wirekit.ListOpts{}
	fl := &wirekit.FileList{Entries: []wirekit.Entry{
		{Name: ".", Size: 4096, Mtime: 2_000_000, Mode: wirekit.SIFDIR | 0o755, Flags: wirekit.XTopDir},
		{Name: fname, Size: int64(len(target)), Mtime: 2_000_000, Mode: wirekit.SIFREG | 0o644},
	}}
	rflags := "-rt"
	if s.RoDir {
		fl.Entries = append(fl.Entries, wirekit.Entry{Name: "ro", Size: 4096, Mtime: 2_000_000, Mode: wirekit.SIFDIR | 0o555})
		rflags = "-rtp"
	}
	args := []string{rflags}
	var p *drv.RecvPeer
	var err error
	if s.Recv == "daemon" {
		srv, err := drv.NewServer(nil, nil)
		if err != nil {
			return nil, err
		}
		mod := &rsyncd.Module{Name: "m", Path: dest, Writable: true}
		p = drv.StartServerReceiver(srv, mod, []string{"--server", rflags, ".", "/"}, -1, -1, nil)
		err = p.ClientHandshake(false)
		if err != nil {
			return nil, fmt.Errorf("handshake: %w", err)
		}
	} else {
		p, err = drv.StartClientReceiver(args, dest, nil, -1, -1, nil)
		if err != nil {
			return nil, err
		}
		if err = p.ServerHandshake(int32(4242 + s.ID)); err != nil {
			return nil, fmt.Errorf("handshake: %w", err)
		}
	}
	defer p.End.Close()
	p.Out.EncodeList(fl, lo, wirekit.NoCompression)
	if p.Out.Err != nil {
		return nil, p.Out.Err
	}
	curBasis := basis
	rs := &wirekit.RefSender{In: p.In, Out: p.Out, Seed: p.Seed}
	rs.Answer = func(req *wirekit.Request) (*wirekit.Answer, error) {
		wantIdx := int32(1)
		if s.RoDir {
			wantIdx = 2 // ".", "ro", "ro/f"
		}
		if req.Idx != wantIdx {
			return nil, fmt.Errorf("unexpected request for index %d", req.Idx)
		}
		a := wirekit.DeltaAnswer(p.Seed, req, target, 64)
		k := s.Fault.K
		nt := len(a.Toks)
		applied := true
		switch s.Fault.Kind {
		case "none":
		case "flip-literal":
			var lits []int
			for i, t := range a.Toks {
				if !t.IsRef() {
					lits = append(lits, i)
				}
			}
			if len(lits) == 0 {
				applied = false
				break
			}
			i := lits[k%len(lits)]
			l := append([]byte(nil), a.Toks[i].Lit...)
			l[s.Fault.P%len(l)] ^= 0x10
			a.Toks[i] = wirekit.Token{Lit: l}
		case "swap-ref":
			var refs []int
			for i, t := range a.Toks {
				if t.IsRef() {
					refs = append(refs, i)
				}
			}
			if len(refs) == 0 {
				applied = false
				break
			}
			i := refs[k%len(refs)]
			ni := int32(s.Fault.P) % (req.Head.Count + 1) // count itself = out of range
			if ni == a.Toks[i].Ref {
				ni = (ni + 1) % (req.Head.Count + 1)
			}
			a.Toks[i] = wirekit.Token{Ref: ni}
		case "dup-token":
			if nt == 0 {
				applied = false
				break
			}
			i := k % nt
			a.Toks = append(a.Toks[:i+1], a.Toks[i:]...)
		case "drop-token":
			if nt == 0 {
				applied = false
				break
			}
			i := k % nt
			a.Toks = append(append([]wirekit.Token(nil), a.Toks[:i]...), a.Toks[i+1:]...)
		case "reorder":
			if nt < 2 {
				applied = false
				break
			}
			i := k % (nt - 1)
			a.Toks[i], a.Toks[i+1] = a.Toks[i+1], a.Toks[i]
		case "flip-trailer":
			a.Sum[k%16] ^= 1 << (uint(s.Fault.P) % 8)
		case "basis-changed":
			if len(curBasis) == 0 {
				applied = false
				break
			}
			nb := append([]byte(nil), curBasis...)
			nb[(s.Fault.P*s.Scale+k)%len(nb)] ^= 0x01
			// replace the content in place (same inode is not required: the receiver opens it after reading our index)
			if err := os.WriteFile(fpath, nb, 0o644); err != nil {
				return nil, err
			}
			curBasis = nb
		}
		pre, seg := serializeAnswer(a, 0)
		obs.SegBits = len(seg) * 8
		stop := false
		switch s.Fault.Kind {
		case "bitflip":
			if k >= len(seg)*8 {
				applied = false
			} else {
				seg = append([]byte(nil), seg...)
				seg[k/8] ^= 1 << (uint(k) % 8)
			}
		case "truncate":
			n := k % (len(seg))
			seg = seg[:n]
			stop = true
		}
		obs.Applied = applied
		data, sum, ok := denote(seg, curBasis)
		want := wirekit.FileSum(p.Seed, target)
		switch {
		case !ok:
			obs.Denotes = "unparsable"
		case bytes.Equal(data, target):
			obs.Denotes = "target"
		default:
			obs.Denotes = "other"
		}
		obs.Trailer = ok && bytes.Equal(sum, want[:])
		return &wirekit.Answer{Raw: append(pre, seg...), Stop: stop}, nil
	}
	srvErr := make(chan error, 1)
	go func() {
		err := rs.Serve()
		if err == nil {
			err = p.Finish()
		}
		srvErr <- err
	}()
	var derr error
	finished := false
	select {
	case derr = <-p.Done:
		finished = true
	case <-idleAfter(1 * time.Second):
	case serr := <-srvErr:
		_ = serr
		select {
		case derr = <-p.Done:
			finished = true
		case <-idleAfter(1 * time.Second):
		}
	}
	if !finished {
		// the receiver waits for bytes that will never come: end the stream
		p.End.Out.CloseWrite()
		select {
		case derr = <-p.Done:
			finished = true // the receiver's own verdict stands, whatever it is
		case <-idleAfter(10 * time.Second):
		}
	}
	switch {
	case !finished:
		obs.Result = "hung"
	case derr != nil:
		obs.Result, obs.Err = "err", derr.Error()
	default:
		obs.Result = "ok"
	}
	p.End.Close()
	// give deferred cleanups of the receiver a moment (temp-file removal runs in its goroutine)
	if b, err := os.ReadFile(fpath); err != nil {
		obs.Dst = "absent"
	} else if bytes.Equal(b, target) && bytes.Equal(b, curBasis) && obs.HadOld {
		obs.Dst = "oldnew"
	} else if bytes.Equal(b, target) {
		obs.Dst = "new"
	} else if bytes.Equal(b, curBasis) && obs.HadOld {
		obs.Dst = "old"
	} else {
		obs.Dst = "other"
	}
	cdir, keep := dest, "f"
	if s.RoDir {
		cdir = filepath.Join(dest, "ro")
		os.Chmod(cdir, 0o755)
	}
	ents, _ := os.ReadDir(cdir)
	var names []string
	for _, e := range ents {
		if e.Name() != keep {
			names = append(names, e.Name())
		}
	}
	sort.Strings(names)
	obs.Temps = len(names)
	return obs, nil
}

var _ = binary.LittleEndian
