package main

import (
	"bytes"
	"context"
	"encoding/hex"
	"encoding/json"
	"fmt"
	"io"
	"math/rand"
	"net"
	"os"
	"path/filepath"
	"runtime"
	"sort"
	"strings"
	"sync"
	"syscall"
	"time"

	"github.com/gokrazy/rsync/rsyncclient"
	"github.com/gokrazy/rsync/rsynccmd"
	"github.com/gokrazy/rsync/rsyncd"
	"github.com/gokrazy/rsync/verifharness/fstree"
	"github.com/gokrazy/rsync/verifharness/wirekit"
	"github.com/gokrazy/rsync/verifharness/xport"
)

// syncScn: an end-to-end transfer with the REAL code on both ends, in one of
// the four role arrangements (C01, C13, C14, ...).
type syncScn struct {
	ID       int           `json:"id"`
	Family   string        `json:"family"`
	Universe []string      `json:"universe"`
	Src      []fstree.Node `json:"src"`
	Dst      []fstree.Node `json:"dst"`
	Flags    []string      `json:"flags"` // client options, e.g. ["-rt", "--delete", "--exclude=a"]
	Arr      string        `json:"arr"`   // pull | push | local | lib | libpush
	Form     string        `json:"form"`  // slash (contents of the tree) | noslash (the tree itself) | sub (pull of module/sub/)
	// Missing: one more source argument, naming a directory that does not exist (a source the sender cannot read), given
	// "first" or "last" on the command line (arrangements local and push)
	Missing string   `json:"missing"`
	Judge   []string `json:"judge"`
	Repeat  bool     `json:"repeat"` // run the same transfer a second time (idempotence)
	CapUp   int      `json:"capup"`  // lib arrangement: transport capacities (0 = unbounded default)
	CapDown int      `json:"capdown"`
	Chunk   int      `json:"chunk"`  // lib: reads return at most this many bytes (0: unlimited)
	Jitter  int64    `json:"jitter"` // lib: seed of random yields / micro-sleeps in transport operations (0: none)
	Flip    int64    `json:"flip"`   // lib: flip one bit of the sender->receiver stream at this offset (0: none)
	Wire    bool     `json:"wire"`   // lib (pull): record the action-level trace of the session (SessionWire.tla)
	Full    bool     `json:"full"`   // lib, libpush: record the complete session transcript (RsyncTrace.tla)
	// NameMap concretises the abstract path components of the universe: component -> the real file name, given as
	// hex (arbitrary bytes: invalid UTF-8, newlines, 255-byte names ...).  The map must preserve the bytewise order.
	NameMap map[string]string `json:"namemap,omitempty"`
	Echo    json.RawMessage   `json:"echo,omitempty"` // passed through (opts, rules, ... for the trace spec)
}

type syncObs struct {
	ID       int             `json:"id"`
	Family   string          `json:"family"`
	Universe []string        `json:"universe"`
	Arr      string          `json:"arr"`
	Form     string          `json:"form"`
	Flags    []string        `json:"flags"`
	Judge    []string        `json:"judge"`
	Src      []fstree.Node   `json:"src"`   // the source tree as built (actual sizes)
	Dst      []fstree.Node   `json:"dst"`   // the destination before the run
	Final    []fstree.Node   `json:"final"` // ... and after
	Extra    []string        `json:"extra"`
	Result   string          `json:"result"`
	Err      string          `json:"err"`
	Result2  string          `json:"result2"` // second run (repeat)
	Final2   []fstree.Node   `json:"final2"`
	Changed2 bool            `json:"changed2"` // the second run changed a regular file, a symlink or the entry set
	Resent2  []string        `json:"resent2"`  // regular files replaced (new inode) by the second run
	Echo     json.RawMessage `json:"echo,omitempty"`
	Log      string          `json:"log,omitempty"`
	Wire     *wireObs        `json:"wire,omitempty"`
	Full     *fullObs        `json:"fullwire,omitempty"`
	Full2    *fullObs        `json:"fullwire2,omitempty"`     // repeat: the transcript of the second run
	Retire   bool            `json:"retire_worker,omitempty"` // a hung session's goroutines are still parked in this worker
}

func init() { handlers["sync"] = syncHandler }

// nameCodec translates paths componentwise between the abstract universe and the concrete names on disk / on the wire.
type nameCodec struct{ fwd, rev map[string]string }

func newNameCodec(m map[string]string) (*nameCodec, error) {
	c := &nameCodec{fwd: map[string]string{}, rev: map[string]string{}}
	for k, v := range m {
		b, err := hex.DecodeString(v)
		if err != nil {
			return nil, fmt.Errorf("namemap %q: %v", k, err)
		}
		c.fwd[k] = string(b)
		c.rev[string(b)] = k
	}
	return c, nil
}

func (c *nameCodec) tr(p string, m map[string]string) string {
	if c == nil || len(m) == 0 || p == "." {
		return p
	}
	parts := strings.Split(p, "/")
	for i, x := range parts {
		if y, ok := m[x]; ok {
			parts[i] = y
		}
	}
	return strings.Join(parts, "/")
}
func (c *nameCodec) concrete(ns []fstree.Node) []fstree.Node {
	if c == nil {
		return ns
	}
	out := append([]fstree.Node(nil), ns...)
	for i := range out {
		out[i].P = c.tr(out[i].P, c.fwd)
	}
	return out
}
func (c *nameCodec) abstract(ns []fstree.Node) []fstree.Node {
	if c == nil {
		return ns
	}
	for i := range ns {
		ns[i].P = c.tr(ns[i].P, c.rev)
	}
	sort.Slice(ns, func(i, j int) bool { return ns[i].P < ns[j].P })
	return ns
}
func (c *nameCodec) abstractWire(fo *fullObs) *fullObs {
	if c != nil && fo != nil {
		for i := range fo.Events {
			fo.Events[i].Name = c.tr(fo.Events[i].Name, c.rev)
		}
	}
	return fo
}

// startDaemon starts a real daemon on a loopback port for ONE case: leftover
// goroutines of an earlier (hung) case can never touch a later case's files.
func startDaemon(base string) (port string, stop func(), err error) {
	mods := []rsyncd.Module{
		{Name: "src", Path: filepath.Join(base, "s", "tree")},
		{Name: "srcp", Path: filepath.Join(base, "s")},
		{Name: "dst", Path: filepath.Join(base, "d"), Writable: true},
	}
	srv, err := rsyncd.NewServer(mods, rsyncd.WithStderr(discard{}), rsyncd.DontRestrict())
	if err != nil {
		return "", nil, err
	}
	ln, err := net.Listen("tcp", "127.0.0.1:0")
	if err != nil {
		return "", nil, err
	}
	_, port, _ = net.SplitHostPort(ln.Addr().String())
	ctx, cancel := context.WithCancel(context.Background())
	go srv.Serve(ctx, ln)
	return port, cancel, nil
}

type discard struct{}

func (discard) Write(p []byte) (int, error) { return len(p), nil }

type capBuf struct {
	mu sync.Mutex
	b  []byte
}

func (c *capBuf) Write(p []byte) (int, error) {
	c.mu.Lock()
	c.b = append(c.b, p...)
	if len(c.b) > 6000 {
		c.b = c.b[len(c.b)-6000:]
	}
	c.mu.Unlock()
	return len(p), nil
}

func syncHandler(w *workerCtx, line []byte) (any, error) {
	var s syncScn
	if err := json.Unmarshal(line, &s); err != nil {
		return nil, err
	}
	var nc *nameCodec
	if len(s.NameMap) > 0 {
		var err error
		if nc, err = newNameCodec(s.NameMap); err != nil {
			return nil, err
		}
	}
	obs := &syncObs{ID: s.ID, Family: s.Family, Universe: s.Universe, Arr: s.Arr, Form: s.Form, Flags: s.Flags, Judge: s.Judge, Echo: s.Echo,
		Extra: []string{}, Final: []fstree.Node{}, Final2: []fstree.Node{}}
	if obs.Judge == nil {
		obs.Judge = []string{}
	}
	base := filepath.Join(w.dir, fmt.Sprintf("case%d", s.ID))
	defer func() {
		fstree.MakeWritable(base)
		os.RemoveAll(base)
	}()
	sdir := filepath.Join(base, "s")
	tree := filepath.Join(sdir, "tree")
	ddir := filepath.Join(base, "d")
	var port string
	if s.Arr == "pull" || s.Arr == "push" {
		p, stop, err := startDaemon(base)
		if err != nil {
			return nil, err
		}
		defer stop()
		port = p
	}
	for _, d := range []string{sdir, ddir} {
		if err := fstree.Reset(d); err != nil {
			return nil, err
		}
	}
	os.MkdirAll(tree, 0o755)
	tree2 := filepath.Join(sdir, "tree2")
	if s.Form == "multi" {
		// two source arguments: everything below "d" comes from the second one
		var s1, s2 []fstree.Node
		for _, n := range s.Src {
			if n.P == "d" || strings.HasPrefix(n.P, "d/") {
				s2 = append(s2, n)
			} else {
				s1 = append(s1, n)
			}
		}
		os.MkdirAll(tree2, 0o755)
		if err := fstree.Build(tree, nc.concrete(s1)); err != nil {
			return nil, fmt.Errorf("building source: %w", err)
		}
		if err := fstree.Build(tree2, nc.concrete(s2)); err != nil {
			return nil, fmt.Errorf("building source: %w", err)
		}
	} else if err := fstree.Build(tree, nc.concrete(s.Src)); err != nil {
		return nil, fmt.Errorf("building source: %w", err)
	}
	if err := fstree.Build(ddir, nc.concrete(s.Dst)); err != nil {
		return nil, fmt.Errorf("building destination: %w", err)
	}
	known := fstree.Known{}
	for i := range s.Src {
		known.AddNode(&s.Src[i])
	}
	for i := range s.Dst {
		known.AddNode(&s.Dst[i])
	}
	// where the tree's entries end up below the destination directory
	root := ddir
	if s.Form == "noslash" {
		root = filepath.Join(ddir, "tree")
	}
	var err error
	if obs.Src, err = fstree.Snapshot(tree, known); err != nil {
		return nil, err
	}
	obs.Src = nc.abstract(obs.Src)
	if s.Form == "multi" {
		more, err := fstree.Snapshot(tree2, known)
		if err != nil {
			return nil, err
		}
		more = nc.abstract(more)
		for _, n := range more {
			if n.P != "." {
				obs.Src = append(obs.Src, n)
			}
		}
	}
	snapDst := func() ([]fstree.Node, []string, error) {
		if _, err := os.Lstat(root); err != nil {
			return []fstree.Node{}, []string{}, nil
		}
		all, err := fstree.Snapshot(root, known)
		if err != nil {
			return nil, nil, err
		}
		all = nc.abstract(all)
		uni := map[string]bool{}
		for _, u := range s.Universe {
			uni[u] = true
		}
		nodes, extra := []fstree.Node{}, []string{}
		for _, n := range all {
			if uni[n.P] {
				nodes = append(nodes, n)
			} else {
				extra = append(extra, n.P)
			}
		}
		return nodes, extra, nil
	}
	if s.Form == "noslash" {
		// the prior destination state applies to dst/tree
		fstree.Reset(ddir)
		os.MkdirAll(root, 0o755)
		if err := fstree.Build(root, nc.concrete(s.Dst)); err != nil {
			return nil, err
		}
	}
	if obs.Dst, _, err = snapDst(); err != nil {
		return nil, err
	}
	logb := &capBuf{}
	fullOptsOf := func(daemon bool) fullOpts {
		var e struct {
			Opts map[string]bool `json:"opts"`
		}
		json.Unmarshal(s.Echo, &e)
		o := e.Opts
		return fullOpts{Dry: o["n"], Del: o["del"], Daemon: daemon,
			List: wirekit.ListOpts{UID: o["o"], GID: o["g"], Links: o["l"], Devices: o["dv"], Specials: o["sp"], Checksum: o["c"]}}
	}
	runs := 0
	runOnce := func() (string, string) {
		runs++
		var drec *wireRec
		dwait := func() {}
		dport := port
		if s.Full && (s.Arr == "pull" || s.Arr == "push") {
			drec = newWireRec()
			pp, pstop, pwait, perr := tapProxy(port, drec)
			if perr != nil {
				return "harness", perr.Error()
			}
			defer pstop()
			dwait = pwait
			dport = pp
		}
		port := dport
		finish := func(rerr error) {
			if drec != nil && rerr == nil {
				dwait()
				if fo := drec.analyseFull(s.Arr == "push", fullOptsOf(true)); runs == 1 {
					obs.Full = nc.abstractWire(fo)
				} else {
					obs.Full2 = nc.abstractWire(fo)
				}
			}
		}
		_ = finish
		srcArg := tree + "/"
		if s.Form == "noslash" {
			srcArg = tree
		}
		var rerr error
		srcs := []string{srcArg}
		if s.Form == "multi" {
			srcs = append(srcs, tree2+"/")
		}
		switch s.Missing {
		case "first":
			srcs = append([]string{filepath.Join(sdir, "gone") + "/"}, srcs...)
		case "last":
			srcs = append(srcs, filepath.Join(sdir, "gone")+"/")
		}
		switch s.Arr {
		case "local":
			rerr = runCmd(logb, append(append(append([]string{}, s.Flags...), srcs...), ddir+"/"))
		case "pull":
			url := "rsync://127.0.0.1:" + port + "/src/"
			if s.Form == "noslash" {
				url = "rsync://127.0.0.1:" + port + "/srcp/tree"
			} else if s.Form == "sub" {
				url = "rsync://127.0.0.1:" + port + "/srcp/tree/"
			}
			rerr = runCmd(logb, append(append([]string{}, s.Flags...), url, ddir+"/"))
		case "push":
			rerr = runCmd(logb, append(append(append([]string{}, s.Flags...), srcs...), "rsync://127.0.0.1:"+port+"/dst/"))
		case "lib", "libpush":
			var rec *wireRec
			if (s.Wire && s.Arr == "lib") || s.Full {
				rec = newWireRec()
			}
			rerr = runLib(logb, &s, srcArg, ddir, rec)
			if rec != nil && rerr == nil && s.Wire && s.Arr == "lib" {
				obs.Wire = rec.analyse(wirekit.ListOpts{})
			}
			if rec != nil && rerr == nil && s.Full {
				if fo := rec.analyseFull(s.Arr == "libpush", fullOptsOf(false)); runs == 1 {
					obs.Full = nc.abstractWire(fo)
				} else {
					obs.Full2 = nc.abstractWire(fo)
				}
			}
		default:
			return "harness", "unknown arrangement " + s.Arr
		}
		finish(rerr)
		if rerr != nil {
			return "err", rerr.Error()
		}
		return "ok", ""
	}
	obs.Result, obs.Err = runOnce()
	if obs.Result == "harness" {
		return nil, fmt.Errorf("%s", obs.Err)
	}
	if obs.Final, obs.Extra, err = snapDst(); err != nil {
		return nil, err
	}
	obs.Resent2 = []string{}
	if s.Repeat && obs.Result == "ok" {
		inodes := func() map[string]uint64 {
			m := map[string]uint64{}
			filepath.Walk(root, func(p string, info os.FileInfo, err error) error {
				if err == nil && info.Mode().IsRegular() {
					if st, ok := info.Sys().(*syscall.Stat_t); ok {
						rel, _ := filepath.Rel(root, p)
						m[rel] = st.Ino
					}
				}
				return nil
			})
			return m
		}
		before := inodes()
		obs.Result2, _ = runOnce()
		var extra2 []string
		if obs.Final2, extra2, err = snapDst(); err != nil {
			return nil, err
		}
		for p, ino := range inodes() {
			if b, ok := before[p]; ok && b != ino {
				obs.Resent2 = append(obs.Resent2, p)
			}
		}
		sort.Strings(obs.Resent2)
		strip := func(ns []fstree.Node) []byte {
			var out []fstree.Node
			for _, n := range ns {
				if n.T == "dir" {
					n.Mt, n.Ns = 0, 0 // directory mtimes are not part of the comparison
				}
				out = append(out, n)
			}
			b, _ := json.Marshal(out)
			return b
		}
		obs.Changed2 = !bytes.Equal(strip(obs.Final), strip(obs.Final2)) || len(extra2) != len(obs.Extra)
	}
	if obs.Result != "ok" {
		obs.Log = string(logb.b)
	}
	obs.Retire = strings.HasPrefix(obs.Err, "HUNG")
	fstree.MakeWritable(ddir)
	fstree.MakeWritable(sdir)
	return obs, nil
}

// tapProxy forwards ONE connection to the daemon on targetPort through a pair of instrumented in-memory
// pipes, so that both byte streams of a real daemon session are recorded with the transport's sequence
// numbers (complete transcript for RsyncTrace.tla).
func tapProxy(targetPort string, rec *wireRec) (port string, stop func(), wait func(), err error) {
	ln, err := net.Listen("tcp", "127.0.0.1:0")
	if err != nil {
		return "", nil, nil, err
	}
	var wg sync.WaitGroup
	wg.Add(2)
	_, port, _ = net.SplitHostPort(ln.Addr().String())
	go func() {
		cc, err := ln.Accept()
		if err != nil {
			wg.Done()
			wg.Done()
			return
		}
		dc, err := net.Dial("tcp", "127.0.0.1:"+targetPort)
		if err != nil {
			cc.Close()
			wg.Done()
			wg.Done()
			return
		}
		a, b := xport.Conn(-1, -1, rec.log)
		rec.attach(a.Out, a.In)
		go func() { io.Copy(a, cc); a.Out.CloseWrite(); wg.Done() }()              // client -> pipe "up" (ends when the client closes)
		go func() { io.Copy(dc, b); dc.(*net.TCPConn).CloseWrite() }()             // pipe "up" -> daemon
		go func() { io.Copy(b, dc); b.Out.CloseWrite(); wg.Done() }()              // daemon -> pipe "down" (ends when the daemon closes)
		go func() { io.Copy(cc, a); cc.(*net.TCPConn).CloseWrite(); cc.Close() }() // pipe "down" -> client
	}()
	wait = func() { // both ends have closed: every byte of the session has passed the tap
		done := make(chan struct{})
		go func() { wg.Wait(); close(done) }()
		select {
		case <-done:
		case <-idleAfter(3 * time.Second):
		}
	}
	return port, func() { ln.Close() }, wait, nil
}

func runCmd(logw *capBuf, args []string) error {
	cmd := rsynccmd.Command("rsync", args...)
	cmd.Stdout = discard{}
	cmd.Stderr = logw
	cmd.DontRestrict = true
	done := make(chan error, 1)
	go func() {
		_, err := cmd.Run(context.Background())
		done <- err
	}()
	select {
	case err := <-done:
		return err
	case <-idleAfter(10 * time.Second):
		return fmt.Errorf("HUNG: rsync %s did not return and every goroutine of the session was parked for 10 s", strings.Join(args, " "))
	}
}

// parkedSummary extracts, from a goroutine dump, where the session's goroutines are parked.
func parkedSummary(dump string) string {
	var out []string
	for _, g := range strings.Split(dump, "\n\n") {
		if strings.Contains(g, "xport.(*Pipe)") {
			lines := strings.Split(g, "\n")
			var fr []string
			for _, l := range lines {
				if strings.Contains(l, "gokrazy/rsync/") && !strings.Contains(l, "verifharness") && !strings.HasPrefix(l, "\t") {
					fr = append(fr, strings.TrimSpace(strings.SplitN(l, "(", 2)[0]))
				}
			}
			op := "read"
			if strings.Contains(g, "(*Pipe).Write") {
				op = "write"
			}
			if len(fr) > 3 {
				fr = fr[:3]
			}
			out = append(out, "parked in transport "+op+": "+strings.Join(fr, " <- "))
		}
	}
	return strings.Join(out, "\n")
}

// runLib: the library client over an arbitrary stream: rsyncclient.Run on one
// end, the server in command mode (HandleConnArgs, implicit module) on the other.
func runLib(logw *capBuf, s *syncScn, srcArg, ddir string, rec *wireRec) error {
	var copts []rsyncclient.Option
	copts = append(copts, rsyncclient.DontRestrict(), rsyncclient.WithStderr(logw))
	push := s.Arr == "libpush"
	if push {
		copts = append(copts, rsyncclient.WithSender())
	}
	client, err := rsyncclient.New(s.Flags, copts...)
	if err != nil {
		return err
	}
	srv, err := rsyncd.NewServer(nil, rsyncd.WithStderr(logw), rsyncd.DontRestrict())
	if err != nil {
		return err
	}
	capUp, capDown := s.CapUp, s.CapDown
	// 0: unbounded (default); -2: rendezvous (zero capacity); n > 0: n bytes
	conv := func(c int) int {
		switch c {
		case 0:
			return -1
		case -2:
			return 0
		}
		return c
	}
	capUp, capDown = conv(capUp), conv(capDown)
	var xlog *xport.Log
	if rec != nil {
		xlog = rec.log
	}
	a, b := xport.Conn(capUp, capDown, xlog)
	if rec != nil {
		rec.attach(a.Out, a.In)
	}
	for _, p := range []*xport.Pipe{a.In, a.Out} {
		p.MaxRead = s.Chunk
		if s.Jitter != 0 {
			rnd := rand.New(rand.NewSource(s.Jitter))
			var mu sync.Mutex
			p.Yield = func() {
				mu.Lock()
				k := rnd.Intn(20)
				mu.Unlock()
				switch {
				case k < 6:
					runtime.Gosched()
				case k == 6:
					time.Sleep(time.Duration(1+k) * time.Microsecond)
				}
			}
		}
	}
	if s.Flip > 0 {
		// the data direction: server->client when pulling, client->server when pushing
		data := a.In
		if push {
			data = a.Out
		}
		data.Mangle = func(b []byte, off int64) {
			if s.Flip >= off && s.Flip < off+int64(len(b)) {
				b[s.Flip-off] ^= 0x04
			}
		}
	}
	var sargs []string
	var cpaths []string
	if push {
		sargs = client.ServerCommandOptions(ddir + "/")
		cpaths = []string{srcArg}
	} else {
		sargs = client.ServerCommandOptions(srcArg)
		cpaths = []string{ddir + "/"}
	}
	sdone := make(chan error, 1)
	go func() {
		conn := rsyncd.NewConnection(b, b, "lib")
		err := srv.HandleConnArgs(context.Background(), conn, nil, sargs)
		b.Close()
		sdone <- err
	}()
	cdone := make(chan error, 1)
	go func() {
		_, err := client.Run(context.Background(), a, cpaths)
		cdone <- err
	}()
	var cerr, serr error
	// a hang is established by the transport: no byte moved in either direction for 5 s
	// while the session has not finished; the goroutine dump goes into the error
	progress := func() int64 {
		_, _, _, p1 := a.In.State()
		_, _, _, p2 := a.Out.State()
		return p1 + p2
	}
	last := progress()
	var idle idleMeter
	for i := 0; i < 2; {
		select {
		case cerr = <-cdone:
			i++
			if cerr != nil {
				a.Close()
			}
		case serr = <-sdone:
			i++
		case <-time.After(idleTick):
			quiet := idle.sample()
			if p := progress(); p != last {
				last = p
				idle.n = 0
			} else if quiet >= 3*time.Second {
				buf := make([]byte, 1<<20)
				n := runtime.Stack(buf, true)
				dump := string(buf[:n])
				r1, w1, b1, _ := a.In.State()
				r2, w2, b2, _ := a.Out.State()
				a.Close()
				return fmt.Errorf("HUNG: no transport progress and every goroutine of the session parked for 3 s (down: %d readers %d writers %d buffered; up: %d readers %d writers %d buffered)\n%s",
					r1, w1, b1, r2, w2, b2, parkedSummary(dump))
			}
		}
	}
	a.Close()
	if cerr != nil {
		return cerr
	}
	if serr != nil {
		return fmt.Errorf("server: %v", serr)
	}
	return nil
}
