package main

import (
	"bytes"
	"encoding/json"
	"fmt"
	"math"
	"math/rand"
	"os"
	"path/filepath"
	"time"

	"github.com/gokrazy/rsync/rsyncd"
	"github.com/gokrazy/rsync/verifharness/drv"
	"github.com/gokrazy/rsync/verifharness/fstree"
	"github.com/gokrazy/rsync/verifharness/wirekit"
)

// deltaScn is one sender scenario: a basis (what the receiver holds), a target
// (what the sender has), a block length and a strong-sum length.
type deltaScn struct {
	ID     int    `json:"id"`
	Basis  []int  `json:"basis"`
	Target []int  `json:"target"`
	Blk    int32  `json:"blk"` // 0: use the generator's sqrt rule
	S2     int32  `json:"s2"`
	Scale  int    `json:"scale"` // >1: each symbol is inflated to Scale pseudo-random bytes
	Gen    *dgen  `json:"gen,omitempty"`
	Class  string `json:"class,omitempty"`
	// C16 (DeltaEdit scenarios): what the literal bound is computed from, in symbols
	Kind    string `json:"kind,omitempty"` // edits | perm
	Ins     int    `json:"ins"`
	Slack   int    `json:"slack"`
	Edits   int    `json:"edits"`
	Bounded bool   `json:"bounded"` // for gen cases: apply the bound
	// RealGen: the request (sum head and block checksums) is the one the REAL generator (internal/receiver) sends for
	// this basis and this new file length, captured from a receiver session, instead of the reference-computed one
	RealGen bool `json:"realgen"`
}

// dgen describes concrete-domain data (too large for TLC to enumerate).
type dgen struct {
	Kind  string  `json:"kind"` // random | zero | period | edits | weakcoll | dupblocks | remreuse | unrelated
	Seed  int64   `json:"seed"`
	Size  int     `json:"size"`  // basis size
	TSize int     `json:"tsize"` // target size for kinds that need it
	P     int     `json:"p"`     // period
	Edits []dedit `json:"edits,omitempty"`
}

type dedit struct {
	Op  string `json:"op"`  // ins | del | rep
	Off int    `json:"off"` // offset in the basis
	N   int    `json:"n"`   // bytes deleted / replaced
	M   int    `json:"m"`   // bytes inserted
}

type deltaTok struct {
	K     string `json:"k"` // lit | ref
	N     int    `json:"n"`
	D     []int  `json:"d"`
	Bytes int64  `json:"bytes"`
	Eq    bool   `json:"eq"`
	I     int32  `json:"i"`
	BL    int    `json:"bl"`
	Fit   bool   `json:"fit"`
	Wk    bool   `json:"wk"`
	Ss    bool   `json:"ss"`
	Same  bool   `json:"same"`
}

type deltaObs struct {
	ID       int             `json:"id"`
	Class    string          `json:"class"`
	Small    bool            `json:"small"`
	Basis    []int           `json:"basis"`
	Target   []int           `json:"target"`
	TLen     int             `json:"tlen"`
	BLen     int             `json:"blen"`
	Blk      int32           `json:"blk"`
	S2       int32           `json:"s2"`
	Count    int32           `json:"count"`
	Rem      int32           `json:"rem"`
	IdxOK    bool            `json:"idxok"`
	HdrOK    bool            `json:"hdrok"`
	Toks     []deltaTok      `json:"toks"`
	Ended    bool            `json:"ended"`
	SumOK    bool            `json:"sumok"`
	Err      string          `json:"err"`
	Lit      int64           `json:"lit"`
	Bounded  bool            `json:"bounded"`  // C16: the literal bound applies to this case
	Inserted int64           `json:"inserted"` // bytes inserted by the edits
	Slack    int64           `json:"slack"`    // bytes that cannot match for structural reasons
	NEdits   int             `json:"nedits"`
	Scn      json.RawMessage `json:"scn"`
}

func symBytes(v int, scale int, seed int64) []byte {
	if scale <= 1 {
		return []byte{byte(v)}
	}
	r := rand.New(rand.NewSource(seed*1000003 + int64(v)*7919 + 17))
	b := make([]byte, scale)
	r.Read(b)
	return b
}

func concretise(s []int, scale int, seed int64) []byte {
	var out []byte
	for _, v := range s {
		out = append(out, symBytes(v, scale, seed)...)
	}
	if out == nil {
		out = []byte{}
	}
	return out
}

func realBlk(n int) int32 {
	b := int32(math.Sqrt(float64(n)))
	if b < 700 {
		b = 700
	}
	return b
}

// genData builds (basis, target, insertedBytes, nEdits) for a dgen.
func genData(g *dgen) (basis, target []byte, inserted int64, nedits int) {
	r := rand.New(rand.NewSource(g.Seed))
	rnd := func(n int) []byte { b := make([]byte, n); r.Read(b); return b }
	switch g.Kind {
	case "random":
		basis = rnd(g.Size)
		target = rnd(g.TSize)
	case "identical":
		basis = rnd(g.Size)
		target = append([]byte(nil), basis...)
	case "zero":
		basis = make([]byte, g.Size)
		target = make([]byte, g.TSize)
	case "period":
		p := g.P
		if p <= 0 {
			p = 3
		}
		pat := rnd(p)
		for i := range pat {
			pat[i] |= 0x80
		}
		basis = bytes.Repeat(pat, g.Size/p+1)[:g.Size]
		target = bytes.Repeat(pat, g.TSize/p+1)[:g.TSize]
		if g.TSize > 10 {
			target[g.TSize/2] ^= 0x55
		}
	case "edits":
		basis = rnd(g.Size)
		pos := 0
		for _, e := range g.Edits {
			if e.Off < pos {
				continue
			}
			if e.Off > len(basis) {
				break
			}
			target = append(target, basis[pos:e.Off]...)
			if e.Op == "wk" {
				// a 3-byte change that keeps BOTH halves of the weak checksum of every window containing it
				// (+1, -2, +1): the block it lies in becomes a "false alarm" for the sender (weak hit, strong miss)
				if e.Off+3 > len(basis) {
					break
				}
				target = append(target, basis[e.Off]+1, basis[e.Off+1]-2, basis[e.Off+2]+1)
				inserted += 3
				pos = e.Off + 3
				nedits++
				continue
			}
			target = append(target, rnd(e.M)...)
			inserted += int64(e.M)
			pos = min(e.Off+e.N, len(basis))
			nedits++
		}
		target = append(target, basis[pos:]...)
	case "weakcoll":
		// blocks with equal weak checksum but different content:
		// adding (+1,-2,+1) to three consecutive bytes keeps s1 and s2.
		blk := g.P
		basis = rnd(g.Size)
		target = append([]byte(nil), basis...)
		for off := 0; off+blk <= len(target); off += 2 * blk {
			i := off + blk/2
			if i+2 < len(target) {
				target[i]++
				target[i+1] -= 2
				target[i+2]++
			}
		}
	case "dupblocks":
		blk := g.P
		b := rnd(blk)
		c := rnd(blk)
		for len(basis) < g.Size {
			if r.Intn(3) == 0 {
				basis = append(basis, c...)
			} else {
				basis = append(basis, b...)
			}
		}
		basis = basis[:g.Size]
		for len(target) < g.TSize {
			if r.Intn(2) == 0 {
				target = append(target, c...)
			} else {
				target = append(target, b...)
			}
			if r.Intn(4) == 0 {
				target = append(target, rnd(1+r.Intn(5))...)
			}
		}
		target = target[:g.TSize]
	case "collpool":
		// Files assembled from a small pool of blocks that contains families of
		// blocks with EQUAL weak checksum and different content (adding
		// (+1,-2,+1) to three consecutive bytes keeps s1 and s2): every shortcut
		// that trusts the weak checksum alone is exposed.  Size/TSize count blocks.
		blk := g.P
		var pool [][]byte
		for f := 0; f < 3; f++ {
			b := rnd(blk)
			pool = append(pool, b)
			for v := 0; v < 2; v++ {
				c := append([]byte(nil), pool[len(pool)-1]...)
				i := r.Intn(blk - 2)
				c[i]++
				c[i+1] -= 2
				c[i+2]++
				pool = append(pool, c)
			}
		}
		for k := 0; k < g.Size; k++ {
			basis = append(basis, pool[r.Intn(len(pool))]...)
		}
		basis = append(basis, rnd(r.Intn(blk))...) // remainder block
		for k := 0; k < g.TSize; k++ {
			target = append(target, pool[r.Intn(len(pool))]...)
			if r.Intn(5) == 0 {
				target = append(target, rnd(1+r.Intn(3))...)
			}
		}
	case "remreuse":
		// the basis' short last block also occurs in the middle of the target
		blk := g.P
		basis = rnd(g.Size)
		rem := len(basis) % blk
		tailb := basis[len(basis)-rem:]
		target = append(target, basis[:2*blk]...)
		target = append(target, tailb...)
		target = append(target, basis[2*blk:]...)
	default:
		basis = rnd(g.Size)
		target = rnd(g.TSize)
	}
	if basis == nil {
		basis = []byte{}
	}
	if target == nil {
		target = []byte{}
	}
	return
}

func intsOf(b []byte) []int {
	out := make([]int, len(b))
	for i, c := range b {
		out[i] = int(int8(c))
	}
	return out
}

func init() {
	handlers["delta"] = deltaHandler
}

// compressRefs merges consecutive references that the reference receiver
// established as legal candidates with equal content into one "refrun" event
// (keeps traces of multi-MiB files small).
func compressRefs(toks []deltaTok) []deltaTok {
	var out []deltaTok
	for _, t := range toks {
		good := t.K == "ref" && t.Fit && t.Wk && t.Ss && t.Same && t.BL > 0
		if good && len(out) > 0 && out[len(out)-1].K == "refrun" {
			out[len(out)-1].N++
			out[len(out)-1].Bytes += int64(t.BL)
			continue
		}
		if good {
			out = append(out, deltaTok{K: "refrun", N: 1, Bytes: int64(t.BL)})
			continue
		}
		out = append(out, t)
	}
	return out
}

type deltaItem struct {
	basis, target []byte
	blk, s2       int32
	realgen       bool
	obs           *deltaObs
}

func prepareDelta(s *deltaScn, raw []byte) *deltaItem {
	var basis, target []byte
	obs := &deltaObs{ID: s.ID, Class: s.Class, Scn: json.RawMessage(raw)}
	if s.Gen != nil {
		basis, target, obs.Inserted, obs.NEdits = genData(s.Gen)
		obs.Bounded = s.Bounded
	} else if s.Kind != "" {
		// DeltaEdit scenario: symbols 1..n are the basis, larger ones are fresh
		scale := max(s.Scale, 1)
		n := len(s.Basis)
		width := func(v int) int {
			if v <= n || scale == 1 {
				return scale
			}
			return 1 + int((uint64(v)*2654435761+uint64(s.ID)*40503)%uint64(2*scale))
		}
		sym := func(v int) []byte {
			if scale == 1 {
				return []byte{byte(v)}
			}
			r := rand.New(rand.NewSource(int64(s.ID)*1000003 + int64(v)*7919 + 17))
			b := make([]byte, width(v))
			r.Read(b)
			return b
		}
		for _, v := range s.Basis {
			basis = append(basis, sym(v)...)
		}
		for _, v := range s.Target {
			target = append(target, sym(v)...)
			if v > n {
				obs.Inserted += int64(width(v))
			}
		}
		obs.Slack = int64(s.Slack * scale)
		obs.NEdits = s.Edits
		obs.Bounded = true
		if scale == 1 && len(basis) <= 24 && len(target) <= 24 {
			obs.Small = true
		}
	} else {
		scale := max(s.Scale, 1)
		basis = concretise(s.Basis, scale, int64(s.ID))
		target = concretise(s.Target, scale, int64(s.ID))
		if scale == 1 && len(basis) <= 24 && len(target) <= 24 {
			obs.Small = true
		}
	}
	if basis == nil {
		basis = []byte{}
	}
	if target == nil {
		target = []byte{}
	}
	if obs.Small {
		obs.Basis = intsOf(basis)
		obs.Target = intsOf(target)
	}
	blk := s.Blk
	if s.Scale > 1 {
		blk *= int32(s.Scale)
	}
	if blk == 0 {
		blk = realBlk(len(basis))
	}
	if blk < 0 && s.Gen != nil {
		blk = int32(s.Gen.P) // the generator's own block length
	}
	obs.TLen, obs.BLen, obs.Blk, obs.S2 = len(target), len(basis), blk, s.S2
	return &deltaItem{basis: basis, target: target, blk: blk, s2: s.S2, realgen: s.RealGen, obs: obs}
}

func finishObs(obs *deltaObs) {
	if !obs.Small {
		obs.Toks = compressRefs(obs.Toks)
	}
	if obs.Toks == nil {
		obs.Toks = []deltaTok{}
	}
	if obs.Basis == nil {
		obs.Basis = []int{}
	}
	if obs.Target == nil {
		obs.Target = []int{}
	}
	for i := range obs.Toks {
		if obs.Toks[i].D == nil {
			obs.Toks[i].D = []int{}
		}
	}
}

// A scenario line is either one file or {"session":[file, file, ...]}: several
// files requested one after the other in ONE sender session (sender state that
// survives from file to file is thereby exercised).
func deltaHandler(w *workerCtx, line []byte) (any, error) {
	var probe struct {
		Session []json.RawMessage `json:"session"`
	}
	if err := json.Unmarshal(line, &probe); err != nil {
		return nil, err
	}
	raws := probe.Session
	if len(raws) == 0 {
		raws = []json.RawMessage{line}
	}
	var items []*deltaItem
	for _, raw := range raws {
		var s deltaScn
		if err := json.Unmarshal(raw, &s); err != nil {
			return nil, err
		}
		items = append(items, prepareDelta(&s, raw))
	}
	err := senderSession(w, items)
	var out []*deltaObs
	for _, it := range items {
		if err != nil && it.obs.Err == "" && !it.obs.Ended {
			it.obs.Err = err.Error()
		}
		finishObs(it.obs)
		out = append(out, it.obs)
	}
	if len(probe.Session) == 0 {
		return out[0], nil
	}
	return map[string]any{"multi": out}, nil
}

// senderSession plays a reference receiver against the real sender: one
// session, one request per item (in file-list order).
func senderSession(w *workerCtx, items []*deltaItem) error {
	modDir := filepath.Join(w.dir, "mod")
	os.RemoveAll(modDir)
	os.MkdirAll(modDir, 0o755)
	var names []string
	for k, it := range items {
		name := fmt.Sprintf("f%03d", k)
		names = append(names, name)
		if err := os.WriteFile(filepath.Join(modDir, name), it.target, 0o644); err != nil {
			return err
		}
	}
	srv, err := drv.NewServer(nil, nil)
	if err != nil {
		return err
	}
	mod := &rsyncd.Module{Name: "m", Path: modDir}
	args := append([]string{"--server", "--sender", "."}, names...)
	p := drv.StartCommand(srv, mod, args, -1, -1, nil)
	defer p.End.Close()
	cs, err := drv.CommandHandshake(p)
	if err != nil {
		return err
	}
	cs.Up.Int32(0) // empty filter list
	fl, err := cs.Down.DecodeList(wirekit.ListOpts{})
	if err != nil {
		return fmt.Errorf("file list: %w", err)
	}
	if len(fl.Entries) != len(items) {
		return fmt.Errorf("unexpected file list %+v", fl.Entries)
	}
	for k, e := range fl.SortedEntries() {
		if e.Name != names[k] {
			return fmt.Errorf("unexpected file list %+v", fl.Entries)
		}
	}
	for k, it := range items {
		if err := senderOne(w, p, cs, int32(k), it); err != nil {
			it.obs.Err = err.Error()
			return err
		}
	}
	// orderly end of session
	cs.Up.Int32(-1)
	if v, err := cs.Down.Int32(); err != nil || v != -1 {
		return srvErr(p, cs, "phase ack", err)
	}
	cs.Up.Int32(-1)
	if v, err := cs.Down.Int32(); err != nil || v != -1 {
		return srvErr(p, cs, "final ack", err)
	}
	for i := 0; i < 3; i++ {
		if _, err := cs.Down.Int64(); err != nil {
			return srvErr(p, cs, "stats", err)
		}
	}
	cs.Up.Int32(-1)
	select {
	case err := <-p.Done:
		if err != nil {
			return fmt.Errorf("server: %v", err)
		}
	case <-idleAfter(20 * time.Second):
		return fmt.Errorf("server did not finish")
	}
	return nil
}

// realSums runs a real receiver (the client, -rt) over a destination holding basis as "f", announces a new
// version of tlen bytes and returns the request the real generator sends for it.  The session is then completed
// with the whole file as literal data.
func realSums(w *workerCtx, seed int32, basis, target []byte) (wirekit.SumHead, []wirekit.BlockSum, error) {
	var head wirekit.SumHead
	var sums []wirekit.BlockSum
	dest := filepath.Join(w.dir, "gendst")
	if err := fstree.Reset(dest); err != nil {
		return head, nil, err
	}
	defer os.RemoveAll(dest)
	fpath := filepath.Join(dest, "f")
	if err := os.WriteFile(fpath, basis, 0o644); err != nil {
		return head, nil, err
	}
	old := time.Unix(1_000_000, 0)
	os.Chtimes(fpath, old, old)
	p, err := drv.StartClientReceiver([]string{"-rt"}, dest, nil, -1, -1, nil)
	if err != nil {
		return head, nil, err
	}
	defer p.End.Close()
	if err := p.ServerHandshake(seed); err != nil {
		return head, nil, fmt.Errorf("generator session: handshake: %w", err)
	}
	fl := &wirekit.FileList{Entries: []wirekit.Entry{
		{Name: ".", Size: 4096, Mtime: 2_000_000, Mode: wirekit.SIFDIR | 0o755, Flags: wirekit.XTopDir},
		{Name: "f", Size: int64(len(target)), Mtime: 2_000_000, Mode: wirekit.SIFREG | 0o644},
	}}
	p.Out.EncodeList(fl, wirekit.ListOpts{}, wirekit.NoCompression)
	if p.Out.Err != nil {
		return head, nil, p.Out.Err
	}
	got := false
	rs := &wirekit.RefSender{In: p.In, Out: p.Out, Seed: seed}
	rs.Answer = func(req *wirekit.Request) (*wirekit.Answer, error) {
		if req.Idx != 1 || got {
			return nil, fmt.Errorf("generator session: unexpected request for index %d", req.Idx)
		}
		got = true
		head, sums = req.Head, req.Sums
		return wirekit.WholeFile(seed, req.Idx, target, 0), nil
	}
	srvErr := make(chan error, 1)
	go func() {
		err := rs.Serve()
		if err == nil {
			err = p.Finish()
		}
		srvErr <- err
	}()
	select {
	case err := <-p.Done:
		if err != nil {
			return head, nil, fmt.Errorf("generator session: receiver: %v", err)
		}
	case <-idleAfter(60 * time.Second):
		return head, nil, fmt.Errorf("generator session did not finish")
	}
	if err := <-srvErr; err != nil {
		return head, nil, fmt.Errorf("generator session: %v", err)
	}
	if !got {
		return head, nil, fmt.Errorf("generator session: the file was not requested")
	}
	return head, sums, nil
}

func senderOne(w *workerCtx, p *drv.Peer, cs *drv.ClientSide, index int32, it *deltaItem) error {
	basis, target, blk, s2, obs := it.basis, it.target, it.blk, it.s2, it.obs
	var head wirekit.SumHead
	var sums []wirekit.BlockSum
	if it.realgen {
		var err error
		if head, sums, err = realSums(w, cs.Seed, basis, target); err != nil {
			return err
		}
		if head.S2 < 2 || head.S2 > 16 || head.Blk <= 0 || head.Count < 0 || head.Rem < 0 || head.Rem >= head.Blk ||
			int64(head.Count)*int64(head.Blk) > int64(len(basis))+int64(head.Blk) {
			return fmt.Errorf("generator session: unusable sum head %+v for a basis of %d bytes", head, len(basis))
		}
		blk, s2 = head.Blk, head.S2
		obs.Blk, obs.S2 = blk, s2
	} else {
		head, sums = wirekit.Sums(cs.Seed, basis, blk, s2)
	}
	obs.Count, obs.Rem = head.Count, head.Rem
	cs.Up.Int32(index)
	cs.Up.SumHead(head)
	for _, s := range sums {
		cs.Up.Int32(int32(s.Weak))
		cs.Up.Bytes(s.Strong[:s2])
	}
	if cs.Up.Err != nil {
		return cs.Up.Err
	}
	idx, err := cs.Down.Int32()
	if err != nil {
		return srvErr(p, cs, "reading index", err)
	}
	obs.IdxOK = idx == index
	eh, err := cs.Down.SumHead()
	if err != nil {
		return srvErr(p, cs, "reading header", err)
	}
	toks, err := cs.Down.ReadTokens()
	// The receiver interprets block references with the header the sender
	// echoes, so it must equal the request whenever references are used; a
	// stream of literals only may carry the sender's own view of the file.
	obs.HdrOK = eh == head || (eh.Count >= 0 && eh.Blk >= 0 && eh.Rem >= 0)
	for _, t := range toks {
		if t.IsRef() && eh != head {
			obs.HdrOK = false
		}
	}
	pos := 0
	for _, t := range toks {
		var dt deltaTok
		if t.IsRef() {
			dt.K = "ref"
			dt.I = t.Ref
			if t.Ref >= 0 && t.Ref < head.Count {
				bl := int(head.BlockLen(t.Ref))
				dt.BL = bl
				off := int(t.Ref) * int(head.Blk)
				blkb := basis[off : off+bl]
				dt.Fit = pos+bl <= len(target)
				if dt.Fit {
					win := target[pos : pos+bl]
					dt.Wk = wirekit.Weak(win) == sums[t.Ref].Weak
					st := wirekit.Strong(cs.Seed, win)
					dt.Ss = bytes.Equal(st[:s2], sums[t.Ref].Strong[:s2])
					dt.Same = bytes.Equal(win, blkb)
				}
				pos += bl
			}
		} else {
			dt.K = "lit"
			dt.N = len(t.Lit)
			dt.Eq = pos+len(t.Lit) <= len(target) && bytes.Equal(t.Lit, target[pos:pos+len(t.Lit)])
			if obs.Small {
				dt.D = intsOf(t.Lit)
			}
			obs.Lit += int64(len(t.Lit))
			pos += len(t.Lit)
		}
		obs.Toks = append(obs.Toks, dt)
	}
	if err != nil {
		return srvErr(p, cs, "reading tokens", err)
	}
	sum, err := cs.Down.Bytes(16)
	if err != nil {
		return srvErr(p, cs, "reading file checksum", err)
	}
	obs.Ended = true
	want := wirekit.FileSum(cs.Seed, target)
	obs.SumOK = bytes.Equal(sum, want[:])
	return nil
}

func srvErr(p *drv.Peer, cs *drv.ClientSide, what string, err error) error {
	msg := ""
	if cs.Demux != nil && cs.Demux.ErrMsg != "" {
		msg = " peer-error=" + cs.Demux.ErrMsg
	}
	return fmt.Errorf("%s: %v%s", what, err, msg)
}
