"""C02 / C16: the delta algorithm (Delta.tla, DeltaEdit.tla) bound to the real sender.

mechanism B: TLC enumerates every (basis, target, blk, s2) within bounds
(DeltaGen) / every edit script (DeltaEditGen); each becomes a scripted request to
the real sender; mechanism A: the recorded token streams are validated by TLC
against DeltaTrace (which reuses DeltaOps)."""
import json
import os
import random

from vlib import clip as vclip
from vlib import unreproduced as vlib_unreproduced, Broken, Verdict, log, read_ndjson, write_ndjson, require_coverage, NCPU

DELTA_ACTIONS = ["SendWhole", "MatchAny", "Slide", "FlushEarly", "Finish", "RcvLit", "RcvRef", "RcvEnd"]


def delta_cfg(maxlen, maxblk, neg=1, pos=1, s2set="{0, 16}", flush=1, spec="Spec", invariants=True, prop=False, deadlock=True):
    c = "SPECIFICATION %s\nCONSTANTS\n  AlphaNeg = %d\n  AlphaPos = %d\n  MaxLen = %d\n  MaxBlk = %d\n  S2Set = %s\n  FlushAt = %d\n" % (
        spec, neg, pos, maxlen, maxblk, s2set, flush)
    if invariants:
        c += "INVARIANTS TypeOK PrefixExact NoWeakOnlyRef Exact RcvFaithful ChecksumGate IdenticalFree\n"
    if prop:
        c += "PROPERTY Termination\n"
    c += "CHECK_DEADLOCK %s\n" % ("TRUE" if deadlock else "FALSE")
    return c


TRACE_CFG = "SPECIFICATION Spec\nCHECK_DEADLOCK TRUE\n"

DEFAULT_OBS = {"class": "", "small": False, "basis": [], "target": [], "tlen": 0, "blen": 0, "blk": 1, "s2": 16,
               "count": 0, "rem": 0, "idxok": False, "hdrok": False, "toks": [], "ended": False, "sumok": False,
               "err": "", "lit": 0, "bounded": False, "inserted": 0, "slack": 0, "nedits": 0}


def normalise(o):
    """Worker deaths / hangs become traces the specification rejects."""
    if "toks" in o and "id" in o:
        return o
    scn = o.get("scn") or {}
    n = dict(DEFAULT_OBS)
    n["id"] = scn.get("id", -1)
    n["class"] = scn.get("class", "")
    n["scn"] = scn
    if o.get("crashed"):
        n["err"] = "CRASHED: " + (o.get("stderr") or "")[:1500]
    elif o.get("hung"):
        n["err"] = "HUNG: " + vclip(o.get("stderr"), 1500)
    else:
        n["err"] = "HARNESS: " + str(o.get("harness_error"))
    return n


def validate(w, obs, label):
    """Batch trace validation by TLC; returns (set of rejected ids, states, distinct)."""
    if not obs:
        return set(), 0, 0
    tf = w.path("trace-%s-%d.ndjson" % (label, len(w.tlc_runs)))
    slim = []
    for o in obs:
        s = {k: v for k, v in o.items() if k not in ("scn", "class", "blen")}
        slim.append(s)
    write_ndjson(tf, slim, clamp=True)
    r = w.tlc("DeltaTrace", TRACE_CFG, env={"VERIF_TRACE": tf}, label="DeltaTrace-" + label, timeout=3000)
    if not r["completed"]:
        raise Broken("trace validation did not complete: " + r["out"][-3000:])
    return set(i for i, _ in r["rejects"]), r["generated"], r["distinct"], dict(r["rejects"])


def signature(o):
    scn = o.get("scn") or {}
    err = o.get("err", "")
    kind = "reject"
    if err.startswith("CRASHED"):
        kind = "crash"
    elif err.startswith("HUNG"):
        kind = "hang"
    elif err.startswith("HARNESS"):
        kind = "harness"
    elif err:
        kind = "error"
    sig = {"kind": kind, "class": o.get("class", ""), "tlen": o.get("tlen"), "blk": o.get("blk"), "s2": o.get("s2"),
           "empty_target": o.get("tlen") == 0 and kind == "crash"}
    if kind == "crash":
        sig["tlen"] = len(scn.get("target") or []) if "target" in scn else None
        sig["empty_target"] = sig["tlen"] == 0
    if kind == "error":
        sig["error"] = "changed-mid-transfer" if "changed mid-transfer" in err else err[:120]
    return sig


def corrupt(o, rnd):
    """Negative control: damage one recorded field so that the spec must reject."""
    c = json.loads(json.dumps(o))
    toks = c["toks"]
    choices = ["sum", "drop"]
    if any(t["k"] == "lit" for t in toks):
        choices.append("lit")
    if any(t["k"] == "ref" for t in toks):
        choices.append("ref")
    how = rnd.choice(choices)
    if how == "sum":
        c["sumok"] = False
    elif how == "drop":
        if toks:
            del toks[rnd.randrange(len(toks))]
        else:
            c["ended"] = False
    elif how == "lit":
        t = rnd.choice([t for t in toks if t["k"] == "lit"])
        if c["small"]:
            t["d"][rnd.randrange(len(t["d"]))] += 1
        else:
            t["eq"] = False
    elif how == "ref":
        t = rnd.choice([t for t in toks if t["k"] == "ref"])
        if c["small"]:
            t["i"] = t["i"] + 1 if t["i"] + 1 < c["count"] and rnd.random() < 0.5 else t["i"] - 1
            if t["i"] < 0:
                t["i"] = c["count"]  # out of range
            # facts are recomputed by the spec from the raw bytes; a different block is
            # legal only if it happens to be an equal candidate
            c["_maybe_legal"] = True
        else:
            t["wk"] = False
    c["id"] = 10_000_000 + o["id"]
    return c


def big_cases(tier, seed):
    """Concrete-domain cases TLC cannot enumerate (sizes, block lengths, window crossings)."""
    rnd = random.Random(seed * 7919 + 1)
    cases = []

    def add(cls, gen, blk=0, s2=16):
        cases.append({"class": cls, "gen": gen, "blk": blk, "s2": s2})
    sizes = [1, 699, 700, 701, 1399, 1400, 1401, 4096, 65536, 262143, 262144, 262145, 300000, 524287, 524288, 524289, 1048577]
    if tier == "thorough":
        sizes += [2 * 1048576 + 3, 4 * 1048576 - 1, 6 * 1048576 + 700]
    for sz in sizes:
        add("identical", {"kind": "identical", "seed": rnd.randrange(1 << 30), "size": sz})
        add("unrelated", {"kind": "random", "seed": rnd.randrange(1 << 30), "size": max(1, sz // 3), "tsize": sz})
        add("unrelated-small-basis", {"kind": "random", "seed": rnd.randrange(1 << 30), "size": 1000, "tsize": sz})
        add("zero", {"kind": "zero", "seed": 1, "size": sz, "tsize": sz + rnd.randrange(0, 5)})
        add("period", {"kind": "period", "seed": rnd.randrange(1 << 30), "size": sz, "tsize": sz, "p": rnd.choice([1, 2, 3, 7, 700, 1024])})
    blks = [700, 704, 1000, 1024, 4096, 8192, 32768, 65536, 131072]
    nrand = 12 if tier == "quick" else 60
    for _ in range(nrand):
        blk = rnd.choice(blks)
        size = rnd.choice([blk * 3 + rnd.randrange(blk), 262144 + rnd.randrange(-blk, blk), 3 * 262144 + rnd.randrange(1000), rnd.randrange(1, 2_000_000)])
        ne = rnd.randrange(0, 4)
        edits, off = [], 0
        for _ in range(ne):
            off += rnd.randrange(1, max(2, size // (ne + 1)))
            edits.append({"op": "rep", "off": off, "n": rnd.choice([0, 1, 5, blk, 2 * blk + 1]), "m": rnd.choice([0, 1, 3, 100, blk + 7])})
            off += edits[-1]["n"]
        add("edits-refblk", {"kind": "edits", "seed": rnd.randrange(1 << 30), "size": size, "edits": edits}, blk=blk)
        add("weakcoll", {"kind": "weakcoll", "seed": rnd.randrange(1 << 30), "size": blk * 8 + rnd.randrange(blk), "p": blk}, blk=blk, s2=rnd.choice([16, 16, 2, 0]))
        add("dupblocks", {"kind": "dupblocks", "seed": rnd.randrange(1 << 30), "size": blk * 6 + rnd.randrange(blk), "tsize": blk * 7 + rnd.randrange(blk), "p": blk}, blk=blk)
        add("collpool", {"kind": "collpool", "seed": rnd.randrange(1 << 30), "size": rnd.randrange(4, 14), "tsize": rnd.randrange(4, 16), "p": rnd.choice([3, 8, 700, blk])}, blk=-1)
        if size % blk != 0 and size > 3 * blk:
            add("remreuse", {"kind": "remreuse", "seed": rnd.randrange(1 << 30), "size": size, "p": blk}, blk=blk)
    return cases


def flatten(rows):
    out = []
    for o in rows:
        if "multi" in o:
            out.extend(o["multi"])
        elif "toks" in o and "id" in o:
            out.append(o)
        else:
            scn = o.get("scn") or {}
            subs = scn.get("session") or [scn]
            for sub in subs:
                out.append(normalise(dict(o, scn=sub)))
    return out


def to_lines(scen, session):
    """Group scenarios into sender sessions of `session` files each (1 = one file per session)."""
    if session <= 1:
        return list(scen)
    return [{"session": scen[i:i + session]} for i in range(0, len(scen), session)]


def run_and_validate(w, scen, label, v, counts, confirm=True, session=1, first_id=1):
    """Replay scenarios on the real sender, validate traces with TLC, confirm
    rejections by re-running them, record confirmed violations."""
    for i, s in enumerate(scen):
        s["id"] = first_id + i
    sf = w.path("scen-%s.ndjson" % label)
    of = w.path("obs-%s.ndjson" % label)
    lines = to_lines(scen, session)
    write_ndjson(sf, lines)
    summ = w.run_harness("delta", sf, of)
    obs = flatten(read_ndjson(of))
    if len(obs) != len(scen):
        raise Broken("harness returned %d observations for %d scenarios" % (len(obs), len(scen)))
    harness_broken = [o for o in obs if o["err"].startswith("HARNESS")]
    if harness_broken:
        raise Broken("harness error: " + harness_broken[0]["err"])
    rej, gen, dist, where = validate(w, obs, label)
    counts["traces"] += len(obs)
    counts["trace_states"] += dist
    counts["trace_transitions"] += gen
    if rej and confirm:
        # confirm on the real code: re-run exactly the sessions containing rejected scenarios
        again = [ln for ln in lines if any(s["id"] in rej for s in (ln.get("session") or [ln]))]
        sf2, of2 = w.path("scen-%s-confirm.ndjson" % label), w.path("obs-%s-confirm.ndjson" % label)
        write_ndjson(sf2, again)
        w.run_harness("delta", sf2, of2)
        obs2 = flatten(read_ndjson(of2))
        rej2, _, _, where2 = validate(w, obs2, label + "-confirm")
        unconfirmed = vlib_unreproduced(v, rej, rej2, "rejected token streams", total=len(obs))
        sess_of = {}
        for ln in again:
            for sub in (ln.get("session") or [ln]):
                sess_of[sub["id"]] = ln
        for o in obs2:
            if o["id"] in rej2 and o["id"] in rej:
                detail = {"scenario": o["scn"], "session": sess_of.get(o["id"]) if session > 1 else None,
                          "first_unexplained_event": where2.get(o["id"]),
                          "observed": {k: o[k] for k in ("err", "ended", "sumok", "idxok", "hdrok", "tlen", "blk", "s2", "count", "lit", "bounded", "inserted", "nedits")},
                          "tokens": o["toks"][:40],
                          "rerun": "rsverif run delta (scenario/session above)"}
                sig = signature(o)
                if session > 1:
                    sig["in_session"] = True
                v.violation(sig, detail)
    return obs, rej, summ
