"""C08 — malformed or hostile peer input ends only that session, with an error
(fault enumeration: Hostile.tla enumerates victim x field x damage class; the harness
adds every option of the parser's table as an argument line, random noise and
truncation at every offset; each runs against the real daemon / client in a worker
subprocess; outcomes validated by TLC against HostileTrace)."""
import json
import random
import re

from vlib import unreproduced as vlib_unreproduced, Broken, Verdict, read_ndjson, write_ndjson, require_coverage, REPO

TRACE_CFG = "SPECIFICATION Spec\nCHECK_DEADLOCK TRUE\n"


def option_names():
    src = open(REPO + "/internal/rsyncopts/rsyncopts.go").read()
    longs = sorted(set(re.findall(r'\{"([a-zA-Z0-9][a-zA-Z0-9.-]*)", "[^"]*", POPT_', src)))
    shorts = sorted(set(re.findall(r'\{"[a-zA-Z0-9.-]*", "([a-zA-Z0-9])", POPT_', src)))
    return longs, shorts


def normalise(o):
    if "alive" in o and "id" in o:
        return o
    scn = o.get("scn") or {}
    return {"id": scn.get("id", -1), "victim": scn.get("victim", ""), "field": scn.get("field", ""), "class": scn.get("class", ""), "kind": scn.get("kind", ""),
            "alive": False if o.get("crashed") else True, "ended": not o.get("hung"), "nextok": False,
            "result": ("CRASHED: " if o.get("crashed") else "HUNG: " if o.get("hung") else "HARNESS: " + str(o.get("harness_error"))) + (o.get("stderr") or "")[:1500],
            "hit": True, "reported": "", "len": 0, "scn": scn}


def run(w, scen, label):
    sf, of = w.path("hscen-%s.ndjson" % label), w.path("hobs-%s.ndjson" % label)
    write_ndjson(sf, scen)
    summ = w.run_harness("hostile", sf, of, case_timeout=90)
    obs = [normalise(o) for o in read_ndjson(of)]
    if len(obs) != len(scen):
        raise Broken("harness returned %d observations for %d scenarios" % (len(obs), len(scen)))
    hb = [o for o in obs if o["result"].startswith("HARNESS")]
    if hb:
        raise Broken("harness error: " + hb[0]["result"])
    return obs, summ


def validate(w, obs, label):
    tf = w.path("htrace-%s-%d.ndjson" % (label, len(w.tlc_runs)))
    write_ndjson(tf, [{k: o[k] for k in ("id", "victim", "alive", "ended", "nextok")} for o in obs if not outside_domain(o)], clamp=True)
    r = w.tlc("HostileTrace", TRACE_CFG, env={"VERIF_TRACE": tf}, label="HostileTrace-" + label, timeout=3000)
    if not r["completed"]:
        raise Broken("trace validation did not complete: " + r["out"][-3000:])
    return set(i for i, _ in r["rejects"]), r["generated"], r["distinct"]


def outside_domain(o):
    """Random noise can forge multi-megabyte counts; C08 excludes resource exhaustion and stalls:
    a noise case that ran out of memory or did not finish in time is no verdict either way."""
    if o["kind"] != "noise":
        return False
    return (not o["ended"]) or "out of memory" in o["result"] or "cannot allocate" in o["result"]


def where_crashed(text):
    m = re.search(r"(panic: [^\n]*)", text)
    p = m.group(1)[:100] if m else ""
    loc = re.findall(re.escape(REPO) + r"/([\w/.]+\.go:\d+)", text)
    return p, (loc[0] if loc else "")


def sig(o):
    scn = o["scn"]
    s = {"victim": o["victim"], "what": "died" if not o["alive"] else ("stuck" if not o["ended"] else "daemon-stopped-serving")}
    if not o["alive"]:
        p, loc = where_crashed(o["result"])
        s["panic"] = p
        s["at"] = loc
        if not p:
            s["exit"] = True
            s["args"] = [re.sub(r"=.*", "=", a) for a in scn.get("args") or []]
    return s


def check(w):
    v = Verdict(w, "fault_enumeration")
    quick = w.tier == "quick"
    rnd = random.Random(w.seed)
    r = w.tlc_ok("Hostile", "SPECIFICATION Spec\nINVARIANT Survives\nPROPERTIES SessionEnds DaemonKeepsServing\nCHECK_DEADLOCK TRUE\n", coverage=True, label="Hostile")
    cov = require_coverage(r, ["EndSession", "NextRequest"])
    out = w.path("hostile-scen.raw")
    g = w.tlc_ok("Hostile", "SPECIFICATION GenSpec\nINVARIANT Emit\nCHECK_DEADLOCK FALSE\n", env={"VERIF_OUT": out}, workers=1, label="HostileGen")
    scen = read_ndjson(out)
    if len(scen) != g["distinct"] or len(scen) < 500:
        raise Broken("scenario generation: %d lines" % len(scen))
    nfield = len(scen)
    # every option the parser knows, as an argument line (alone, with a value, after --daemon / --server)
    longs, shorts = option_names()
    if len(longs) < 100:
        raise Broken("could not extract the option table (%d names)" % len(longs))
    for victim in ("daemon-sender", "daemon-receiver"):
        for name in longs:
            for form in (["--" + name], ["--" + name + "=1"], ["--" + name + "=x"], ["--daemon", "--" + name + "=zz"], ["--" + name + "=99999999999"], ["--" + name + "=help"]):
                if quick and victim == "daemon-receiver" and form != ["--" + name]:
                    continue
                scen.append({"victim": victim, "field": "", "class": "", "kind": "argline", "args": form})
        if victim == "daemon-sender":
            # argument lines that are nothing but options (no --server, no paths), e.g. a daemon-mode command line
            for name in longs:
                for form in (["--daemon", "--" + name + "=zz"], ["--daemon", "--" + name + "=99999999999"], ["--daemon", "--" + name], ["--" + name]):
                    scen.append({"victim": victim, "field": "", "class": "", "kind": "argline", "args": form, "only": True})
        for c in shorts:
            scen.append({"victim": victim, "field": "", "class": "", "kind": "argline", "args": ["-" + c]})
            scen.append({"victim": victim, "field": "", "class": "", "kind": "argline", "args": ["-" + c + c + c]})
        # the valid request WITHOUT its "--server" line (the options then describe a client to the transfer code), with every option
        for name in longs:
            scen.append({"victim": victim, "field": "", "class": "", "kind": "argline", "args": ["--" + name], "noserver": True})
        for c in shorts:
            scen.append({"victim": victim, "field": "", "class": "", "kind": "argline", "args": ["-" + c], "noserver": True})
            scen.append({"victim": victim, "field": "", "class": "", "kind": "argline", "args": ["-v", "--progress", "-" + c], "noserver": True})
    narg = len(scen) - nfield
    # multiplex frames around and beyond the size limit, completely delivered
    for size in (262143, 262144, 262145, 300000, 1048576, 16777215):
        scen.append({"victim": "client", "field": "", "class": "", "kind": "bigframe", "frame": size})
    # truncation at every offset and random noise
    for victim, ln in (("daemon-sender", 140), ("daemon-receiver", 1200), ("client", 1200)):
        step = 1 if not quick else (1 if ln < 200 else 7)
        for cut in range(0, ln, step):
            scen.append({"victim": victim, "field": "", "class": "", "kind": "cut", "cut": cut})
        for _ in range(150 if quick else 2000):
            scen.append({"victim": victim, "field": "", "class": "", "kind": "noise", "seed": rnd.randrange(1 << 30)})
    for i, s in enumerate(scen):
        s["id"] = i + 1
    obs, summ = run(w, scen, "all")
    unhit = [o for o in obs if not o["hit"]]
    if len(unhit) > 40:
        raise Broken("%d field mutations did not find their field in the script: %s" % (len(unhit), sorted({(o["victim"], o["field"]) for o in unhit})[:10]))
    rej, gen, dist = validate(w, obs, "all")
    if rej:
        byid = {s["id"]: s for s in scen}
        obs2, _ = run(w, [byid[i] for i in sorted(rej)], "confirm")
        rej2, _, _ = validate(w, obs2, "confirm")
        vlib_unreproduced(v, rej, rej2, total=len(obs))
        for o in obs2:
            if o["id"] in rej2:
                v.violation(sig(o), {"scenario": o["scn"], "observed": {k: o[k] for k in ("alive", "ended", "nextok", "result", "reported")}})
    good = [o for o in obs if o["id"] not in rej and o["kind"] != "noise"]
    bad = []
    for o in rnd.sample(good, min(30, len(good))):
        c = dict(o)
        c["id"] = 10_000_000 + o["id"]
        k = rnd.choice(["alive", "ended"] + (["nextok"] if o["victim"] != "client" else []))
        c[k] = False
        bad.append(c)
    nrej, _, _ = validate(w, bad, "negctl")
    if nrej != {c["id"] for c in bad}:
        raise Broken("negative control: dead victims accepted by HostileTrace")
    errs = sum(1 for o in obs if o["result"] not in ("ok", ""))
    v.coverage = {
        "evaluations": len(obs), "distinct_nontrivial": errs,
        "rule": "one hostile session against the real daemon (serving a module / receiving an upload) or the real client, in a worker subprocess, followed by a canonical valid request to the same daemon: "
                "every (field, damage class) pair TLC enumerates from Hostile.tla (%d; fields of greeting, module, argument lines, filter list, requests, checksum headers, file-list entries, id lists, tokens, trailers, multiplex header; "
                "classes zero, -1, INT_MIN, +1, -1, 10^6, wrong type, truncated here, garbage), every option of the parser's table as an argument line in several forms (%d), truncation at every offset and random noise; "
                "non-trivial = the attacked session ended with an error" % (nfield, narg),
        "samples": [{"victim": o["victim"], "field": o["field"], "class": o["class"], "kind": o["kind"], "args": o["scn"].get("args"), "result": o["result"][:100], "reported": o["reported"][:100], "nextok": o["nextok"]}
                    for o in (obs[:2] + obs[nfield:nfield + 1] + obs[-1:])],
        "field_mutations": nfield, "argument_lines": narg, "cuts_and_noise": len(scen) - nfield - narg, "options_in_table": len(longs),
        "model_states": r["distinct"], "model_transitions": r["generated"], "action_coverage": cov,
        "traces_validated_against_impl": len([o for o in obs if not outside_domain(o)]), "noise_cases_outside_the_domain": len([o for o in obs if outside_domain(o)]),
        "negative_controls": len(bad), "worker_deaths_observed": summ["crashed"],
    }
    v.assumptions = ["a victim that only waits for more input is released by closing the connection (stalled peers are outside C08)", "count-like fields stay below 2^20 unless negative",
                     "the connection is an in-memory pipe; the daemon handler runs in a goroutine exactly like under Serve()"]
    return v.finish()
