"""C05 — a receiver never touches anything outside its destination directory."""
import json
import random

from vlib import clip as vclip
from vlib import Broken, Verdict, read_ndjson, write_ndjson, require_coverage

TRACE_CFG = "SPECIFICATION Spec\nCHECK_DEADLOCK TRUE\n"
SUBS = ["l", "l/", "l//", "l/sub", "l/newdir", "l/newdir/", "../outside", "../outside/", "/ABS/sub", "/ABS/sub/", "a/../../outside", "a/../l/", "a/../l",
        "lf", "lf/", ".", "./", "a", "a/", "newsub/deeper", "..", "../", "l/.", "l/./sub/", "./l/", "a/./../l/sub/"]
BENIGN_SUBS = {".", "./", "a", "a/", "newsub/deeper"}


def normalise(o):
    if "changed" in o and "id" in o:
        return o
    scn = o.get("scn") or {}
    return {"id": scn.get("id", -1), "class": scn.get("class", ""), "name": scn.get("name", ""), "t": scn.get("t", ""), "recv": scn.get("recv", ""),
            "sub": scn.get("sub", ""), "escapes": scn.get("escapes", False), "result": "crashed" if o.get("crashed") else "hung",
            "err": ("CRASHED: " if o.get("crashed") else "HUNG: " if o.get("hung") else "HARNESS: " + str(o.get("harness_error"))) + vclip(o.get("stderr"), 1200),
            "changed": [], "events": [], "leak": False, "reqs": 0, "scn": scn}


def run(w, scen, label):
    sf, of = w.path("cscen-%s.ndjson" % label), w.path("cobs-%s.ndjson" % label)
    write_ndjson(sf, scen)
    summ = w.run_harness("confine", sf, of, case_timeout=60)
    obs = [normalise(o) for o in read_ndjson(of)]
    if len(obs) != len(scen):
        raise Broken("harness returned %d observations for %d scenarios" % (len(obs), len(scen)))
    hb = [o for o in obs if o["err"].startswith("HARNESS")]
    if hb:
        raise Broken("harness error: " + hb[0]["err"])
    return obs, summ


def validate(w, obs, label):
    tf = w.path("ctrace-%s-%d.ndjson" % (label, len(w.tlc_runs)))
    write_ndjson(tf, [{k: o[k] for k in ("id", "result", "changed", "events", "leak")} for o in obs], clamp=True)
    r = w.tlc("ConfineTrace", TRACE_CFG, env={"VERIF_TRACE": tf}, label="ConfineTrace-" + label, timeout=3000)
    if not r["completed"]:
        raise Broken("trace validation did not complete: " + r["out"][-3000:])
    return set(i for i, _ in r["rejects"]), r["generated"], r["distinct"]


def sig(o):
    what = "changed" if o["changed"] else "accessed" if o["events"] else "leak" if o["leak"] else o["result"]
    vec = "subdir" if o["class"] == "daemon-subdir" else ("absolute" if o["name"].startswith("/ABS/") else "dotdot" if ".." in o["name"].split("/") else "symlink")
    s = {"what": what, "class": o["class"], "vector": vec, "t": o["t"]}
    if o["class"] == "daemon-subdir":
        s["trailing_slash"] = o["sub"].endswith("/")
    return s


def check(w):
    v = Verdict(w, "model_checking")
    rnd = random.Random(w.seed)
    quick = w.tier == "quick"
    r = w.tlc_ok("Confine", "SPECIFICATION Spec\nINVARIANT Confined\nCHECK_DEADLOCK TRUE\n", coverage=True, label="Confine")
    cov = require_coverage(r, ["Process"])
    out = w.path("confine-scen.raw")
    g = w.tlc_ok("Confine", "SPECIFICATION GenSpec\nINVARIANT Emit\nCHECK_DEADLOCK FALSE\n", env={"VERIF_OUT": out}, workers=1, label="ConfineGen")
    base = read_ndjson(out)
    if len(base) != g["distinct"] or len(base) < 1000:
        raise Broken("scenario generation: %d lines" % len(base))
    scen = []
    nts = 0
    for k, s in enumerate(base):
        if s.get("tslash") and quick:
            if not s["escapes"]:
                continue
            nts += 1
            if nts % 2:
                continue    # quick tier: every second effective trailing-slash spelling
        for rv in ("client", "daemon"):
            scen.append(dict(s, recv=rv, delete=(k % 2 == 0), **{"class": "hostile-list"}))
            # ... and with file data for the hostile entry pushed WITHOUT a request (the receiver accepts data for any index
            # of the list, whatever its type); every third scenario in the quick tier
            if not quick or k % 3 == 0:
                scen.append(dict(s, recv=rv, delete=False, push=True, **{"class": "unrequested-data"}))
    # the sub-directory argument of a daemon upload
    for sub in SUBS:
        for dele in (False, True):
            scen.append({"name": "", "t": "reg", "sends": False, "escapes": sub not in BENIGN_SUBS, "recv": "daemon", "delete": dele, "sub": sub,
                         "benign": True, "class": "daemon-subdir"})
    # time of check vs time of use WITHIN one list: an entry is handled while its path runs through an inside-pointing
    # symlink; a later entry re-points that symlink (through an alias of the root) to the outside; an operation the
    # receiver performs LATER for the first entry (directory permission touch-up after the transfer, commit of file data
    # that arrives after the generator's pass) must still resolve through the root (Confine.tla: Deferred)
    for target in ("OUTSIDE", "../outside"):
        for rv in ("client", "daemon"):
            scen.append({"name": "a", "t": "dir", "sends": False, "escapes": True, "recv": rv, "delete": False, "class": "retarget-touchup",
                         "more": [{"name": "a/sub", "t": "dir"}, {"name": "b", "t": "lnkto:a"}, {"name": "b/sub", "t": "rodir"},
                                  {"name": "c", "t": "lnkto:."}, {"name": "c/b", "t": "lnkto:" + target}]})
            scen.append({"name": "a", "t": "dir", "sends": False, "escapes": True, "recv": rv, "delete": False, "batch": True, "class": "retarget-commit",
                         "more": [{"name": "b", "t": "lnkto:a"}, {"name": "b/file", "t": "reg"}, {"name": "b/sub/file", "t": "reg"}, {"name": "b/sub", "t": "dir"},
                                  {"name": "c", "t": "lnkto:."}, {"name": "c/b", "t": "lnkto:" + target}]})
    # random longer hostile lists over the same grammar
    comps = ["a", "l", "lf", "s", "..", "b", "sub", "file"]
    types = ["reg", "dir", "lnk", "lnkout", "fifo", "sock", "chr"]
    nrand = 300 if quick else 3000
    for _ in range(nrand):
        def nm():
            n = "/".join(rnd.choice(comps) for _ in range(rnd.randrange(1, 6)))
            return ("/ABS/" + n) if rnd.random() < 0.1 else n
        more = [{"name": nm(), "t": rnd.choice(types)} for _ in range(rnd.randrange(1, 5))]
        scen.append({"name": nm(), "t": rnd.choice(types), "sends": rnd.random() < 0.5, "escapes": True, "recv": rnd.choice(["client", "daemon"]),
                     "delete": rnd.random() < 0.5, "push": rnd.random() < 0.3, "more": more, "class": "random-list"})
    for i, s in enumerate(scen):
        s["id"] = i + 1
    obs, summ = run(w, scen, "all")
    # a run without an observation of the outside region (worker died / session never returned) cannot be judged
    # by C05 (crashes and hangs are C08's and C18's business); more than a handful means the harness is broken
    unjudged = [o for o in obs if o["result"] in ("crashed", "hung")]
    if len(unjudged) > max(5, len(obs) // 500):
        raise Broken("%d of %d hostile-list runs ended without an observation (crashed / hung): %s" % (len(unjudged), len(obs), unjudged[0]["err"][:400]))
    obs = [o for o in obs if o["result"] not in ("crashed", "hung")]
    rej, gen, dist = validate(w, obs, "all")
    if rej:
        byid = {s["id"]: s for s in scen}
        obs2, _ = run(w, [byid[i] for i in sorted(rej)], "confirm")
        rej2, _, _ = validate(w, obs2, "confirm")
        lost = set(rej) - set(rej2)
        if lost and len(lost) > max(3, len(obs) // 1000) and (not rej2 or any(not byid[i].get("push") for i in lost)):
            raise Broken("rejections not reproduced on re-run: %s" % sorted(lost)[:10])
        if lost:
            # unrequested data races with the generator (which may end the session first): an outside effect that did not
            # show again is no verdict; the reproduced ones are
            v.notes.append("%d rejected unrequested-data runs did not reproduce (receiver/generator race) and were dropped; %d reproduced" % (len(lost), len(rej2)))
        for o in obs2:
            if o["id"] in rej2:
                v.violation(sig(o), {"scenario": o["scn"], "observed": {k: o[k] for k in ("result", "err", "changed", "events", "leak")}})
    # negative controls: observations that show an outside effect must be rejected
    good = [o for o in obs if o["id"] not in rej]
    bad = []
    for o in rnd.sample(good, min(30, len(good))):
        c = dict(o)
        c["id"] = 10_000_000 + o["id"]
        how = rnd.choice(["changed", "events", "leak"])
        if how == "changed":
            c["changed"] = ['outside/file: "x" -> "y"']
        elif how == "events":
            c["events"] = ["open outside/file"]
        else:
            c["leak"] = True
        bad.append(c)
    nrej, _, _ = validate(w, bad, "negctl")
    if nrej != {c["id"] for c in bad}:
        raise Broken("negative control: outside effects accepted by ConfineTrace")
    eff = [o for o in obs if o["escapes"]]
    by = {}
    for o in obs:
        by[(o["class"], o["result"])] = by.get((o["class"], o["result"]), 0) + 1
    v.coverage = {
        "states": r["distinct"], "transitions": r["generated"], "traces_validated_against_impl": len(obs), "exhaustive": True,
        "samples": [{"name": o["name"], "t": o["t"], "recv": o["recv"], "sub": o["sub"], "result": o["result"], "err": o["err"][:100]} for o in (eff[:2] + [o for o in obs if o["class"] == "daemon-subdir"][:2])],
        "evaluations": len(obs), "distinct_nontrivial": len(eff),
        "rule": "hostile entry names of 1..3 components over {a, l (pre-existing link out), lf (link to outside file), s (link out sent first in the same list), ..} optionally absolute, optionally spelled with a trailing slash, "
                "x entry type {reg, dir, lnk, fifo, sock, chr} x {s sent first or not} x --delete on/off, on the real client receiver and a writable daemon module (run as root with -rlptgoD); "
                "the same lists with file data pushed for the hostile entry without a request; plus the daemon's destination sub-directory argument over a traversal grammar, plus random longer lists; non-trivial = a path-joining receiver would reach the outside region (Confine!Escapes)",
        "by_class_and_result": {"%s/%s" % k: n for k, n in sorted(by.items())},
        "action_coverage": cov, "negative_controls": len(bad), "worker_crashes": summ["crashed"], "runs_without_observation_not_judged": len(unjudged),
    }
    v.assumptions = ["outside effects are observed by a before/after snapshot (content, mode, mtime, owner, entry sets) and inotify (open/access/attrib/modify/create/delete) on the outside directories; a bare lstat of an outside object is not observable",
                     "landlock is disabled in the harness (DontRestrict), so confinement is os.Root's"]
    return v.finish()
