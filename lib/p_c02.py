"""C02 — delta encoding and decoding are exact for every basis, target and block layout."""
import json
import random

import p_delta
from p_delta import delta_cfg, DELTA_ACTIONS
from vlib import clip as vclip
from vlib import unreproduced as vlib_unreproduced, Broken, Verdict, log, read_ndjson, write_ndjson, require_coverage


def validate_rtok(w, obs, label):
    tf = w.path("rtok-%s.ndjson" % label)
    write_ndjson(tf, [{k: o[k] for k in ("id", "basis", "blk", "script", "out", "result", "temps")} for o in obs], clamp=True)
    r = w.tlc("RecvDeltaTrace", "SPECIFICATION TSpec\nCHECK_DEADLOCK TRUE\n", env={"VERIF_TRACE": tf}, label="RecvDeltaTrace-" + label, timeout=3000)
    if not r["completed"]:
        raise Broken("receiver-script validation did not complete: " + r["out"][-3000:])
    return r, set(i for i, _ in r["rejects"])


def run_rtok(w, lines, label):
    sf, of = w.path("rtokscen-%s.ndjson" % label), w.path("rtokobs-%s.ndjson" % label)
    write_ndjson(sf, lines)
    w.run_harness("rtok", sf, of, case_timeout=240)
    obs = []
    for o in read_ndjson(of):
        if "out" not in o:      # crashed / hung / harness error
            scn = o.get("scn") or {}
            if o.get("harness_error"):
                raise Broken("rtok harness error: %s" % o.get("harness_error"))
            o = {"id": scn.get("id", -1), "basis": scn.get("basis", []), "blk": scn.get("blk", 1), "script": scn.get("script", []), "recv": scn.get("recv", ""),
                 "result": "crashed" if o.get("crashed") else "hung", "err": vclip(o.get("stderr"), 800), "out": [-3], "temps": 0}
        obs.append(o)
    if len(obs) != len(lines):
        raise Broken("rtok: %d observations for %d scenarios" % (len(obs), len(lines)))
    r, rej = validate_rtok(w, obs, label)
    run_rtok.traces = getattr(run_rtok, "traces", 0) + len(obs)
    return obs, rej


def check(w):
    tier, seed = w.tier, w.seed
    v = Verdict(w, "model_checking")
    quick = tier == "quick"
    # ---- 1. design level: exhaustive model check of Delta (sender + receiver)
    L, B = (4, 2) if quick else (5, 3)
    r = w.tlc_ok("Delta", delta_cfg(L, B), label="Delta-safety")
    states, transitions = r["distinct"], r["generated"]
    rc = w.tlc_ok("Delta", delta_cfg(3, 2), coverage=True, label="Delta-coverage")
    cov = require_coverage(rc, DELTA_ACTIONS)
    rl = w.tlc_ok("Delta", delta_cfg(2, 2, invariants=False, prop=True), label="Delta-liveness")
    # ---- 2. spec -> code: every initial state of the model is replayed on the real sender
    # (quick: full strong sums to length 4, truncated ones to length 3; thorough: both to length 5)
    gens = [(4, 3, "{16}"), (3, 3, "{0}")] if quick else [(5, 3, "{0, 16}")]
    GL, GB = gens[0][0], gens[0][1]
    scen = []
    for k, (gl, gb, s2set) in enumerate(gens):
        out = w.path("delta-scen-%d.raw" % k)
        g = w.tlc_ok("DeltaGen", delta_cfg(gl, gb, s2set=s2set, spec="GenSpec", invariants=False, deadlock=False) + "INVARIANT Emit\n",
                     env={"VERIF_OUT": out}, workers=1, label="DeltaGen-%d" % k)
        part = read_ndjson(out)
        if len(part) != g["distinct"] or len(part) < 100:
            raise Broken("scenario generation: %d lines for %d initial states" % (len(part), g["distinct"]))
        scen += part
    for s in scen:
        s["class"] = "tlc-small"
    # weak-checksum collisions in small scope (DeltaColl): design check + every scenario replayed
    MB = 3
    coll_cfg = delta_cfg(9, 3, flush=2)
    coll_cfg = coll_cfg.replace("SPECIFICATION Spec", "SPECIFICATION CollSpec").replace("IdenticalFree", "CollisionCaught") + "CONSTANT MaxBlocks = %d\n" % MB
    rcoll = w.tlc_ok("DeltaColl", coll_cfg, label="DeltaColl-safety")
    states += rcoll["distinct"]
    transitions += rcoll["generated"]
    out = w.path("coll-scen.raw")
    gcfg = delta_cfg(9, 3, flush=2, s2set="{16}" if quick else "{0, 16}", spec="GenSpec", invariants=False, deadlock=False) + "CONSTANT MaxBlocks = %d\nINVARIANT Emit\n" % MB
    g = w.tlc_ok("DeltaColl", gcfg, env={"VERIF_OUT": out}, workers=1, label="DeltaCollGen")
    coll = read_ndjson(out)
    if len(coll) != g["distinct"] or len(coll) < 100:
        raise Broken("collision scenario generation: %d lines for %d initial states" % (len(coll), g["distinct"]))
    for s in coll:
        s["class"] = "tlc-collision"
    ncoll = len(coll)
    scen += coll
    counts = {"traces": 0, "trace_states": 0, "trace_transitions": 0}
    obs, rej, summ = p_delta.run_and_validate(w, scen, "small", v, counts)
    # ---- 3. code -> spec: concrete-domain cases (sizes/blocks TLC cannot enumerate),
    #         each run alone and again inside multi-file sender sessions
    big = p_delta.big_cases(tier, seed)
    bobs, brej, bsumm = p_delta.run_and_validate(w, big, "big", v, counts)
    big2 = [dict(b) for b in p_delta.big_cases(tier, seed + 1000)]
    random.Random(seed).shuffle(big2)
    sobs, srej, ssumm = p_delta.run_and_validate(w, big2, "bigsess", v, counts, session=4, first_id=100000)
    bobs, brej = bobs + sobs, set(brej) | set(srej)
    big = big + big2
    # ---- 3b. receiver half (RecvDelta.tla): every valid token script within bounds - references in any order,
    #          the short remainder block first or mid-file, repeated / unused blocks, literal runs anywhere - is
    #          sent by the reference sender to the REAL receivers; TLC judges the file they wrote (RecvDeltaTrace)
    RL, RT = (4, 3) if quick else (5, 4)
    rd_cfg = ("CONSTANTS\n  MaxLen = %d\n  Blks = {1, 2}\n  MaxToks = %d\n  LitSyms = {50}\n" % (RL, RT))
    rrd = w.tlc_ok("RecvDelta", "SPECIFICATION Spec\n" + rd_cfg + "INVARIANTS Faithful Accepts\nCHECK_DEADLOCK TRUE\n", coverage=True, label="RecvDelta-safety")
    rcov = require_coverage(rrd, ["RcvLit", "RcvRef", "RcvEnd"])
    states += rrd["distinct"]
    transitions += rrd["generated"]
    out = w.path("rdelta-scen.raw")
    g = w.tlc_ok("RecvDelta", "SPECIFICATION GenSpec\n" + rd_cfg + "INVARIANT Emit\nCHECK_DEADLOCK FALSE\n", env={"VERIF_OUT": out}, workers=1, label="RecvDeltaGen")
    scripts = read_ndjson(out)
    if len(scripts) != g["distinct"] or len(scripts) < 100:
        raise Broken("receiver script generation: %d lines for %d initial states" % (len(scripts), g["distinct"]))
    rlines = []
    for k, sc in enumerate(scripts):
        rlines.append({"id": 500000 + k, "basis": sc["basis"], "blk": sc["blk"], "script": sc["script"], "recv": "client" if k % 2 == 0 else "daemon"})
    # ... and a few of them with the basis blocks BEYOND 2 GiB (sparse file): offsets need more than 32 bits
    hugeable = [sc for sc in scripts if sc["blk"] == 2 and len(sc["basis"]) == 5 and sc["remfirst"]] or [sc for sc in scripts if sc["blk"] == 2 and len(sc["basis"]) in (4, 5)]
    for k, sc in enumerate(random.Random(seed).sample(hugeable, min(len(hugeable), 2 if quick else 8))):
        rlines.append({"id": 900000 + k, "basis": sc["basis"], "blk": sc["blk"], "script": sc["script"], "recv": "client" if k % 2 == 0 else "daemon", "huge": True})
    robs, rrej = run_rtok(w, rlines, "rtok")
    if rrej:
        again = [ln for ln in rlines if ln["id"] in rrej]
        robs2, rrej2 = run_rtok(w, again, "rtok-confirm")
        vlib_unreproduced(v, rrej, rrej2)
        remfirst = {500000 + k for k, sc in enumerate(scripts) if sc["remfirst"]}
        for o in robs2:
            if o["id"] in rrej2:
                v.violation({"kind": "receiver", "result": o["result"], "remainder_block_before_full_block": o["id"] in remfirst, "recv": o["recv"], "basis_beyond_2GiB": o["id"] >= 900000},
                            {"basis": o["basis"], "blk_symbols": o["blk"], "script": o["script"], "wrote_symbols": o["out"], "result": o["result"], "err": o["err"][:500],
                             "temps": o["temps"], "note": "a symbol is 700/blk bytes; the real generator cut the basis into 700-byte blocks"})
    # negative control for the receiver half: a wrong written file must be rejected
    rgood = [o for o in robs if o["id"] not in rrej and len(o["out"]) >= 2]
    if len(rgood) < 10:
        raise Broken("too few accepted receiver-script runs (%d)" % len(rgood))
    rbad = []
    for o in random.Random(seed).sample(rgood, 10):
        c = json.loads(json.dumps(o))
        c["id"] += 1000000
        c["out"] = c["out"][1:] + c["out"][:1] if len(set(c["out"])) > 1 else c["out"] + [c["out"][0]]
        rbad.append(c)
    _, nrr = validate_rtok(w, rbad, "rtok-negctl")
    if {c["id"] for c in rbad} - nrr:
        raise Broken("negative control: wrong receiver output accepted by RecvDeltaTrace")
    # ---- 4. negative controls: corrupted traces must be rejected, intact ones accepted
    rnd = random.Random(seed)
    good = [o for o in obs if o["id"] not in rej and o["toks"]] + [o for o in bobs if o["id"] not in brej and o["toks"]]
    if len(good) < 20:
        raise Broken("too few accepted traces (%d) to run negative controls" % len(good))
    sample = rnd.sample(good, min(60, len(good)))
    bad = [p_delta.corrupt(o, rnd) for o in sample]
    must = {c["id"] for c in bad if not c.pop("_maybe_legal", False)}
    for c in bad:
        c.pop("_maybe_legal", None)
    nrej, _, _, _ = p_delta.validate(w, bad + sample[:10], "negctl")
    if not must <= nrej:
        raise Broken("negative control: corrupted traces accepted by DeltaTrace: %s" % sorted(must - nrej)[:5])
    if nrej & {o["id"] for o in sample[:10]}:
        raise Broken("negative control: intact traces rejected")
    # ---- evidence
    nontrivial = sum(1 for o in obs + bobs if any(t["k"] in ("ref", "refrun") for t in o["toks"]))
    ex = [o for o in obs if any(t["k"] == "ref" for t in o["toks"]) and any(t["k"] == "lit" for t in o["toks"])]
    samples = []
    for o in (ex[:2] + bobs[:2]):
        samples.append({"scenario": o["scn"], "tokens": [{k: t[k] for k in ("k", "n", "i", "bl", "d", "bytes") if k in t} for t in o["toks"][:8]],
                        "ended": o["ended"], "sumok": o["sumok"], "err": o["err"][:200]})
    v.coverage = {
        "states": states, "transitions": transitions,
        "traces_validated_against_impl": counts["traces"] + len(robs),
        "trace_states": counts["trace_states"],
        "samples": samples,
        "exhaustive": True,
        "design_constants": {"alphabet": "-1..1", "MaxLen": L, "MaxBlk": B, "s2": [0, 16]},
        "replayed_scenarios": {"tlc_enumerated": len(scen), "constants": [{"MaxLen": a, "MaxBlk": b, "s2": c} for a, b, c in gens], "tlc_collision_pool": ncoll, "concrete_domain": len(big), "of_which_in_multi_file_sessions": len(big2)},
        "action_coverage": cov,
        "receiver_scripts": {"module": "RecvDelta.tla", "constants": {"MaxLen": RL, "Blks": [1, 2], "MaxToks": RT}, "scripts": len(scripts),
                             "remainder_block_before_full_block": sum(1 for sc in scripts if sc["remfirst"]), "action_coverage": rcov,
                             "sample": scripts[len(scripts) // 2]},
        "liveness_states": rl["distinct"],
        "distinct_nontrivial": nontrivial,
        "evaluations": len(scen) + len(big),
        "rule": "a case is one (basis, target, block length, strong-sum length) request answered by the real sender; "
                "non-trivial = the answer contains at least one block reference",
        "negative_controls": {"corrupted": len(bad), "rejected": len(nrej)},
        "worker_crashes": summ["crashed"] + bsumm["crashed"] + ssumm["crashed"],
    }
    v.assumptions = ["MD4 / truncated strong sums: collisions only where the generator constructs them (s2 = 0)",
                     "the reference receiver (wirekit) is validated against DeltaOps on all small cases (facts recomputed by TLC)",
                     "small-scope hypothesis for the exhaustive part"]
    return v.finish()
