"""C13 — exclude/include rules filter exactly the named entries."""
import p_recv
import p_sync
from vlib import Broken, Verdict

JUDGE = ("type", "extra")


def sig(o):
    exp_missing = []
    kinds = sorted({("inc" if r["inc"] else "exc") for r in o["rules"]})
    res = o["result"]
    return {"kind": "crash" if res == "crashed" else "hang" if res == "hung" else ("error" if res != "ok" else "selection"), "dir_rule": any(r.get("dir") for r in o["rules"]),
            "arr": o["arr"], "rule_kinds": kinds, "wild": o["wild"]}


def check(w):
    v = Verdict(w, "model_checking")
    quick = w.tier == "quick"
    r, cov, scen = p_recv.design_and_generate(w, "c13", maxrules=2 if quick else 3)
    lines = []
    for k, s in enumerate(scen):
        for arr in ("pull", "push", "local"):
            style = "filter" if (k + len(arr)) % 3 == 0 else "opt"
            lines.append(p_sync.mk_line(s, arr, JUDGE, rule_style=style))
        # library client over the instrumented transport, both directions: the complete transcript (rule list
        # on the wire, entries listed, requests) is validated action by action against Rsync.tla
        for arr in ("lib", "libpush"):
            lines.append(p_sync.mk_line(s, arr, JUDGE, rule_style="opt"))
    # rule syntax the implementation cannot honour must yield an error, never a crash
    base = scen[0]
    for arr in ("pull", "push", "local"):
        # ... also in the directory spelling (trailing slash), anchored, as an include, and in the -f spelling
        for flag in ("--exclude=*.o", "--exclude=a?", "--exclude=[ab]", "--exclude=d*/", "--exclude=?/", "--exclude=[de]/", "--exclude=/d*", "--include=d*/", "--filter=- d?/", "--filter=+ *"):
            ln = p_sync.mk_line(base, arr, JUDGE, wild=True)
            ln["flags"] = ln["flags"] + [flag]
            lines.append(ln)
    counts = {}
    obs, rej = p_sync.run_validate_confirm(w, "c13", lines, "c13", v, counts, sig)
    nneg = p_sync.negative_controls(w, "c13", obs, rej, w.seed)
    nontriv = sum(1 for o in obs if o["rules"])
    v.coverage = {
        "states": r["distinct"], "transitions": r["generated"], "traces_validated_against_impl": counts["traces"], "trace_states": counts["trace_states"],
        "exhaustive": True,
        "samples": [{"rules": o["rules"], "arr": o["arr"], "flags": o["flags"], "final": [n["p"] for n in o["final"]], "result": o["result"]} for o in obs if len(o["rules"]) == 2][:3],
        "rule_lists": len(scen), "evaluations": len(obs), "distinct_nontrivial": nontriv,
        "rule": "every list of 0..%d plain-name rules (+/- a, b, d, e, and the directory spellings d/, e/; given as --exclude/--include or -f) on a tree with those names as files and directories at depths 1..3, "
                "in pull, push, local and library (pull and push, transcript recorded) arrangement with the real code on both ends; non-trivial = at least one rule" % (2 if quick else 3),
        "action_coverage": cov, "negative_controls": nneg, "worker_crashes": counts.get("crashed", 0),
    }
    v.coverage.update(p_sync.wire_coverage(counts))
    v.assumptions = ["plain-name rules only (no slashes, no wildcards) as the property states; wildcard rules are only required to produce an error"]
    return v.finish()
