"""C17 — multiplex framing is transparent."""
import json
import random

from vlib import clip as vclip
from vlib import unreproduced as vlib_unreproduced, Broken, Verdict, read_ndjson, write_ndjson, require_coverage

TRACE_CFG = "SPECIFICATION Spec\nCHECK_DEADLOCK TRUE\n"
ACTIONS = ["DataFrame", "EmptyFrame", "InfoFrame", "ErrorFrame", "EndOfStream", "Recv"]
SHAPES = ["small", "sizes", "literal", "delta", "listing", "error"]


def cfg(n, mf, mi, gen=False):
    c = "SPECIFICATION %s\nCONSTANTS\n StreamLen = %d\n MaxFrame = %d\n MaxInfo = %d\n" % ("GenSpec" if gen else "Spec", n, mf, mi)
    c += "INVARIANT Emit\nCHECK_DEADLOCK FALSE\n" if gen else "INVARIANTS WellFormed PrefixDelivered Transparent ErrorSurfaces NoSpuriousError\nCHECK_DEADLOCK TRUE\n"
    return c


def normalise(o):
    if "parsed" in o and "id" in o:
        return o
    scn = o.get("scn") or {}
    return {"id": scn.get("id", -1), "shape": scn.get("shape", ""), "framing": (scn.get("framing") or {}).get("kind", ""), "nframes": 0, "maxlen": 0, "tags": [],
            "parsed": False, "streamlen": 0, "injerr": False, "baseok": False, "result": "crashed" if o.get("crashed") else "hung",
            "err": ("CRASHED: " if o.get("crashed") else "HUNG: " if o.get("hung") else "HARNESS: " + str(o.get("harness_error"))) + vclip(o.get("stderr"), 1500),
            "same": False, "msgok": False, "outframes": 0, "scn": scn}


def run(w, scen, label):
    sf, of = w.path("mscen-%s.ndjson" % label), w.path("mobs-%s.ndjson" % label)
    write_ndjson(sf, scen)
    summ = w.run_harness("mplex", sf, of, case_timeout=90)
    obs = [normalise(o) for o in read_ndjson(of)]
    if len(obs) != len(scen):
        raise Broken("harness returned %d observations for %d scenarios" % (len(obs), len(scen)))
    hb = [o for o in obs if o["err"].startswith("HARNESS")]
    if hb:
        raise Broken("harness error: " + hb[0]["err"])
    return obs, summ


def validate(w, obs, label):
    tf = w.path("mtrace-%s-%d.ndjson" % (label, len(w.tlc_runs)))
    write_ndjson(tf, [{k: o[k] for k in ("id", "parsed", "maxlen", "tags", "injerr", "baseok", "result", "same", "msgok")} for o in obs], clamp=True)
    r = w.tlc("MplexTrace", TRACE_CFG, env={"VERIF_TRACE": tf}, label="MplexTrace-" + label, timeout=3000)
    if not r["completed"]:
        raise Broken("trace validation did not complete: " + r["out"][-3000:])
    return set(i for i, _ in r["rejects"]), r["generated"], r["distinct"]


def check(w):
    v = Verdict(w, "model_checking")
    quick = w.tier == "quick"
    rnd = random.Random(w.seed)
    r = w.tlc_ok("Mplex", cfg(5, 3, 2) if quick else cfg(6, 3, 2), coverage=True, label="Mplex")
    cov = require_coverage(r, ACTIONS)
    out = w.path("mplex-scen.raw")
    g = w.tlc_ok("Mplex", cfg(4, 3, 2, gen=True), env={"VERIF_OUT": out}, workers=1, label="MplexGen")
    pats = read_ndjson(out)
    if len(pats) != g["distinct"] - (g["distinct"] - len(pats)) or len(pats) < 100:
        raise Broken("pattern generation: %d lines" % len(pats))
    scen = []
    # every framing pattern TLC enumerated, scaled onto the real streams of two shapes (all shapes in the thorough tier)
    for k, p in enumerate(pats):
        shapes = SHAPES if not quick else [SHAPES[k % 4], "small"]
        for sh in dict.fromkeys(shapes):
            scen.append({"shape": sh, "framing": {"kind": "pattern", "pattern": p["pattern"], "units": p["units"]}})
    # adversarial framings at real scale
    for sh in SHAPES:
        for size in ([1, 2, 3, 5, 4096, 262144] if sh != "literal" else [3, 4095, 262144]):
            if size < 3 and sh in ("sizes", "delta"):
                continue
            scen.append({"shape": sh, "framing": {"kind": "fixed", "size": size}})
        # the server's frames MERGED into frames of a fixed size (its own write sizes disappear completely)
        for size in ((7, 32769, 100000, 262144) if sh in ("literal", "sizes", "delta") else (7, 262144)):
            scen.append({"shape": sh, "framing": {"kind": "coalesce", "size": size}})
        for nrun in (1, 3, 99, 100, 101, 500):
            for empty in (False, True):
                scen.append({"shape": sh, "framing": {"kind": "runs", "run": nrun, "empty": empty, "first": 0 if sh in ("small", "listing", "error") else 40}})
        # informational frames that carry nothing, text without a newline, a newline only
        for text in ("EMPTY", "NONL", "NL"):
            for nrun in (1, 3):
                scen.append({"shape": sh, "framing": {"kind": "runs", "run": nrun, "empty": False, "infotext": text, "first": 0 if sh in ("small", "listing", "error") else 40}})
        # an error frame in the LAST stage of the session: before / inside the final phase marker and the statistics
        for k in (1, 4, 5, 8, 12, 13, 16, 20, 24):
            scen.append({"shape": sh, "framing": {"kind": "errat", "errat": 0, "fromend": k}})
        nerr = 12 if quick else 60
        for _ in range(nerr):
            scen.append({"shape": sh, "framing": {"kind": "errat", "errat": rnd.choice([0, 1, 3, 4, 5, 17, 100, 1000, 5000, 70000, 300000])}})
    for i, s in enumerate(scen):
        s["id"] = i + 1
    obs, summ = run(w, scen, "all")
    rej, gen, dist = validate(w, obs, "all")
    if rej:
        byid = {s["id"]: s for s in scen}
        obs2, _ = run(w, [byid[i] for i in sorted(rej)], "confirm")
        rej2, _, _ = validate(w, obs2, "confirm")
        vlib_unreproduced(v, rej, rej2, total=len(obs))
        for o in obs2:
            if o["id"] in rej2:
                what = "client-died" if o["result"] in ("crashed", "hung") else "server-frames-malformed" if not (o["parsed"] and o["maxlen"] <= 262144) else ("injected-error-lost" if o["injerr"] else ("spurious-failure" if o["result"] != "ok" else "different-result"))
                fr = o["scn"]["framing"]
                v.violation({"what": what, "shape": o["shape"], "framing": o["framing"], "run": fr.get("run"), "result": o["result"]},
                            {"scenario": o["scn"], "err": o["err"][:500], "server_frames": o["nframes"], "maxlen": o["maxlen"], "same": o["same"], "msgok": o["msgok"]})
    good = [o for o in obs if o["id"] not in rej]
    bad = []
    for o in rnd.sample(good, min(30, len(good))):
        c = dict(o)
        c["id"] = 10_000_000 + o["id"]
        how = rnd.choice(["same", "maxlen", "result"])
        if how == "same" and not o["injerr"] and o["baseok"]:
            c["same"] = False
        elif how == "maxlen":
            c["maxlen"] = 262145
        else:
            c["result"] = "ok" if o["result"] == "err" else "err"
        bad.append(c)
    nrej, _, _ = validate(w, bad, "negctl")
    if nrej != {c["id"] for c in bad}:
        raise Broken("negative control: non-transparent outcomes accepted by MplexTrace")
    v.coverage = {
        "states": r["distinct"], "transitions": r["generated"], "traces_validated_against_impl": len(obs), "exhaustive": False,
        "samples": [{"shape": o["shape"], "framing": o["scn"]["framing"], "server_frames": o["nframes"], "client_frames": o["outframes"], "result": o["result"], "same": o["same"]} for o in obs[:2] + obs[-2:]],
        "framing_patterns_from_tlc": len(pats), "evaluations": len(obs), "distinct_nontrivial": sum(1 for o in obs if o["outframes"] != o["nframes"]),
        "frames_forwarded": sum(o["outframes"] for o in obs), "error_injections": sum(1 for o in obs if o["injerr"]),
        "rule": "a real client pulls from a real server through a proxy that re-cuts the server's frames: every TLC framing pattern (data frames of 1..3 units, empty and info frames, error at any point; stream of 4 units scaled to the real stream), "
                "fixed frame sizes 1, 2, 3, 5, 4096, 262144 (splitting the server's frames) and 7, 32769, 100000, 262144 (merging them), runs of 1..500 info or empty frames before data frames (info frames with text, without newline, with nothing at all), an injected error frame at chosen stream offsets; session shapes: small tree, files of 4093..4097 and 256 KiB + 4 KiB bytes, "
                "600 KiB literal, delta, listing, server-side error; non-trivial = the client saw a different number of frames than the server sent",
        "action_coverage": cov, "negative_controls": len(bad), "worker_crashes": summ["crashed"],
    }
    v.assumptions = ["the first 8 bytes (protocol version, seed) are not framed", "the listing shape is judged on success only (the client's stdout is not captured)"]
    return v.finish()
