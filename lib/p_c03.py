"""C03 — only data that passes the whole-file checksum ever replaces a destination file
(fault enumeration: DeltaFault.tla enumerates token-level faults per file shape; the
harness adds every single-bit flip of the file's data segment; all run on the real
receivers; outcomes validated by TLC against FaultTrace / DeltaOps!GateOK)."""
import json
import random

from vlib import unreproduced as vlib_unreproduced, Broken, Verdict, read_ndjson, write_ndjson, require_coverage

FAULT_ACTIONS = ["Sender", "NoFault", "FlipLiteral", "SwapRef", "DupToken", "DropToken", "ReorderTokens", "Truncate",
                 "FlipTrailer", "BasisChanged", "Receiver"]


def cfg(maxlen, maxblk, shapes=False, spec="FSpec", inv=True):
    c = ("SPECIFICATION %s\nCONSTANTS\n  AlphaNeg = 0\n  AlphaPos = 1\n  MaxLen = %d\n  MaxBlk = %d\n  S2Set = {16}\n  FlushAt = 1\n  UseShapes = %s\n"
         % (spec, maxlen, maxblk, "TRUE" if shapes else "FALSE"))
    if inv:
        c += "INVARIANTS Gate UndamagedSucceeds\nCHECK_DEADLOCK TRUE\n"
    else:
        c += "INVARIANT EmitFault\nCHECK_DEADLOCK FALSE\n"
    return c


TRACE_CFG = "SPECIFICATION Spec\nCHECK_DEADLOCK TRUE\n"


def normalise(o):
    if "dst" in o and "id" in o:
        return o
    scn = o.get("scn") or {}
    n = {"id": scn.get("id", -1), "shape": scn.get("shape", ""), "recv": scn.get("recv", ""), "kind": (scn.get("fault") or {}).get("kind", ""),
         "applied": True, "denotes": "unparsable", "trailer": False, "result": "hung" if o.get("hung") else "crashed",
         "err": ("CRASHED: " if o.get("crashed") else "HUNG: " if o.get("hung") else "HARNESS: " + str(o.get("harness_error"))) + (o.get("stderr") or "")[:1200],
         "dst": "other", "hadold": False, "temps": 0, "segbits": 0, "scn": scn}
    return n


def validate(w, obs, label):
    tf = w.path("ftrace-%s-%d.ndjson" % (label, len(w.tlc_runs)))
    write_ndjson(tf, [{k: v for k, v in o.items() if k not in ("scn", "err")} for o in obs], clamp=True)
    r = w.tlc("FaultTrace", TRACE_CFG, env={"VERIF_TRACE": tf}, label="FaultTrace-" + label, timeout=3000)
    if not r["completed"]:
        raise Broken("fault trace validation did not complete: " + r["out"][-3000:])
    return set(i for i, _ in r["rejects"]), r["generated"], r["distinct"]


def run(w, scen, label):
    sf, of = w.path("fscen-%s.ndjson" % label), w.path("fobs-%s.ndjson" % label)
    write_ndjson(sf, scen)
    summ = w.run_harness("fault", sf, of, case_timeout=60)
    obs = [normalise(o) for o in read_ndjson(of)]
    if len(obs) != len(scen):
        raise Broken("harness returned %d observations for %d scenarios" % (len(obs), len(scen)))
    hb = [o for o in obs if o["err"].startswith("HARNESS")]
    if hb:
        raise Broken("harness error: " + hb[0]["err"])
    return obs, summ


def sig(o):
    return {"kind": o["result"] if o["result"] in ("crashed", "hung") else "gate", "fault": o["kind"], "shape": o["shape"], "in_readonly_dir": bool((o.get("scn") or {}).get("rodir")),
            "result": o["result"], "dst": o["dst"], "denotes": o["denotes"]}


SHAPES = {
    "whole-new": ([], [100, 101, 102]),
    "whole-unrelated": ([5], [100, 101]),
    "pure-delta": ([1, 2, 3, 4], [3, 1, 2, 4]),
    "mixed": ([1, 2, 3], [2, 100, 1, 3, 101]),
    "identical": ([1, 2], [1, 2]),
}


def shape_name(b, t):
    for k, (bb, tt) in SHAPES.items():
        if bb == b and tt == t:
            return k
    return "other"


def check(w):
    v = Verdict(w, "fault_enumeration")
    quick = w.tier == "quick"
    # ---- design level: every single fault on every (basis, target) within bounds
    r = w.tlc_ok("DeltaFault", cfg(4, 2) if quick else cfg(4, 3), coverage=quick, label="DeltaFault")
    if quick:
        cov = require_coverage(r, FAULT_ACTIONS)
    else:
        rc = w.tlc_ok("DeltaFault", cfg(3, 2), coverage=True, label="DeltaFault-coverage")
        cov = require_coverage(rc, FAULT_ACTIONS)
    # ---- token-level faults per file shape, enumerated by TLC
    out = w.path("fault-scen.raw")
    g = w.tlc_ok("DeltaFault", cfg(5, 1, shapes=True, spec="GenSpec", inv=False), env={"VERIF_OUT": out}, workers=1, label="DeltaFaultGen")
    base = read_ndjson(out)
    if len(base) < 100:
        raise Broken("fault scenario generation produced only %d lines" % len(base))
    scen = []
    for s in base:
        for rv in ("client", "daemon"):
            scen.append({"basis": s["basis"], "target": s["target"], "scale": 700, "recv": rv, "fault": s["fault"],
                         "shape": shape_name(s["basis"], s["target"])})
    # ... and with the file inside a read-only (0555) directory under -p: the receiver still has a directory touch-up pass
    # to run after the transfer has failed - the failure must stay a failure
    for k, s in enumerate(base):
        if quick and k % 3:
            continue
        for rv in ("client", "daemon"):
            scen.append({"basis": s["basis"], "target": s["target"], "scale": 700, "recv": rv, "fault": s["fault"],
                         "shape": shape_name(s["basis"], s["target"]), "rodir": True})
    for i, s in enumerate(scen):
        s["id"] = i + 1
    obs, summ = run(w, scen, "tok")
    # ---- every single-bit flip of the data segment (header, token words, literal bytes, trailer)
    segbits = {}
    for o in obs:
        if o["kind"] == "none" and o["segbits"]:
            segbits[o["shape"]] = o["segbits"]
    if set(segbits) != set(SHAPES):
        raise Broken("could not measure the data segments of all shapes: %s" % segbits)
    rnd = random.Random(w.seed)
    flips = []
    for name, (b, t) in SHAPES.items():
        bits = list(range(segbits[name]))
        for k in bits:
            rv = "client" if (k + w.seed) % 2 == 0 or not quick else "daemon"
            recvs = (rv,) if quick else ("client", "daemon")
            for r_ in recvs:
                flips.append({"basis": b, "target": t, "scale": 700, "recv": r_, "fault": {"kind": "bitflip", "k": k, "p": 0}, "shape": name})
    for i, s in enumerate(flips):
        s["id"] = 1_000_000 + i
    fobs, fsumm = run(w, flips, "bits")
    allobs = obs + fobs
    rej, gen, dist = validate(w, allobs, "all")
    if rej:
        byid = {s["id"]: s for s in scen + flips}
        again = [byid[i] for i in sorted(rej) if i in byid]
        obs2, _ = run(w, again, "confirm")
        rej2, _, _ = validate(w, obs2, "confirm")
        vlib_unreproduced(v, rej, rej2, total=len(obs))
        for o in obs2:
            if o["id"] in rej2:
                v.violation(sig(o), {"scenario": o["scn"], "observed": {k: o[k] for k in ("result", "err", "dst", "denotes", "trailer", "hadold", "temps")}})
    # ---- negative controls
    good = [o for o in allobs if o["id"] not in rej]
    bad = []
    for o in rnd.sample(good, min(40, len(good))):
        c = dict(o)
        c["id"] = 10_000_000 + o["id"]
        if o["result"] == "ok":
            c["dst"] = rnd.choice(["old", "other", "absent"])
            if c["dst"] == "old":
                c["hadold"] = True
        else:
            c["dst"] = rnd.choice(["new", "other"])
        bad.append(c)
    nrej, _, _ = validate(w, bad, "negctl")
    if nrej != {c["id"] for c in bad}:
        raise Broken("negative control: outcomes violating the gate accepted by FaultTrace")
    applied = [o for o in allobs if o["applied"]]
    damaging = [o for o in applied if o["kind"] != "none" and (o["denotes"] != "target" or not o["trailer"])]
    by_kind = {}
    for o in applied:
        by_kind[o["kind"]] = by_kind.get(o["kind"], 0) + 1
    samples = [{"shape": o["shape"], "recv": o["recv"], "fault": o["scn"]["fault"], "denotes": o["denotes"], "trailer_intact": o["trailer"],
                "result": o["result"], "err": o["err"][:80], "dst": o["dst"]} for o in (damaging[:2] + [o for o in fobs if o["result"] == "ok"][:1])]
    v.coverage = {
        "evaluations": len(allobs), "distinct_nontrivial": len(damaging),
        "rule": "one file transfer (shape: whole-new, whole-over-unrelated, pure-delta, mixed, identical) to the real client receiver / writable daemon module "
                "with exactly one fault: token-level faults enumerated by TLC from DeltaFault.tla (literal byte, block reference -> any other incl. out of range, "
                "duplicate/drop/reorder token, truncation at every token, every trailer bit, basis byte changed after the sums were sent) plus every single-bit flip "
                "of the serialized data segment; non-trivial = the delivered stream no longer denotes the file or the trailer is damaged",
        "samples": samples, "faults_by_kind": by_kind, "segment_bits": segbits,
        "model_states": r["distinct"], "model_transitions": r["generated"], "action_coverage": cov,
        "traces_validated_against_impl": len(allobs), "exhaustive_bitflips": True,
        "negative_controls": len(bad), "worker_crashes": summ["crashed"] + fsumm["crashed"],
        "outcomes": {k: sum(1 for o in allobs if (o["result"], o["dst"]) == k2) for k, k2 in
                     (("ok/new", ("ok", "new")), ("ok/oldnew", ("ok", "oldnew")), ("err/old", ("err", "old")), ("err/oldnew", ("err", "oldnew")), ("err/absent", ("err", "absent")))},
    }
    v.assumptions = ["MD4 is collision-free on the generated data", "the previous content is what the path held when the transfer of that file started"]
    return v.finish()
