"""C01 — a successful sync leaves destination files byte-identical to the source."""
import random

import p_recv
import p_rsync
import p_sync
from vlib import Broken, Verdict

JUDGE = ("type", "content")
ARRS = ("pull", "push", "local", "lib", "libpush")
UNI = [".", "a", "b", "d", "d-", "d/a"]


def sig(o):
    res = o["result"]
    kind = "crash" if res == "crashed" else "hang" if res == "hung" else ("error" if res != "ok" else "content")
    cls = (o.get("echo") or {}).get("cls", "")
    return {"kind": kind, "arr": o["arr"], "form": o["form"], "class": cls}


def reg(p, c, sz, mt=1000, **kw):
    n = {"p": p, "t": "reg", "c": c, "sz": sz, "mt": mt, "ns": 0, "perm": 0o644, "tgt": ""}
    n.update(kw)
    return n


def data_cases(tier, seed):
    """Concrete-domain cases: sizes around the block/window boundaries, edited copies as delta
    basis, emptied / truncated / extended files, low-entropy data, other types in the way."""
    rnd = random.Random(seed * 7 + 3)
    sizes = [0, 1, 699, 700, 701, 1401, 4096, 65537, 262143, 262144, 262145, 300000, 524289, 1048577]
    if tier == "thorough":
        sizes += [2 * 1048576 + 1, 3 * 1048576 + 4095, 5 * 1048576 + 700]
    cases = []
    opts_t = {"r": True, "l": False, "p": False, "t": True, "dv": False, "sp": False, "c": False, "I": False, "n": False, "del": False}
    for sz in sizes:
        src_variants = [("random", {})]
        if sz >= 700:
            src_variants += [("zero", {"ed": "zero"}), ("period", {"ed": "period:%d" % rnd.choice([1, 3, 7, 700])}), ("high", {"ed": "high"})]
        for sname, skw in src_variants:
            src = [reg("a", 1, sz, **skw), reg("b", 2, 10), {"p": "d", "t": "dir", "perm": 0o755, "mt": 1000, "ns": 0, "c": 0, "sz": 0, "tgt": ""}, reg("d/a", 3, max(1, sz // 3)),
                   reg("d-", 4, 33)]      # sorts between "d" and "d/a": the list order differs from the walk order
            priors = [("absent", None), ("identical-older", reg("a", 1, sz, mt=900, **skw)), ("unrelated-same-size", reg("a", 9, sz, mt=900)),
                      ("unrelated-small", reg("a", 9, 1000, mt=900)), ("emptied", reg("a", 9, 0, mt=900))]
            if sz > 10 and sname == "random":
                for ed in ["ins:0:7", "ins:%d:1" % (sz // 2), "ins:%d:701" % (sz // 3), "del:%d:5" % (sz // 2), "del:0:%d" % min(sz // 2, 1000),
                           "rep:%d:100" % max(0, sz - 150), "trunc:%d" % (sz // 2), "ext:123", "ext:%d" % min(sz, 300000)]:
                    priors.append(("edited-" + ed.split(":")[0], reg("a", 9, 0, mt=900, of=1, ofsz=sz, ed=ed)))
            if sz == 0:
                priors.append(("nonempty-over-empty-source", reg("a", 9, 1500, mt=900)))
            priors += [("symlink-in-the-way", {"p": "a", "t": "lnk", "tgt": "b", "perm": 0o777, "mt": 900, "ns": 0, "c": 0, "sz": 0}),
                       ("empty-dir-in-the-way", {"p": "a", "t": "dir", "perm": 0o755, "mt": 900, "ns": 0, "c": 0, "sz": 0, "tgt": ""})]
            if tier == "quick":
                priors = rnd.sample(priors, min(5, len(priors))) if sz not in (0, 300000) else priors
            for pname, prior in priors:
                dst = [prior] if prior else []
                cases.append({"family": "c01", "universe": UNI, "src": src, "dst": dst, "opts": opts_t, "rules": [], "cls": "%s/%s/%d" % (sname, pname, sz)})
    return cases


def hexname(b):
    return b.hex()


# abstract component -> concrete file name (bytes): newline and invalid UTF-8, blanks / UTF-8 / glob characters, a byte >= 0xfe,
# and (second map) 200-byte names; both maps keep the bytewise order of the universe (".", a, b, d, d-, d/a)
NAMEMAPS = [
    {"a": hexname(b"a\n\xff\xfe"), "b": hexname("b \u00e9*?[x]".encode()), "d": hexname(b"d\xfe"), "d-": hexname(b"d\xfe-")},
    # (200-byte names: the receiver's temporary name is "." + name + a 19-digit suffix and must fit into 255 bytes -
    # longer names cannot be received at all, which fails the transfer and is a limit of the implementation, not of C01)
    {"a": hexname(b"a" * 200), "b": hexname(b"b" + b"\x80" * 199), "d": hexname(b"d" * 199), "d-": hexname(b"d" * 199 + b"-")},
]


def check(w):
    v = Verdict(w, "model_checking")
    quick = w.tier == "quick"
    rnd = random.Random(w.seed)
    r, cov, scen = p_recv.design_and_generate(w, "c01")
    # the composed session specification (handshake .. goodbye = RecvSide /\ Session with file identity)
    rs = p_rsync.design(w, caps=((0, 0), (1, 1)) if quick else ((0, 0), (1, 1), (2, 3), (0, 2), (64, 64)))
    lines = []
    for k, s in enumerate(scen):
        arrs = ARRS if not quick else (ARRS[k % 5], ARRS[(k + 2) % 5])
        for arr in arrs:
            form = "slash"
            if arr in ("local", "push", "libpush") and k % 4 == 1:
                form = "noslash"
            if arr in ("local", "push") and k % 4 == 2:
                form = "multi"
            if arr == "pull" and k % 4 == 3:
                form = "sub"
            lines.append(p_sync.mk_line(s, arr, JUDGE, form=form))
    # the same scenarios with the abstract names of the universe CONCRETISED as arbitrary byte strings (newline, invalid
    # UTF-8, blanks, glob characters, 255-byte names): what the specification calls "a" is such a name on disk and on the wire
    named = 0
    for k, s in enumerate(scen):
        if k % (12 if quick else 3):
            continue
        nm = NAMEMAPS[(k // 12) % len(NAMEMAPS)]
        for arr in ((ARRS[k % 5], "lib") if quick else ARRS):
            ln = p_sync.mk_line(s, arr, JUDGE)
            ln["namemap"] = nm
            ln["echo"]["cls"] = "names/%d" % NAMEMAPS.index(nm)
            lines.append(ln)
            named += 1
    for k, s in enumerate(data_cases(w.tier, w.seed)):
        arrs = ARRS if not quick else (ARRS[k % 5],)
        for arr in arrs:
            ln = p_sync.mk_line(s, arr, JUDGE)
            ln["echo"]["cls"] = s["cls"]
            lines.append(ln)
    counts = {}
    obs, rej = p_sync.run_validate_confirm(w, "c01", lines, "c01", v, counts, sig)
    nneg = p_sync.negative_controls(w, "c01", obs, rej, w.seed)
    big = [o for o in obs if (o.get("echo") or {}).get("cls")]
    v.coverage = {
        "states": r["distinct"], "transitions": r["generated"], "traces_validated_against_impl": counts["traces"], "trace_states": counts["trace_states"],
        "exhaustive": not quick,
        "samples": [{"arr": o["arr"], "form": o["form"], "flags": o["flags"], "class": (o.get("echo") or {}).get("cls"), "result": o["result"],
                     "final": [(n["p"], n["t"], n["c"], n["sz"]) for n in o["final"]]} for o in (obs[:2] + big[:2])],
        "tlc_scenarios": len(scen), "data_cases": len(big), "runs_with_arbitrary_byte_names": named, "evaluations": len(obs),
        "distinct_nontrivial": sum(1 for o in obs if any(n["t"] == "reg" for n in o["dst"])),
        "max_file_bytes": max([n["sz"] for o in big for n in o["src"]] or [0]),
        "rule": "TLC family c01 (every prior state of two files, a directory and an empty file x {-t,-c,-I}) in five arrangements and source forms (dir/, dir, two sources, module/sub/), plus data cases "
                "(sizes 0..1 MiB(+), random / all-zero / periodic / high-bit content, prior = absent, identical, unrelated, emptied, 9 kinds of edited copies, symlink or empty directory in the way); "
                "non-trivial = the destination already held a regular file",
        "action_coverage": cov, "negative_controls": nneg, "worker_crashes": counts.get("crashed", 0),
        "composed_spec": {"module": "Rsync.tla (family rs: 256 scenarios x pull/push)", "runs": [{"label": x["label"], "distinct": x["distinct"], "generated": x["generated"]} for x in rs],
                          "action_coverage": rs[0]["cov"], "invariants": p_rsync.INVARIANTS.split(), "properties": p_rsync.PROPERTIES.split()},
    }
    v.coverage["states"] += sum(x["distinct"] for x in rs)
    v.coverage["transitions"] += sum(x["generated"] for x in rs)
    v.coverage.update(p_sync.wire_coverage(counts))
    v.assumptions = ["file contents are pseudo-random functions of (content id, size) or derived edits; equality is judged by digest",
                     "arbitrary-byte names are generated through two order-preserving name maps (newline, invalid UTF-8, blanks, glob characters, bytes >= 0xfe, 254/255-byte names)"]
    return v.finish()
