"""Shared machinery of the /verif checks: work directories, harness build,
TLC runs (design-level model checking, scenario generation, batch trace
validation), known-findings matching, evidence files, exit codes.

Exit codes of a check: 0 property held on everything explored (known findings
are printed), 1 at least one confirmed violation that is not a listed known
finding, 2 the machinery itself failed (never a verdict)."""
import hashlib
import json
import os
import re
import shutil
import subprocess
import sys
import time

VERIF = os.path.dirname(os.path.dirname(os.path.abspath(__file__)))
SPEC = os.path.join(VERIF, "spec")
HARNESS = os.path.join(VERIF, "harness")
REPO = os.environ.get("VERIF_REPO") or "/repo"   # the registered checks always use /repo; the override is for scratch worktrees
NCPU = int(os.environ.get("VERIF_NCPU") or 0) or os.cpu_count() or 4
# where evidence/ and replay/ are written: /verif, except for runs against a scratch worktree
OUT = VERIF if REPO == "/repo" else (os.environ.get("VERIF_OUT") or os.path.join(VERIF, ".work", "alt-" + hashlib.sha1(REPO.encode()).hexdigest()[:8]))


class Broken(Exception):
    """The machinery failed (exit 2)."""


def log(*a):
    print("[verif]", *a, file=sys.stderr, flush=True)


class Work:
    """A scratch directory under /verif/.work, removed on exit."""

    def __init__(self, prop, tier, seed):
        self.prop, self.tier, self.seed = prop, tier, seed
        self.t0 = time.time()
        self.dir = os.path.join(VERIF, ".work", "%s-%s-%d" % (prop, tier, os.getpid()))
        shutil.rmtree(self.dir, ignore_errors=True)
        os.makedirs(self.dir)
        self.scratch = os.path.join(self.dir, "scratch")
        os.makedirs(self.scratch)
        self.bin = None
        self.tlc_runs = []  # summaries of all TLC runs (for evidence)

    def path(self, *p):
        return os.path.join(self.dir, *p)

    def cleanup(self):
        # make everything deletable (tests create read-only directories)
        subprocess.call(["chmod", "-R", "u+rwx", self.dir], stderr=subprocess.DEVNULL)
        shutil.rmtree(self.dir, ignore_errors=True)

    # ------------------------------------------------------------ Go side
    def goenv(self):
        env = dict(os.environ)
        env["GOFLAGS"] = "-mod=mod"
        env["GOPROXY"] = "off"
        env.pop("GOSUMDB", None)
        env.pop("GOTOOLCHAIN", None)
        return env

    def build(self, race=False):
        """Build the harness against /repo's current working tree (tag verif)."""
        out = self.path("rsverif-race" if race else "rsverif")
        hdir = HARNESS
        if REPO != "/repo":     # scratch worktree: private copy of the harness module pointing at it
            hdir = self.path("harness")
            if not os.path.isdir(hdir):
                shutil.copytree(HARNESS, hdir)
                gm = open(os.path.join(hdir, "go.mod")).read().replace("=> /repo", "=> " + REPO)
                open(os.path.join(hdir, "go.mod"), "w").write(gm)
        shutil.copyfile(os.path.join(REPO, "go.sum"), os.path.join(hdir, "go.sum"))
        args = ["build", "-tags", "verif"] + (["-race"] if race else []) + ["-o", out, "./cmd/rsverif"]
        if os.environ.get("VERIF_COVER"):
            # tools/cover.sh: statement coverage of /repo's packages under a check (which code does no scenario reach?)
            args[1:1] = ["-cover", "-coverpkg=github.com/gokrazy/rsync/..."]
        attempts = [(["go"], self.goenv())]
        e2 = self.goenv()
        e2["GOTOOLCHAIN"] = "local"
        e2["GOSUMDB"] = "off"
        attempts.append((["go1.26"], e2))
        last = ""
        for cmd, env in attempts:
            p = subprocess.run(cmd + args, cwd=hdir, env=env, capture_output=True, text=True)
            if p.returncode == 0:
                if not race:
                    self.bin = out
                return out
            last = p.stdout + p.stderr
        raise Broken("harness build failed:\n" + last[-4000:])

    def build_repo_cmd(self, pkg="./cmd/gokr-rsync", name="gokr-rsync"):
        """Build a command of /repo's current working tree itself."""
        out = self.path(name)
        e2 = self.goenv()
        e2["GOTOOLCHAIN"] = "local"
        e2["GOSUMDB"] = "off"
        last = ""
        for cmd, env in [(["go"], self.goenv()), (["go1.26"], e2)]:
            p = subprocess.run(cmd + ["build", "-o", out, pkg], cwd=REPO, env=env, capture_output=True, text=True)
            if p.returncode == 0:
                return out
            last = p.stdout + p.stderr
        raise Broken("building %s failed:\n%s" % (pkg, last[-4000:]))

    def run_harness(self, kind, scen, out, workers=None, timeout=3600, binary=None, extra_env=None, case_timeout=None):
        env = dict(os.environ)
        env["RSVERIF_SCRATCH"] = self.scratch
        env["TMPDIR"] = self.scratch
        if extra_env:
            env.update(extra_env)
        if os.environ.get("VERIF_COVER"):
            env["GOCOVERDIR"] = os.environ["VERIF_COVER"]
        cmd = [binary or self.bin, "run", kind, "-in", scen, "-out", out, "-workers", str(workers or NCPU)]
        if case_timeout:
            cmd += ["-timeout", "%ds" % case_timeout]
        p = subprocess.run(cmd, env=env, capture_output=True, text=True, timeout=timeout)
        if p.returncode != 0:
            raise Broken("harness run %s failed: %s" % (kind, (p.stdout + p.stderr)[-3000:]))
        try:
            return json.loads(p.stdout.strip().splitlines()[-1])
        except Exception:
            raise Broken("harness run %s: unparsable summary: %r" % (kind, p.stdout[-500:]))

    def gen(self, kind, args, timeout=600):
        p = subprocess.run([self.bin, "gen", kind] + [str(a) for a in args], capture_output=True, text=True, timeout=timeout)
        if p.returncode != 0:
            raise Broken("gen %s failed: %s" % (kind, (p.stdout + p.stderr)[-3000:]))
        return p.stdout

    # ------------------------------------------------------------ TLC
    def tlc(self, module, cfg, env=None, workers=None, timeout=1800, coverage=False, extra=None,
            label=None, simulate=None, deadlock=None, heap=None):
        """Run TLC on spec/<module>.tla with the given cfg text in a scratch copy.
        Returns a dict with states, distinct, ok, violation, out."""
        label = label or module
        d = self.path("tlc-" + re.sub(r"\W", "_", label) + "-%d" % len(self.tlc_runs))
        os.makedirs(d)
        for f in os.listdir(SPEC):
            if f.endswith(".tla"):
                shutil.copyfile(os.path.join(SPEC, f), os.path.join(d, f))
        with open(os.path.join(d, module + ".cfg"), "w") as f:
            f.write(cfg)
        tmp = os.path.join(d, "tmp")
        os.makedirs(tmp)
        e = dict(os.environ)
        jto = "-Djava.io.tmpdir=%s -Xss256m" % tmp
        e["JAVA_TOOL_OPTIONS"] = (e.get("JAVA_TOOL_OPTIONS", "") + " " + jto).strip()
        if env:
            e.update({k: str(v) for k, v in env.items()})
        cmd = ["timeout", str(timeout), "tlc", "-workers", str(workers or NCPU), "-metadir", os.path.join(d, "meta"),
               "-config", module + ".cfg"]
        if coverage:
            cmd += ["-coverage", "1"]
        if simulate:
            cmd += ["-simulate", simulate]
        if deadlock is False:
            cmd += ["-deadlock"]
        if extra:
            cmd += extra
        cmd += [module + ".tla"]
        t0 = time.time()
        p = subprocess.run(cmd, cwd=d, env=e, capture_output=True, text=True)
        out = p.stdout + p.stderr
        res = {"module": module, "label": label, "rc": p.returncode, "wall_s": round(time.time() - t0, 2), "dir": d}
        m = re.findall(r"(\d+) states generated, (\d+) distinct states found", out)
        if m:
            res["generated"], res["distinct"] = int(m[-1][0]), int(m[-1][1])
        else:
            res["generated"], res["distinct"] = 0, 0
        res["completed"] = "Model checking completed. No error has been found." in out or \
            (simulate is not None and p.returncode in (0,))
        res["invariant_violated"] = re.findall(r"Invariant (\S+) is violated", out)
        res["deadlock"] = "Deadlock reached" in out
        res["temporal_violated"] = "Temporal properties were violated" in out
        res["timeout"] = p.returncode == 124
        res["error"] = ("Error:" in out) and not res["completed"]
        res["rejects"] = [tuple(int(x) for x in m) for m in re.findall(r'<<"REJECT", (-?\d+), (-?\d+)>>', out)]
        res["out"] = out
        if coverage:
            res["coverage"] = parse_coverage(out)
        self.tlc_runs.append({k: res[k] for k in ("label", "generated", "distinct", "completed", "wall_s")})
        with open(os.path.join(d, "tlc.out"), "w") as f:
            f.write(out)
        return res

    def tlc_ok(self, *a, **kw):
        """TLC run that must complete without any error (design-level check or
        scenario generation): anything else is a machinery failure (exit 2)."""
        r = self.tlc(*a, **kw)
        if not r["completed"] or r["error"]:
            raise Broken("TLC %s did not complete cleanly (rc=%s, invariants=%s, deadlock=%s):\n%s" % (
                r["label"], r["rc"], r["invariant_violated"], r["deadlock"], tail_err(r["out"])))
        return r


def tail_err(out, n=3500):
    i = out.find("Error:")
    if i >= 0:
        return out[i:i + n]
    return out[-n:]


def parse_coverage(out):
    """Returns {action name: count of distinct states} from TLC -coverage output."""
    cov = {}
    for m in re.finditer(r"^<(\w+) line \d+, col \d+ to line \d+, col \d+ of module (\w+)>: (\d+):(\d+)", out, re.M):
        name = m.group(1)
        cov[name] = max(cov.get(name, 0), int(m.group(4)))
    return cov


def require_coverage(res, actions):
    """Vacuity control: every listed action must have been taken at least once."""
    cov = res.get("coverage") or {}
    missing = [a for a in actions if cov.get(a, 0) == 0]
    if missing:
        raise Broken("vacuous model: actions never taken in %s: %s (coverage=%s)" % (res["label"], missing, cov))
    return {a: cov[a] for a in actions}


# ---------------------------------------------------------------- NDJSON

def read_ndjson(path):
    out = []
    with open(path) as f:
        for line in f:
            line = line.strip()
            if not line:
                continue
            v = json.loads(line)
            if isinstance(v, str):  # TLC CSVWrite of ToJson: JSON inside a JSON string
                v = json.loads(v)
            out.append(v)
    return out


INT32_MAX = 2147483647


def clamp32(v):
    """TLC integers are 32-bit: a recorded value outside that range must not wrap around
    into an innocent one when TLC reads the trace.  Clamp it to +-(2^31-1)."""
    if isinstance(v, bool):
        return v
    if isinstance(v, int):
        return max(-INT32_MAX, min(INT32_MAX, v))
    if isinstance(v, list):
        return [clamp32(x) for x in v]
    if isinstance(v, dict):
        return {k: clamp32(x) for k, x in v.items()}
    return v


def write_ndjson(path, rows, clamp=False):
    with open(path, "w") as f:
        for r in rows:
            if clamp:
                r = clamp32(r)
            f.write(json.dumps(r, separators=(",", ":")) + "\n")


# ---------------------------------------------------------------- findings

def load_known():
    p = os.path.join(VERIF, "known_findings.json")
    if not os.path.exists(p):
        return []
    with open(p) as f:
        return json.load(f).get("findings", [])


def match_known(prop, sig, known):
    """sig: dict describing a confirmed violation.  A finding matches when it is
    for this property and every key of its `when` equals sig's value (a list in
    `when` means any-of)."""
    for k in known:
        if k.get("property") != prop or k.get("status", "open") != "open":
            continue
        ok = True
        for key, want in k.get("when", {}).items():
            have = sig.get(key)
            if isinstance(want, list):
                if have not in want:
                    ok = False
            elif have != want:
                ok = False
        if ok:
            return k
    return None


def clip(s, n=1500):
    """Diagnostic text of a dead worker: its beginning (the reason of a crash) and its end."""
    s = s or ""
    if len(s) <= n:
        return s
    return s[:n // 2] + "\n[...]\n" + s[-(n // 2):]


def unreproduced(v, rej, rej2, what="rejections", total=None):
    """Confirmation rule shared by the checks: a rejected case that is not rejected again when it is re-run on the
    real code never becomes a verdict - it is dropped and counted in the evidence file (notes).  Only reproduced
    rejections become violations.  Many unreproducible rejections mean the harness itself is unstable: exit 2."""
    lost = set(rej) - set(rej2)
    if lost:
        limit = max(3, (total or 0) // 1000)
        if len(lost) > limit:
            raise Broken("%d %s did not reproduce on re-run (more than %d: unstable harness, no verdict): %s" % (len(lost), what, limit, sorted(lost)[:10]))
        v.notes.append("%d %s did not reproduce on re-run and were dropped (no verdict from them): ids %s; %d reproduced" % (
            len(lost), what, sorted(lost)[:10], len(set(rej) & set(rej2))))
    return lost


class Verdict:
    """Collects confirmed violations, applies known findings, writes replay
    artefacts and the evidence file, and produces the exit code."""

    def __init__(self, work, level):
        self.w = work
        self.level = level
        self.violations = []  # (sig, detail)
        self.known_hits = {}
        self.coverage = {}
        self.assumptions = []
        self.notes = []

    def violation(self, sig, detail):
        self.violations.append((sig, detail))

    def finish(self):
        w = self.w
        known = load_known()
        unknown = []
        for sig, detail in self.violations:
            k = match_known(w.prop, sig, known)
            if k:
                self.known_hits.setdefault(k["id"], [k, 0])[1] += 1
            else:
                unknown.append((sig, detail))
        for kid, (k, n) in sorted(self.known_hits.items()):
            print("KNOWN-FINDING: property=%s %s (%s; %d case(s) this run)" % (w.prop, k["what"], kid, n))
        os.makedirs(os.path.join(OUT, "replay"), exist_ok=True)
        shown = 0
        groups = {}
        for sig, detail in unknown:
            h = hashlib.sha1(json.dumps(sig, sort_keys=True).encode()).hexdigest()[:10]
            groups.setdefault(h, [sig, []])[1].append(detail)
        for h, (sig, details) in groups.items():
            rp = os.path.join(OUT, "replay", "%s-%s.json" % (w.prop, h))
            with open(rp, "w") as f:
                json.dump({"property": w.prop, "signature": sig, "cases": len(details), "detail": details[:5],
                           "tier": w.tier, "seed": w.seed}, f, indent=1, default=str)
            if shown < 40:
                print("VIOLATION property=%s replay=%s" % (w.prop, rp))
                print("  what: %s (%d case(s))" % (json.dumps(sig, sort_keys=True)[:600], len(details)))
                shown += 1
        if len(groups) > shown:
            print("  ... and %d more kinds of violation (see /verif/replay)" % (len(groups) - shown))
        cov = dict(self.coverage)
        cov.setdefault("tlc_runs", w.tlc_runs)
        ev = {
            "property_id": w.prop, "tier": w.tier, "seed": w.seed, "level": self.level,
            "coverage": cov, "assumptions": self.assumptions,
            "wall_s": round(time.time() - w.t0, 2),
            "violations": len(unknown),
            "known_findings_hit": {k: n for k, (_, n) in self.known_hits.items()},
            "notes": self.notes,
        }
        os.makedirs(os.path.join(OUT, "evidence"), exist_ok=True)
        with open(os.path.join(OUT, "evidence", w.prop + ".json"), "w") as f:
            json.dump(ev, f, indent=1, default=str)
        return 1 if unknown else 0


def run_check(prop, tier, fn):
    """Entry point used by bin/check."""
    seed = int(os.environ.get("VERIF_SEED", "1") or "1")
    w = Work(prop, tier, seed)
    rc = 2
    try:
        w.build()
        rc = fn(w)
    except Broken as e:
        print("BROKEN property=%s: %s" % (prop, e), file=sys.stderr)
        rc = 2
    except subprocess.TimeoutExpired as e:
        print("BROKEN property=%s: timeout: %s" % (prop, e), file=sys.stderr)
        rc = 2
    except Exception:       # a failure of the machinery is never a verdict
        import traceback
        print("BROKEN property=%s: internal error:\n%s" % (prop, traceback.format_exc()), file=sys.stderr)
        rc = 2
    finally:
        if os.environ.get("VERIF_KEEP") != "1":
            w.cleanup()
    return rc
