"""C14 — both ends agree on the options; the outcome does not depend on who sends."""
import random

import p_recv
import p_sync
from vlib import Broken, Verdict

JUDGE = ("type", "content", "target", "extra", "peers")   # permissions and times are C11's; across arrangements they are still compared (peers)
ARRS = ("pull", "push", "local", "lib", "libpush")
OPTS = ("l", "p", "t", "dv", "sp", "c", "I", "n", "del", "o", "g")
NOR = ("r",)    # -r is ON in the base line; its absence is the option


def sig(o):
    on = [k for k in OPTS if o["opts"].get(k)]
    res = o["result"]
    kind = "crash" if res == "crashed" else "hang" if res == "hung" else ("error" if res != "ok" else "outcome")
    s = {"kind": kind, "arr": o["arr"]}
    if kind == "error":
        s["dv_without_sp"] = bool(o["opts"].get("dv")) and not o["opts"].get("sp")
        s["sp_without_dv"] = bool(o["opts"].get("sp")) and not o["opts"].get("dv")
    return s


def check(w):
    v = Verdict(w, "model_checking")
    quick = w.tier == "quick"
    rnd = random.Random(w.seed)
    r, cov, scen = p_recv.design_and_generate(w, "c14")
    if quick:
        few = [s for s in scen if s["opts"]["r"] and sum(1 for k in OPTS if s["opts"][k]) <= 2] + [s for s in scen if not s["opts"]["r"] and sum(1 for k in OPTS if s["opts"][k]) <= 1]
        rest = [s for s in scen if s not in few]
        scen_run = few + rnd.sample(rest, 120)
    else:
        scen_run = scen
    lines = []
    # what the user asks to SEE must not change what happens: the arrangements of one scenario run with different display
    # options (-v, -vv, --debug=all2: every logging branch of sender, generator and receiver is live)
    DISPLAY = ([], ["-v"], ["--debug=all2"], ["-vv", "--debug=all2"])
    for g, s in enumerate(scen_run):
        for i, arr in enumerate(ARRS):
            ln = p_sync.mk_line(s, arr, JUDGE, extra_flags=DISPLAY[(g + i) % 4])
            ln["group"] = g
            lines.append(ln)
    counts = {}
    obs, rej = p_sync.run_validate_confirm(w, "c14", lines, "c14", v, counts, sig, peers=True)
    nneg = p_sync.negative_controls(w, "c14", obs, rej, w.seed)
    v.coverage = {
        "states": r["distinct"], "transitions": r["generated"], "traces_validated_against_impl": counts["traces"], "trace_states": counts["trace_states"],
        "exhaustive": not quick,
        "samples": [{"opts": [k for k in OPTS if o["opts"].get(k)], "rules": o["rules"], "arr": o["arr"], "flags": o["flags"], "result": o["result"],
                     "final": [(n["p"], n["t"]) for n in o["final"]]} for o in obs[:3]],
        "option_subsets_model_checked": len(scen), "option_subsets_run": len(scen_run), "arrangements": list(ARRS), "display_options_varied_within_a_scenario": [" ".join(d) for d in DISPLAY],
        "evaluations": len(obs), "distinct_nontrivial": sum(1 for o in obs if any(o["opts"].get(k) for k in OPTS)),
        "rule": "every subset of {-r,-l,-p,-t,--devices,--specials,-c,-I,-n,--delete,-o,-g} with and without --exclude, on a tree with a directory, files, a symlink, a fifo and a character device "
                "over a prior destination (different file, unlisted file), run with the real code on both ends in five arrangements (daemon pull, daemon push, local, library pull, library push); "
                "each outcome must equal the specification's and the outcomes of the other arrangements",
        "action_coverage": cov, "negative_controls": nneg, "worker_crashes": counts.get("crashed", 0),
    }
    v.coverage.update(p_sync.wire_coverage(counts))
    v.assumptions = ["run as root (devices can be created)", "the --no-* option forms are exercised only as the absence of the option"]
    return v.finish()
