"""C09 — --delete removes exactly the extraneous entries and nothing else."""
import p_recv
import p_sync
from vlib import Broken, Verdict

JUDGE = ("extra",)     # existence of every path (always compared) + nothing stray


def sig(o, s):
    diff = p_recv.diff_paths(o, s)
    opts = o.get("opts", {})
    return {"kind": "crash" if str(o.get("err", "")).startswith("CRASHED") else ("error" if o.get("result") != "ok" else "mismatch"),
            "delete": bool(opts.get("del")), "ioerr": o.get("ioerr"),
            "not_removed": bool([d for d in diff if d[1] == "unexpected"]),
            "wrongly_removed": bool([d for d in diff if d[1] == "missing"])}


def check(w):
    v = Verdict(w, "model_checking")
    fam = "c09q" if w.tier == "quick" else "c09"
    r, cov, scen = p_recv.design_and_generate(w, fam)
    nscen = len(scen)
    if w.tier == "quick":
        # the family is model-checked completely; a seeded quarter of it (plus every scenario in which a listed name
        # sorts differently in list order and walk order: "+p" before ".", "d-" between "d" and "d/a") is replayed
        import random
        quirk = [s for s in scen if {"+p", "d-"} & {e["name"] for e in s["list"]} and len(s["dst"]) > 3]
        rest = [s for s in scen if s not in quirk]
        rnd = random.Random(w.seed)
        scen = rnd.sample(quirk, min(len(quirk), 1000)) + rnd.sample(rest, min(len(rest), 1500))
    counts = {"traces": 0, "trace_states": 0}
    obs, rej = p_recv.run_validate_confirm(w, fam, scen, "c09", v, counts, sig, judge=JUDGE)
    nneg = p_recv.negative_controls(w, fam, obs, rej, w.seed)
    # ---- end to end, real sender included: the I/O-error word of the file list is the SENDER's to set.  The "rs" family
    #      (source trees with and without "b", destinations with extraneous entries, -t / -n / --delete, rule lists) in the
    #      arrangements local and push, the command line naming the source tree and ALSO a directory that does not exist --
    #      before it or after it.  What could be read is transferred; a deleting receiver then deletes nothing.
    r2, _, scen2 = p_recv.design_and_generate(w, "rs", coverage=False)
    lines = []
    for k, s in enumerate(scen2):
        if s["opts"]["n"]:
            continue
        for arr in ("local", "push"):
            for missing in ("", "first", "last"):
                if w.tier == "quick" and not s["opts"]["del"] and (k + len(arr) + len(missing)) % 3:
                    continue
                lines.append(p_sync.mk_line(s, arr, ("type", "extra"), missing=missing))
    ecounts = {}
    def esig(o):
        removed = sorted({n["p"] for n in o["dst"]} - {n["p"] for n in o["final"]})
        return {"kind": "e2e-" + ("crash" if o["result"] == "crashed" else "hang" if o["result"] == "hung" else "mismatch"), "arr": o["arr"], "delete": bool(o["opts"].get("del")),
                "unreadable_source": o.get("missing") or "none", "removed_something": bool(removed)}
    eobs, erej = p_sync.run_validate_confirm(w, "rs", lines, "c09e2e", v, ecounts, esig)
    n_err_del = sum(1 for o in eobs if o.get("ioerr") and o["opts"].get("del") and o["id"] not in erej and {n["p"] for n in o["dst"]} - {n["p"] for n in o["src"]})
    n_ok_del = sum(1 for o in eobs if not o.get("ioerr") and o["opts"].get("del") and o["id"] not in erej and {n["p"] for n in o["dst"]} - {n["p"] for n in o["final"]})
    n_wire_err = sum(1 for o in eobs if o.get("ioerr") and o.get("fullwire") and o["result"] == "ok")
    if not (n_err_del and n_ok_del):
        raise Broken("vacuous end-to-end part: %d accepted runs with an unreadable source and something extraneous, %d accepted deleting runs that removed something" % (n_err_del, n_ok_del))
    def nextra(o):
        listed = {e["name"] for e in o["list"]}
        return sum(1 for n in o["dst"] if n["p"] not in listed)
    nontriv = sum(1 for o in obs if nextra(o) > 0)
    multi = sum(1 for o in obs if nextra(o) > 1)
    v.coverage = {
        "states": r["distinct"], "transitions": r["generated"],
        "traces_validated_against_impl": counts["traces"], "trace_states": counts["trace_states"], "exhaustive": w.tier != "quick", "scenarios_model_checked": nscen,
        "samples": [{"dst": [n["p"] for n in o["dst"]], "listed": [e["name"] for e in o["list"]], "opts": o["opts"], "ioerr": o["ioerr"], "recv": o["recv"],
                     "final": [n["p"] for n in o["final"]], "result": o["result"]} for o in obs if nextra(o) > 1][:3],
        "scenarios": len(scen), "evaluations": len(obs), "distinct_nontrivial": nontriv, "with_several_extraneous": multi,
        "rule": "source tree x destination tree over the path universe (0..many extraneous files, directories with content, symlinks, fifos in every sort position, nested) x "
                "{--delete, --delete with sender io error, no --delete}, run on the real client receiver (pull) and a real writable module (upload); non-trivial = at least one extraneous entry",
        "end_to_end": {"runs": len(eobs), "with_unreadable_source_argument": sum(1 for o in eobs if o.get("ioerr")), "unreadable_and_extraneous_kept": n_err_del, "deleting_runs_that_removed": n_ok_del,
                       "transcripts": dict(p_sync.wire_coverage(ecounts), with_error_word_set=n_wire_err),
                       "rule": "real sender and real receiver (local copy, upload to a daemon), the 'rs' family x {no unreadable source, a nonexistent source argument first, last}; validated by SyncTrace with the sender's error word = 1 exactly when a source argument could not be read; the complete transcripts of the uploads (tap proxy) are validated by RsyncTrace, whose list-end item must carry that very word"},
        "action_coverage": cov, "negative_controls": nneg, "worker_crashes": counts.get("crashed", 0),
    }
    v.assumptions = ["exclude-rule protection is modelled (prot) but the families generate no rules yet: a receiver has no rule list to honour in this code base (see DESIGN.md findings)"]
    return v.finish()
