"""C09 — --delete removes exactly the extraneous entries and nothing else."""
import p_recv
from vlib import Broken, Verdict

JUDGE = ("extra",)     # existence of every path (always compared) + nothing stray


def sig(o, s):
    diff = p_recv.diff_paths(o, s)
    opts = o.get("opts", {})
    return {"kind": "crash" if str(o.get("err", "")).startswith("CRASHED") else ("error" if o.get("result") != "ok" else "mismatch"),
            "delete": bool(opts.get("del")), "ioerr": o.get("ioerr"),
            "not_removed": bool([d for d in diff if d[1] == "unexpected"]),
            "wrongly_removed": bool([d for d in diff if d[1] == "missing"])}


def check(w):
    v = Verdict(w, "model_checking")
    fam = "c09q" if w.tier == "quick" else "c09"
    r, cov, scen = p_recv.design_and_generate(w, fam)
    nscen = len(scen)
    if w.tier == "quick":
        # the family is model-checked completely; a seeded quarter of it (plus every scenario in which a listed name
        # sorts differently in list order and walk order: "+p" before ".", "d-" between "d" and "d/a") is replayed
        import random
        quirk = [s for s in scen if {"+p", "d-"} & {e["name"] for e in s["list"]} and len(s["dst"]) > 3]
        rest = [s for s in scen if s not in quirk]
        rnd = random.Random(w.seed)
        scen = rnd.sample(quirk, min(len(quirk), 1000)) + rnd.sample(rest, min(len(rest), 1500))
    counts = {"traces": 0, "trace_states": 0}
    obs, rej = p_recv.run_validate_confirm(w, fam, scen, "c09", v, counts, sig, judge=JUDGE)
    nneg = p_recv.negative_controls(w, fam, obs, rej, w.seed)
    def nextra(o):
        listed = {e["name"] for e in o["list"]}
        return sum(1 for n in o["dst"] if n["p"] not in listed)
    nontriv = sum(1 for o in obs if nextra(o) > 0)
    multi = sum(1 for o in obs if nextra(o) > 1)
    v.coverage = {
        "states": r["distinct"], "transitions": r["generated"],
        "traces_validated_against_impl": counts["traces"], "trace_states": counts["trace_states"], "exhaustive": w.tier != "quick", "scenarios_model_checked": nscen,
        "samples": [{"dst": [n["p"] for n in o["dst"]], "listed": [e["name"] for e in o["list"]], "opts": o["opts"], "ioerr": o["ioerr"], "recv": o["recv"],
                     "final": [n["p"] for n in o["final"]], "result": o["result"]} for o in obs if nextra(o) > 1][:3],
        "scenarios": len(scen), "evaluations": len(obs), "distinct_nontrivial": nontriv, "with_several_extraneous": multi,
        "rule": "source tree x destination tree over the path universe (0..many extraneous files, directories with content, symlinks, fifos in every sort position, nested) x "
                "{--delete, --delete with sender io error, no --delete}, run on the real client receiver (pull) and a real writable module (upload); non-trivial = at least one extraneous entry",
        "action_coverage": cov, "negative_controls": nneg, "worker_crashes": counts.get("crashed", 0),
    }
    v.assumptions = ["exclude-rule protection is modelled (prot) but the families generate no rules yet: a receiver has no rule list to honour in this code base (see DESIGN.md findings)"]
    return v.finish()
