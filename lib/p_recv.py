"""Shared driver for the RecvSide family (C09, C10, C11, C12, parts of C01):
TLC model-checks RecvSide on a scenario family (RecvScen), emits every scenario
with the predicted outcome, the Go harness replays each on the real receiver
(real client / writable daemon module) driven by the reference sender, and TLC
validates the recorded runs against RecvTrace (which replays them through the
specification's own step operators)."""
import json
import random

from vlib import clip as vclip
from vlib import unreproduced as vlib_unreproduced, Broken, Verdict, log, read_ndjson, write_ndjson, require_coverage

FAMILIES = {
    "c12": ("U12", "P12"),
    "c10": ("U10", "P10"),
    "c09": ("U09", "P09"),
    "c09q": ("U09q", "P09q"),
    "c11": ("U11", "P11"),
    "c13": ("U13", "P13"),
    "c14": ("U14", "P14"),
    "c01": ("U01", "P01"),
    "c15": ("U15", "P15"),
    "rs": ("U01", "P01"),
    "conc": ("Uconc", "Pconc"),
}
INVARIANTS = "Confluent DryRunNoChange NoCollateralDelete DeleteComplete ContentIdentical RepeatIsNoOp FilterExact"
ACTIONS = ["SDeletePass", "SGen", "SRcv", "SFinish"]


def scen_cfg(fam, spec="ScnSpec", invariants=True, emit=False, maxrules=2):
    u, p = FAMILIES[fam]
    c = "SPECIFICATION %s\nCONSTANTS\n  Family = \"%s\"\n  Universe <- %s\n  ParentMap <- %s\n  BaseMap <- BaseAll\n  MaxRules = %d\n" % (spec, fam[:3], u, p, maxrules)
    if invariants:
        c += "INVARIANTS " + INVARIANTS + "\n"
    if emit:
        c += "INVARIANT Emit\nCHECK_DEADLOCK FALSE\n"
    else:
        c += "CHECK_DEADLOCK TRUE\n"
    return c


def trace_cfg(fam):
    u, p = FAMILIES[fam]
    return "SPECIFICATION TSpec\nCONSTANTS\n  Universe <- %s\n  ParentMap <- %s\n  BaseMap <- BaseAll\nCHECK_DEADLOCK TRUE\n" % (u, p)


def flags_of(opts, rules=(), rule_style="opt"):
    """Client command-line flags for an option record and a rule list."""
    s = "-"
    for k in ("r", "l", "p", "t", "c", "I", "n", "o", "g"):
        if opts.get(k):
            s += k
    if opts.get("dv") and opts.get("sp"):
        s += "D"
    out = [s] if s != "-" else []
    if opts.get("dv") and not opts.get("sp"):
        out.append("--devices")
    if opts.get("sp") and not opts.get("dv"):
        out.append("--specials")
    if opts.get("del"):
        out.append("--delete")
    for r in rules:
        pat = r["pat"] + ("/" if r.get("dir") else "")
        if rule_style == "filter":
            out.append("-f")
            out.append(("+ " if r["inc"] else "- ") + pat)
        else:
            out.append(("--include=" if r["inc"] else "--exclude=") + pat)
    return out


def design_and_generate(w, fam, coverage=True, maxrules=2):
    """Model-check the family, return (tlc result, scenarios)."""
    r = w.tlc_ok("MCRecv", scen_cfg(fam, maxrules=maxrules), coverage=coverage, label="RecvSide-" + fam, timeout=5400)
    cov = require_coverage(r, ACTIONS) if coverage else {}
    out = w.path("recv-scen-%s.raw" % fam)
    g = w.tlc_ok("MCRecv", scen_cfg(fam, spec="GenSpec", invariants=False, emit=True, maxrules=maxrules), env={"VERIF_OUT": out},
                 workers=1, label="RecvScenGen-" + fam, timeout=5400)
    scen = read_ndjson(out)
    if len(scen) != g["distinct"] or len(scen) < 10:
        raise Broken("scenario generation (%s): %d lines for %d initial states" % (fam, len(scen), g["distinct"]))
    return r, cov, scen


def normalise(o):
    if "final" in o and "id" in o:
        for k in ("final", "extra", "reqs", "prot", "reqs2"):
            if o.get(k) is None:
                o[k] = []
        o.setdefault("result2", "")
        return o
    scn = o.get("scn") or {}
    n = dict(scn)
    n.pop("expfs", None)
    n.pop("expreqs", None)
    n.update({"result": "err", "reqs": [], "final": [], "extra": [], "lit": 0, "reqs2": [], "result2": ""})
    n.setdefault("judge", [])
    if o.get("crashed"):
        n["err"] = "CRASHED: " + (o.get("stderr") or "")[:1500]
    elif o.get("hung"):
        n["err"] = "HUNG: " + vclip(o.get("stderr"), 1500)
    else:
        n["err"] = "HARNESS: " + str(o.get("harness_error"))
    return n


SLIM_DROP = ("scn", "family", "recv", "err", "expfs", "expreqs")


def validate(w, fam, obs, label):
    if not obs:
        return set(), 0, 0, {}
    tf = w.path("rtrace-%s-%d.ndjson" % (label, len(w.tlc_runs)))
    write_ndjson(tf, [{k: v for k, v in o.items() if k not in SLIM_DROP} for o in obs], clamp=True)
    r = w.tlc("MCRecvTrace", trace_cfg(fam), env={"VERIF_TRACE": tf}, label="RecvTrace-" + label, timeout=3000)
    if not r["completed"]:
        raise Broken("trace validation did not complete: " + r["out"][-3000:])
    return set(i for i, _ in r["rejects"]), r["generated"], r["distinct"], dict(r["rejects"])


def attach_idmaps(obs, lines):
    """RecvTrace maps owners by name: rows carry the id maps of their scenario (empty unless it names ids)."""
    byid = {ln["id"]: ln for ln in lines}
    for o in obs:
        ln = byid.get(o.get("id"), {})
        o["umap"], o["gmap"] = ln.get("umap", []), ln.get("gmap", [])


def run(w, fam, scen, label, recvs=("client", "daemon"), chunks=(0,), case_timeout=120, judge=()):
    """Replay every scenario on each kind of real receiver; returns observations."""
    lines = []
    i = 0
    for s in scen:
        for rv in recvs:
            i += 1
            d = {k: v for k, v in s.items() if k not in ("expfs", "expreqs")}
            d.update({"id": i, "recv": rv, "chunk": chunks[i % len(chunks)], "judge": list(judge), "repeat": "repeat" in judge})
            lines.append(d)
    sf, of = w.path("rscen-%s.ndjson" % label), w.path("robs-%s.ndjson" % label)
    write_ndjson(sf, lines)
    summ = w.run_harness("recv", sf, of, case_timeout=case_timeout)
    obs = [normalise(o) for o in read_ndjson(of)]
    if len(obs) != len(lines):
        raise Broken("harness returned %d observations for %d scenarios" % (len(obs), len(lines)))
    attach_idmaps(obs, lines)
    hb = [o for o in obs if str(o.get("err", "")).startswith("HARNESS")]
    if hb:
        raise Broken("harness error: " + hb[0]["err"])
    return lines, obs, summ


def run_validate_confirm(w, fam, scen, label, v, counts, sigfn, recvs=("client", "daemon"), chunks=(0,), judge=()):
    lines, obs, summ = run(w, fam, scen, label, recvs, chunks, judge=judge)
    rej, gen, dist, where = validate(w, fam, obs, label)
    counts["traces"] += len(obs)
    counts["trace_states"] += dist
    counts["crashed"] = counts.get("crashed", 0) + summ["crashed"]
    if rej:
        byid = {ln["id"]: ln for ln in lines}
        again = [byid[i] for i in sorted(rej)]
        sf2, of2 = w.path("rscen-%s-confirm.ndjson" % label), w.path("robs-%s-confirm.ndjson" % label)
        write_ndjson(sf2, again)
        w.run_harness("recv", sf2, of2)
        obs2 = [normalise(o) for o in read_ndjson(of2)]
        attach_idmaps(obs2, again)
        rej2, _, _, where2 = validate(w, fam, obs2, label + "-confirm")
        vlib_unreproduced(v, rej, rej2, total=len(obs))
        exp = {}
        k = 0
        for s in scen:
            for rv in recvs:
                k += 1
                exp[k] = s
        for o in obs2:
            if o["id"] in rej2:
                s = exp.get(o["id"], {})
                detail = {"scenario": {x: o.get(x) for x in ("dst", "list", "opts", "ioerr", "prot", "recv")},
                          "spec_expected": {"fs": s.get("expfs"), "reqs": s.get("expreqs")},
                          "observed": {"result": o.get("result"), "err": o.get("err"), "reqs": o.get("reqs"), "final": o.get("final"),
                                       "extra": o.get("extra"), "lit": o.get("lit")},
                          "entries_explained_before_rejection": where2.get(o["id"])}
                v.violation(sigfn(o, s), detail)
    return obs, rej


def diff_paths(o, s):
    """Paths whose observed node differs from the spec's expectation (diagnostics / signatures)."""
    exp = {n["p"]: n for n in (s.get("expfs") or [])}
    got = {n["p"]: n for n in (o.get("final") or [])}
    out = []
    for p in sorted(set(exp) | set(got)):
        e, g = exp.get(p), got.get(p)
        if e is None or g is None:
            out.append((p, "unexpected" if e is None else "missing"))
            continue
        if e["t"] != g["t"]:
            out.append((p, "type"))
        elif e["t"] == "reg" and (e["c"] != g["c"] or e["sz"] != g["sz"]):
            out.append((p, "content"))
        elif e["t"] == "lnk" and e["tgt"] != g["tgt"]:
            out.append((p, "target"))
        elif e["perm"] != -1 and e["perm"] != g["perm"]:
            out.append((p, "perm"))
        elif e["t"] == "reg" and e["mt"] != -1 and e["mt"] != g["mt"]:
            out.append((p, "mtime"))
        elif (e.get("uid", -1) not in (-1, g.get("uid"))) or (e.get("gid", -1) not in (-1, g.get("gid"))):
            out.append((p, "owner"))
    return out


def corrupt(o, rnd):
    """Negative control: damage the recorded run so that RecvTrace must reject it."""
    c = json.loads(json.dumps(o))
    J = set(c.get("judge") or [])
    modes = ["result"]
    regs = [n for n in c["final"] if n["t"] == "reg"]
    if "reqs" in J and c["reqs"]:
        modes.append("req")
    if "content" in J and regs:
        modes.append("final")
    if "extra" in J:
        modes.append("extra")
    if len(c["final"]) > 1:
        modes.append("vanish")
    how = rnd.choice(modes)
    if how == "req":
        del c["reqs"][rnd.randrange(len(c["reqs"]))]
    elif how == "final":
        rnd.choice(regs)["c"] += 1000
    elif how == "extra":
        c["extra"] = [".tmpfile123"]
    elif how == "vanish":
        # drop a leaf node from the final snapshot
        names = [n["p"] for n in c["final"]]
        leaves = [n for n in c["final"] if n["p"] != "." and not any(x.startswith(n["p"] + "/") for x in names)]
        c["final"].remove(rnd.choice(leaves))
    else:
        c["result"] = "err"
    c["id"] = 10_000_000 + o["id"]
    return c


def negative_controls(w, fam, obs, rej, seed, n=40):
    rnd = random.Random(seed)
    good = [o for o in obs if o["id"] not in rej]
    if len(good) < 5:
        raise Broken("too few accepted traces (%d) for negative controls" % len(good))
    sample = rnd.sample(good, min(n, len(good)))
    bad = [corrupt(o, rnd) for o in sample]
    nrej, _, _, _ = validate(w, fam, bad + sample[:5], "negctl")
    if {c["id"] for c in bad} - nrej:
        raise Broken("negative control: corrupted runs accepted by RecvTrace")
    if nrej & {o["id"] for o in sample[:5]}:
        raise Broken("negative control: intact runs rejected")
    return len(bad)


def tree_changed(o):
    """Did the run change the destination (any aspect of any path)?"""
    a = {n["p"]: (n["t"], n.get("c"), n.get("sz"), n.get("tgt"), n.get("perm"), n.get("mt") if n["t"] == "reg" else None) for n in o["dst"]}
    b = {n["p"]: (n["t"], n.get("c"), n.get("sz"), n.get("tgt"), n.get("perm"), n.get("mt") if n["t"] == "reg" else None) for n in o["final"]}
    return a != b or bool(o.get("extra"))
