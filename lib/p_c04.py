"""C04 — destination paths change atomically: old or new content in full at every instant
(Atomic.tla model-checked; the real receivers are frozen at every wire unit of every file of
multi-file sessions, cut at every byte offset of either direction, and SIGKILLed; every
snapshot is validated by TLC against AtomicTrace)."""
import json
import random

from vlib import clip as vclip
from vlib import Broken, Verdict, read_ndjson, write_ndjson, require_coverage

ACTIONS = ["GenSymlink", "Deliver", "Finish", "StreamCut", "Kill"]
TRACE_CFG = "SPECIFICATION Spec\nCHECK_DEADLOCK TRUE\n"


def cfg(nf, mt, gen=False):
    c = "SPECIFICATION %s\nCONSTANTS\n  NFiles = %d\n  MaxTok = %d\n" % ("GenSpec" if gen else "Spec", nf, mt)
    c += "INVARIANT Emit\nCHECK_DEADLOCK FALSE\n" if gen else "INVARIANTS AtomicPaths InOrder CleanAfterError DoneMeansAll\nCHECK_DEADLOCK TRUE\n"
    return c


def normalise(o):
    if "final" in o and "id" in o:
        return o
    scn = o.get("scn") or {}
    base = {"id": scn.get("id", -1), "recv": scn.get("recv", ""), "mode": scn.get("mode", ""), "kinds": scn.get("kinds", []), "ntoks": scn.get("ntoks", []),
            "events": [], "bytes": 0, "upbytes": 0, "weak": bool(scn.get("long")), "scn": scn}
    if o.get("crashed") and scn.get("mode") == "kill" and o.get("death"):
        d = o["death"]
        base["final"] = {"mode": "killed", "result": "killed", "err": "", "d": scn["n"], "dmin": max(0, scn["n"] - 1), "snap": d["snap"], "lnk": d["lnk"],
                         "temps": len(d["extra"]), "extra": d["extra"]}
        return base
    what = "CRASHED: " if o.get("crashed") else "HUNG: " if o.get("hung") else "HARNESS: " + str(o.get("harness_error"))
    base["final"] = {"mode": "broken", "result": "crashed" if o.get("crashed") else "hung", "err": what + vclip(o.get("stderr"), 1200), "d": 0, "dmin": 0,
                     "snap": [], "lnk": "other", "temps": 0, "extra": []}
    return base


def run(w, scen, label):
    sf, of = w.path("ascen-%s.ndjson" % label), w.path("aobs-%s.ndjson" % label)
    write_ndjson(sf, scen)
    summ = w.run_harness("atomic", sf, of, case_timeout=90)
    obs = [normalise(o) for o in read_ndjson(of)]
    if len(obs) != len(scen):
        raise Broken("harness returned %d observations for %d scenarios" % (len(obs), len(scen)))
    hb = [o for o in obs if o["final"]["err"].startswith("HARNESS")]
    if hb:
        raise Broken("harness error: " + hb[0]["final"]["err"])
    return obs, summ


def validate(w, obs, label):
    tf = w.path("atrace-%s-%d.ndjson" % (label, len(w.tlc_runs)))
    slim = []
    for o in obs:
        s = {k: o[k] for k in ("id", "kinds", "ntoks", "events", "weak")}
        s["unlinked"] = o.get("unlinked") or []
        s["final"] = {k: v for k, v in o["final"].items() if k not in ("err", "extra")}
        slim.append(s)
    write_ndjson(tf, slim, clamp=True)
    r = w.tlc("AtomicTrace", TRACE_CFG, env={"VERIF_TRACE": tf}, label="AtomicTrace-" + label, timeout=3000)
    if not r["completed"]:
        raise Broken("trace validation did not complete: " + r["out"][-3000:])
    return set(i for i, _ in r["rejects"]), r["generated"], r["distinct"], dict(r["rejects"])


def sig(o):
    f = o["final"]
    states = set(f["snap"]) | {e2 for e in o["events"] for e2 in e["snap"]}
    return {"mode": o["mode"], "final_mode": f["mode"], "result": f["result"], "delete": bool((o.get("scn") or {}).get("delete")),
            "temps_left": f["temps"] > 0 and f["mode"] == "error",
            "partial_content": "other" in states or f.get("lnk") in ("other", "absent"), "unlinked": bool(o.get("unlinked")),
            "recv": o["recv"] if (f["temps"] > 0 and f["mode"] == "error") else None}


def check(w):
    v = Verdict(w, "fault_enumeration")
    quick = w.tier == "quick"
    rnd = random.Random(w.seed)
    r = w.tlc_ok("Atomic", cfg(3, 3), coverage=True, label="Atomic")
    cov = require_coverage(r, ACTIONS)
    out = w.path("atomic-scen.raw")
    g = w.tlc_ok("Atomic", cfg(3, 2 if quick else 3, gen=True), env={"VERIF_OUT": out}, workers=1, label="AtomicGen")
    base = read_ndjson(out)
    if len(base) != g["distinct"] or len(base) < 8:
        raise Broken("scenario generation: %d lines" % len(base))
    scen = []
    # (1) freeze at every wire unit of every file, every (kinds x token counts) configuration
    for s in base:
        for rv in ("client", "daemon"):
            scen.append(dict(s, recv=rv, mode="freeze", batch=True))
    # ... and with a 250-byte name for the second file (judged on atomicity only), frozen and cut
    for s in base:
        if s["ntoks"] == [1] * len(s["ntoks"]) or not quick:
            for rv in ("client", "daemon"):
                scen.append(dict(s, recv=rv, mode="freeze", batch=True, long=True))
    # ... and with --delete over a destination that holds extraneous entries and a directory next to a listed file whose
    # name sorts between the directory and its child ("f0", "f0.x", "f0/c"): the delete pass runs before the first
    # request and must leave every listed path alone
    for s in base:
        if s["kinds"][0] == "replace" or not quick:
            for rv in ("client", "daemon"):
                scen.append(dict(s, recv=rv, mode="freeze", batch=True, delete=True))
    # ... and with the replaced symlink pointing to a DIRECTORY inside the destination (every listed name is also watched
    # by inotify: a path with previous content must never be seen unlinked, whatever it points to)
    for s in base:
        if s["ntoks"] == [1] * len(s["ntoks"]) or not quick:
            for rv in ("client", "daemon"):
                scen.append(dict(s, recv=rv, mode="freeze", batch=True, lnkdir=True))
    # ... and with set-user-ID / set-group-ID / sticky bits on the replaced files
    for s in base:
        if "replace" in s["kinds"] and (s["ntoks"] == [1] * len(s["ntoks"]) or not quick):
            for rv in ("client", "daemon"):
                scen.append(dict(s, recv=rv, mode="freeze", batch=True, special=True))
    for i, s in enumerate(scen):
        s["id"] = i + 1
    obs, summ = run(w, scen, "freeze")
    # (2) cut either direction at every byte offset (two configurations, batch and interleaved sender)
    conf = [s for s in base if s["kinds"] == ["new", "replace", "replace"] and s["ntoks"] == [1, 2, 2]] + \
           [s for s in base if s["kinds"] == ["replace", "new", "replace"] and s["ntoks"] == [2, 1, 1]]
    if len(conf) != 2:
        raise Broken("cut configurations not found in the generated scenarios")
    sizes, lsizes = {}, {}
    for o in obs:
        key = (json.dumps(o["kinds"]), json.dumps(o["ntoks"]), o["recv"])
        if not o.get("weak"):
            sizes[key] = (o["bytes"], o["upbytes"])
            lsizes[key] = o.get("listbytes", 0)
    cuts = []
    for s in conf:
        for rv in ("client", "daemon"):
            down, up = sizes[(json.dumps(s["kinds"]), json.dumps(s["ntoks"]), rv)]
            offs = range(0, down + 1)
            uoffs = range(0, up + 1)
            if quick:
                offs = [n for n in offs if (n + w.seed) % 2 == 0]
                uoffs = [n for n in uoffs if (n + w.seed) % 3 == 0]
            for n in offs:
                cuts.append(dict(s, recv=rv, mode="cut", n=n, batch=(n % 2 == 0) if quick else False))
                if not quick:
                    cuts.append(dict(s, recv=rv, mode="cut", n=n, batch=True))
            for n in uoffs:
                cuts.append(dict(s, recv=rv, mode="cutup", n=n, batch=False))
            for n in offs:
                if n % 4 == 0 or not quick:
                    cuts.append(dict(s, recv=rv, mode="cut", n=n, batch=True, long=True))
    # one bit of the data segment inverted in transit, at offsets behind the file list (all of them when they are few, else the first 64, the last 48 and a seeded sample):
    # the session may fail as it likes - no listed path may hold anything but its previous or its new content
    nflips = 0
    for s in conf:
        for rv in ("client", "daemon"):
            key = (json.dumps(s["kinds"]), json.dumps(s["ntoks"]), rv)
            span = sizes[key][0] - lsizes[key]
            if lsizes[key] <= 0 or span <= 0:
                raise Broken("no file-list length recorded for %s" % (key,))
            offs = list(range(span))
            if len(offs) > (150 if quick else 1500):
                # every offset of the first 64 bytes (indices, sum head, first token word) and of the last 48 (end
                # marker, trailer, phase markers, statistics), a seeded sample of the rest
                mid = offs[64:-48]
                offs = offs[:64] + rnd.sample(mid, min(len(mid), (40 if quick else 1400))) + offs[-48:]
            for n in offs:
                cuts.append(dict(s, recv=rv, mode="flip", n=n, batch=False))
                nflips += 1
    for i, s in enumerate(cuts):
        s["id"] = 100000 + i
    cobs, csumm = run(w, cuts, "cut")
    # (3) SIGKILL of the receiving process after unit d (+ a random delay)
    kills = []
    for s in (conf if quick else conf + rnd.sample(base, min(6, len(base)))):
        total = sum(4 + n for n in s["ntoks"])
        for d in range(1, total + 1):
            for rv in (("client",) if quick and d % 2 else ("client", "daemon")):
                kills.append(dict(s, recv=rv, mode="kill", n=d, batch=True, snap_on_death=True, delay=rnd.choice([0, 0, 50, 300, 2000])))
    for i, s in enumerate(kills):
        s["id"] = 500000 + i
    kobs, ksumm = run(w, kills, "kill")
    not_killed = [o for o in kobs if o["final"]["mode"] != "killed"]
    if len(not_killed) > len(kobs) // 10:
        raise Broken("kill driver: %d of %d receivers were not killed" % (len(not_killed), len(kobs)))
    kobs = [o for o in kobs if o["final"]["mode"] == "killed"]
    allobs = obs + cobs + kobs
    rej, gen, dist, where = validate(w, allobs, "all")
    if rej:
        # Confirmation on the real code.  Interrupted sessions race two goroutines, so a
        # rejected case need not fail identically again: a KIND of violation (signature)
        # counts as confirmed when a re-run of the rejected cases shows it again.
        byid = {s["id"]: s for s in scen + cuts + kills}
        first = {}
        for o in allobs:
            if o["id"] in rej:
                first.setdefault(json.dumps(sig(o), sort_keys=True), []).append(o["id"])
        confirmed = {}
        todo = dict(first)
        for attempt in range(3):
            if not todo:
                break
            again = [byid[i] for ids in todo.values() for i in ids]
            obs2, _ = run(w, again, "confirm%d" % attempt)
            obs2 = [o for o in obs2 if o["final"]["mode"] != "broken" or byid[o["id"]]["mode"] != "kill"]
            rej2, _, _, where2 = validate(w, obs2, "confirm%d" % attempt)
            for o in obs2:
                if o["id"] in rej2:
                    k = json.dumps(sig(o), sort_keys=True)
                    confirmed.setdefault(k, []).append(o)
            todo = {k: ids for k, ids in todo.items() if k not in confirmed}
        if todo:
            # a rejected case that does not show again in three re-runs never becomes a verdict; many of them mean an unstable harness
            nlost = sum(len(ids) for ids in todo.values())
            if nlost > max(3, len(allobs) // 1000):
                raise Broken("violations not reproduced in 3 re-runs (no verdict): %s" % list(todo)[:3])
            v.notes.append("%d rejected case(s) did not reproduce in 3 re-runs and were dropped (no verdict from them): %s" % (nlost, list(todo)[:3]))
        for k, os_ in confirmed.items():
            if k not in first:
                continue          # a different kind showed up only in the re-run: not a confirmation of anything
            for o in os_:
                v.violation(sig(o), {"scenario": o["scn"],
                                     "events": [(e["d"], e["stage"], e["snap"], e["lnk"]) for e in o["events"]][:30], "final": o["final"]})
    # negative controls
    good = [o for o in allobs if o["id"] not in rej]
    bad = []
    for o in rnd.sample(good, min(40, len(good))):
        c = json.loads(json.dumps(o))
        c["id"] = 10_000_000 + o["id"]
        if rnd.random() < 0.2:
            c["unlinked"] = ["l"]
        elif c["events"] and rnd.random() < 0.5:
            e = rnd.choice(c["events"])
            k = rnd.randrange(len(e["snap"]))
            e["snap"][k] = "other"
        elif c["final"]["mode"] == "error":
            c["final"]["temps"] = 1
        else:
            k = rnd.randrange(len(c["final"]["snap"]))
            c["final"]["snap"][k] = "other"
        bad.append(c)
    nrej, _, _, _ = validate(w, bad, "negctl")
    if nrej != {c["id"] for c in bad}:
        raise Broken("negative control: damaged snapshots accepted by AtomicTrace")
    nsnap = sum(len(o["events"]) for o in allobs) + len(allobs)
    v.coverage = {
        "evaluations": len(allobs), "distinct_nontrivial": len([o for o in allobs if o["final"]["mode"] in ("error", "killed")]) + sum(len(o["events"]) for o in obs),
        "rule": "a case is one 3-file + symlink session to a real receiver (client / writable daemon module): frozen after every wire unit (snapshot while the receiver is blocked), "
                "cut at a byte offset of the sender->receiver or receiver->sender stream (snapshot after error return and close), or SIGKILLed after a unit; "
                "non-trivial = every freeze snapshot and every interrupted session",
        "samples": [{"kinds": o["kinds"], "ntoks": o["ntoks"], "recv": o["recv"], "mode": o["mode"],
                     "events": [(e["d"], e["stage"], "".join(x[0] for x in e["snap"]), e["lnk"]) for e in o["events"]][:8], "final": o["final"]} for o in (obs[:1] + cobs[:1] + kobs[:1])],
        "snapshots": nsnap, "freeze_sessions": len(obs), "cut_sessions": len(cobs) - nflips, "damaged_sessions": nflips, "damaged_sessions_that_failed": sum(1 for o in cobs if o["mode"] == "flip" and o["final"]["result"] == "err"), "kill_sessions": len(kobs),
        "model_states": r["distinct"], "model_transitions": r["generated"], "action_coverage": cov,
        "traces_validated_against_impl": len(allobs), "negative_controls": len(bad),
    }
    v.assumptions = ["atomic rename(2) on the local file system", "a snapshot is taken while the receiver goroutine is blocked in a transport read (xport counters), not after a sleep",
                     "temp files must be gone within 1 s after the connection was closed"]
    return v.finish()
