"""C10 — a dry run changes nothing."""
import p_recv
from vlib import Broken, Verdict

JUDGE = ("type", "content", "target", "perm", "mtime", "dmtime", "extra", "lit")


def sig(o, s):
    diff = p_recv.diff_paths(o, s)
    subj = sorted({(n["t"]) for n in o.get("list", []) if any(d[0] == n["name"] for d in diff)})
    return {"kind": "crash" if str(o.get("err", "")).startswith("CRASHED") else ("error" if o.get("result") != "ok" else "mismatch"),
            "dry_run": bool(o.get("opts", {}).get("n")),
            "entry_types_affected": subj, "diff": sorted({d[1] for d in diff}),
            "literal_data": o.get("lit", 0) > 0 and bool(o.get("opts", {}).get("n")),
            "left_behind": bool(o.get("extra"))}


def check(w):
    v = Verdict(w, "model_checking")
    r, cov, scen = p_recv.design_and_generate(w, "c10")
    if w.tier == "quick":
        # all dry-run scenarios; of the non-dry twins (effectiveness controls) every 4th
        scen = [s for i, s in enumerate(scen) if s["opts"]["n"] or i % 4 == 0]
    counts = {"traces": 0, "trace_states": 0}
    dry_scen = [s for s in scen if s["opts"]["n"]]
    wet_scen = [s for s in scen if not s["opts"]["n"]]
    dry, rej = p_recv.run_validate_confirm(w, "c10", dry_scen, "c10", v, counts, sig, judge=JUDGE)
    nneg = p_recv.negative_controls(w, "c10", dry, rej, w.seed)
    # the non-dry twins are effectiveness controls only: they are run, not judged (that is C01/C11's business)
    _, wet, _ = p_recv.run(w, "c10", wet_scen, "c10-controls", judge=())
    obs = dry + wet
    # effectiveness: the same scenario without -n must change the destination
    def key(o):
        import json
        return json.dumps([o["dst"], {k: x for k, x in o["opts"].items() if k != "n"}, o["recv"]], sort_keys=True)
    changed_without_n = {key(o) for o in obs if not o["opts"]["n"] and p_recv.tree_changed(o)}
    effective = sum(1 for o in dry if key(o) in changed_without_n)
    if effective < 20:
        raise Broken("vacuous: only %d dry-run scenarios have a non-dry twin that changes the destination" % effective)
    v.coverage = {
        "states": r["distinct"], "transitions": r["generated"],
        "traces_validated_against_impl": counts["traces"], "trace_states": counts["trace_states"], "exhaustive": w.tier == "thorough",
        "samples": [{"dst": o["dst"], "opts": o["opts"], "recv": o["recv"], "requests": o["reqs"], "literal_bytes": o["lit"], "result": o["result"]} for o in dry[:2]],
        "scenarios": len(scen), "dry_run_runs": len(dry), "evaluations": len(obs),
        "distinct_nontrivial": effective,
        "rule": "one subject entry (regular, directory, nested file, symlink, fifo) in one situation (missing, same, different, wrong type) x option subsets {l,p,t,D,c,delete} with -n; "
                "non-trivial = the same scenario without -n (also run) changes the destination",
        "action_coverage": cov, "negative_controls": nneg, "worker_crashes": counts.get("crashed", 0),
    }
    v.assumptions = ["snapshot compares type, content, link target, permissions, file and directory mtimes of every path of the universe, plus any stray entry"]
    return v.finish()
