"""C19 — module access control follows first-match allow/deny."""
import json
import random

from vlib import unreproduced as vlib_unreproduced, Broken, Verdict, read_ndjson, write_ndjson, require_coverage

TRACE_CFG = "SPECIFICATION Spec\nCHECK_DEADLOCK TRUE\n"


def cfg(n, gen=False):
    if gen:
        return "SPECIFICATION GenSpec\nCONSTANT MaxRules = %d\nINVARIANT Emit\nCHECK_DEADLOCK FALSE\n" % n
    return "SPECIFICATION Spec\nCONSTANT MaxRules = %d\nINVARIANTS AccessExact NoDataOnRefusal Sanity\nCHECK_DEADLOCK TRUE\n" % n


def validate(w, obs, label):
    tf = w.path("acltrace-%s-%d.ndjson" % (label, len(w.tlc_runs)))
    write_ndjson(tf, [{k: o[k] for k in ("id", "arules", "aaddr", "reply", "trailing")} for o in obs], clamp=True)
    r = w.tlc("AclTrace", TRACE_CFG, env={"VERIF_TRACE": tf}, label="AclTrace-" + label, timeout=3000)
    if not r["completed"]:
        raise Broken("trace validation did not complete: " + r["out"][-3000:])
    return set(i for i, _ in r["rejects"]), r["generated"], r["distinct"]


def run(w, scen, label):
    sf, of = w.path("aclscen-%s.ndjson" % label), w.path("aclobs-%s.ndjson" % label)
    write_ndjson(sf, scen)
    summ = w.run_harness("acl", sf, of, case_timeout=60)
    obs = read_ndjson(of)
    bad = [o for o in obs if "reply" not in o]
    if bad:
        raise Broken("acl harness: %d cases crashed/failed: %s" % (len(bad), json.dumps(bad[0])[:600]))
    return obs, summ


def check(w):
    v = Verdict(w, "model_checking")
    quick = w.tier == "quick"
    n = 2 if quick else 3
    r = w.tlc_ok("Acl", cfg(n), coverage=True, label="Acl")
    cov = require_coverage(r, ["Grant", "Refuse"])
    out = w.path("acl-scen.raw")
    g = w.tlc_ok("Acl", cfg(n, gen=True), env={"VERIF_OUT": out}, workers=1, label="AclGen", timeout=3000)
    scen = read_ndjson(out)
    if len(scen) != g["distinct"] or len(scen) < 1000:
        raise Broken("scenario generation: %d lines" % len(scen))
    for i, s in enumerate(scen):
        s["id"] = i + 1
    obs, summ = run(w, scen, "all")
    rej, gen, dist = validate(w, obs, "all")
    if rej:
        byid = {s["id"]: s for s in scen}
        obs2, _ = run(w, [byid[i] for i in sorted(rej)], "confirm")
        rej2, _, _ = validate(w, obs2, "confirm")
        vlib_unreproduced(v, rej, rej2, total=len(obs))
        exp = {s["id"]: s["expect"] for s in scen}
        for o in obs2:
            if o["id"] in rej2:
                mapped = o["addr"].startswith("::ffff:")
                kinds = sorted({("bad" if ("/33" in x or " " not in x or x.split(" ")[0] not in ("allow", "deny")) else "good") for x in o["rules"]})
                v.violation({"expected": exp[o["id"]], "reply": o["reply"], "trailing": o["trailing"] != 0, "mapped_addr": mapped, "rule_kinds": kinds},
                            {"rules": o["rules"], "addr": o["addr"], "reply_line": o["line"], "trailing": o["trailing"], "spec_decision": exp[o["id"]]})
    rnd = random.Random(w.seed)
    good = [o for o in obs if o["id"] not in rej]
    bad = []
    for o in rnd.sample(good, min(40, len(good))):
        c = dict(o)
        c["id"] = 10_000_000 + o["id"]
        c["reply"] = "error" if o["reply"] == "ok" else "ok"
        bad.append(c)
    nrej, _, _ = validate(w, bad, "negctl")
    if nrej != {c["id"] for c in bad}:
        raise Broken("negative control: flipped replies accepted by AclTrace")
    exp = {s["id"]: s["expect"] for s in scen}
    v.coverage = {
        "states": r["distinct"], "transitions": r["generated"], "traces_validated_against_impl": len(obs), "exhaustive": True,
        "samples": [{"rules": o["rules"], "addr": o["addr"], "reply": o["line"]} for o in obs if len(o["rules"]) == n][:3],
        "evaluations": len(obs), "distinct_nontrivial": sum(1 for o in obs if o["rules"]),
        "decisions": {d: sum(1 for s in scen if s["expect"] == d) for d in ("allow", "deny", "error")},
        "rule": "every rule list of length 0..%d over a pool of 21 rules (allow/deny x all, 0.0.0.0/0, 10.0.0.0/8, 10.1.2.0/24, 10.1.2.3/32, ::/0, 2001:db8::/32, 2001:db8::1/128; "
                "malformed: no space, bad verb on all / on an IPv4 / on an IPv6 network, bad CIDR) x 16 addresses on and around every prefix boundary incl. IPv4-mapped IPv6; non-trivial = non-empty list" % n,
        "action_coverage": cov, "negative_controls": len(bad), "worker_crashes": summ["crashed"],
    }
    v.assumptions = ["the connection name passed to HandleDaemonConn is the client address (as Serve does with RemoteAddr); no real sockets are involved"]
    return v.finish()
