"""C16 — unchanged data is not re-sent: matches are found at every byte offset."""
import json
import random

import p_delta
from p_delta import delta_cfg
from vlib import Broken, Verdict, log, read_ndjson, write_ndjson, require_coverage


def edit_cfg(maxn, maxblk, maxedits, maxdel, maxins, spec="EditSpec", invariants=True, flush=2):
    c = ("SPECIFICATION %s\nCONSTANTS\n  AlphaNeg = 0\n  AlphaPos = 0\n  MaxLen = 0\n  MaxBlk = %d\n  S2Set = {16}\n  FlushAt = %d\n"
         "  MaxN = %d\n  MaxEdits = %d\n  MaxDel = %d\n  MaxIns = %d\n" % (spec, maxblk, flush, maxn, maxedits, maxdel, maxins))
    if invariants:
        c += "INVARIANTS LiteralBound EditExact PrefixExact\n"
    c += "CHECK_DEADLOCK FALSE\n"
    return c


def big_edit_cases(tier, seed):
    rnd = random.Random(seed * 104729 + 5)
    cases = []
    sizes = [700, 1400, 5000, 70_000, 262_144, 300_001, 1_000_003, 3_000_000]
    if tier == "thorough":
        sizes += [8 * 1048576 + 17, 20 * 1048576 + 1, 33 * 1048576]
    reps = 3 if tier == "quick" else 8
    for size in sizes:
        for _ in range(reps):
            ne = rnd.randrange(0, 5)
            edits, off = [], 0
            for _ in range(ne):
                off += rnd.randrange(1, max(2, size // (ne + 1)))
                op = rnd.choice(["ins", "del", "rep"])
                n = 0 if op == "ins" else rnd.choice([1, 2, 17, 699, 700, 1025, 5000])
                m = 0 if op == "del" else rnd.choice([1, 2, 3, 100, 701, 4097])
                edits.append({"op": op, "off": off, "n": n, "m": m})
                off += n
            cases.append({"class": "e2e-edits", "bounded": True, "blk": 0, "s2": 16,
                          "gen": {"kind": "edits", "seed": rnd.randrange(1 << 30), "size": size, "edits": edits}})
        # prepend / append
        cases.append({"class": "prepend", "bounded": True, "blk": 0, "s2": 16,
                      "gen": {"kind": "edits", "seed": rnd.randrange(1 << 30), "size": size, "edits": [{"op": "ins", "off": 0, "n": 0, "m": rnd.choice([1, 5, 1000])}]}})
        cases.append({"class": "append", "bounded": True, "blk": 0, "s2": 16,
                      "gen": {"kind": "edits", "seed": rnd.randrange(1 << 30), "size": size, "edits": [{"op": "ins", "off": size, "n": 0, "m": rnd.choice([1, 5, 1000])}]}})
        # a 3-byte edit (+1,-2,+1) that preserves the weak checksum of its block: the sender meets a false alarm
        # (weak hit, strong miss) and must go on matching everything behind it
        if size >= 1400:
            for _ in range(2):
                cases.append({"class": "weak-preserving-edit", "bounded": True, "blk": 0, "s2": 16,
                              "gen": {"kind": "edits", "seed": rnd.randrange(1 << 30), "size": size,
                                      "edits": [{"op": "wk", "off": rnd.randrange(1, size // 3), "n": 3, "m": 3}] +
                                               ([{"op": "ins", "off": size // 2 + rnd.randrange(size // 4), "n": 0, "m": rnd.choice([1, 100])}] if rnd.random() < 0.5 else [])}})
        cases.append({"class": "identical", "bounded": True, "blk": 0, "s2": 16,
                      "gen": {"kind": "edits", "seed": rnd.randrange(1 << 30), "size": size, "edits": []}})
        # deletions of arbitrary length: a large part of the file goes away at the front, in the middle, at the end;
        # what is left of the receiver's copy (at lower offsets now) must still match
        if size >= 5000:
            for where in ("front", "middle", "end", "two"):
                n = rnd.choice([size // 2 + 13, size // 4 + 1, size // 3])
                off = {"front": 0, "middle": rnd.randrange(1, size - n), "end": size - n, "two": rnd.randrange(1, size // 8)}[where]
                ed = [{"op": "del", "off": off, "n": n if where != "two" else size // 5, "m": 0}]
                if where == "two":
                    ed.append({"op": "del", "off": size // 2 + rnd.randrange(size // 8), "n": size // 6, "m": 0})
                cases.append({"class": "big-deletion-" + where, "bounded": True, "blk": 0, "s2": 16,
                              "gen": {"kind": "edits", "seed": rnd.randrange(1 << 30), "size": size, "edits": ed}})
    # strong checksums truncated the way other protocol-27 generators announce them (2 and 8 bytes instead of 16):
    # matching must work just the same
    for s2 in (2, 8):
        for size in (5000, 300_001):
            cases.append({"class": "short-strong-identical", "bounded": True, "blk": 0, "s2": s2,
                          "gen": {"kind": "edits", "seed": rnd.randrange(1 << 30), "size": size, "edits": []}})
            cases.append({"class": "short-strong-edits", "bounded": True, "blk": 0, "s2": s2,
                          "gen": {"kind": "edits", "seed": rnd.randrange(1 << 30), "size": size,
                                  "edits": [{"op": "rep", "off": size // 3, "n": 5, "m": 9}, {"op": "ins", "off": size // 2, "n": 0, "m": 100}]}})
    # reference-computed checksums at other block sizes
    for blk in [700, 704, 1000, 4096, 32768, 131072]:
        size = blk * rnd.randrange(5, 12) + rnd.randrange(blk)
        off = rnd.randrange(1, size - 1)
        cases.append({"class": "refblk-edits", "bounded": True, "blk": blk, "s2": 16,
                      "gen": {"kind": "edits", "seed": rnd.randrange(1 << 30), "size": size,
                              "edits": [{"op": "rep", "off": off, "n": rnd.choice([0, 1, blk + 1]), "m": rnd.choice([0, 1, 9, blk - 1])}]}})
    # "with the real generator's block sizes": the same cases once more, the request (sum head, block checksums) now
    # being what the REAL generator of internal/receiver sends for that basis and that new length
    real = []
    for c in cases:
        if c["blk"] == 0 and c["s2"] == 16 and c["gen"]["size"] > 0 and (c["class"].startswith("big-deletion") or rnd.random() < (0.5 if tier == "quick" else 1.0)):
            real.append(dict(c, realgen=True, **{"class": c["class"] + "+realgen"}))
    return cases + real


def check(w):
    tier, seed = w.tier, w.seed
    quick = tier == "quick"
    v = Verdict(w, "model_checking")
    # ---- 1. design level: greedy sender on distinct-symbol files under all edit scripts
    N, B, E, D, I = (7, 3, 2, 2, 2) if quick else (9, 3, 2, 3, 3)
    r = w.tlc_ok("DeltaEdit", edit_cfg(N, B, E, D, I), coverage=quick, label="DeltaEdit-safety")
    if quick:
        cov = require_coverage(r, ["EMatch", "ESlide", "EFinish", "EFlush"])
    else:
        rc = w.tlc_ok("DeltaEdit", edit_cfg(6, 3, 2, 2, 2), coverage=True, label="DeltaEdit-coverage")
        cov = require_coverage(rc, ["EMatch", "ESlide", "EFinish", "EFlush"])
    # ---- 2. every edit script replayed on the real sender, byte-level and inflated
    out = w.path("edit-scen.raw")
    g = w.tlc_ok("DeltaEdit", edit_cfg(N, B, E, D, I, spec="GenSpec", invariants=False) + "INVARIANT EmitEdit\n",
                 env={"VERIF_OUT": out}, workers=1, label="DeltaEditGen")
    base = read_ndjson(out)
    if len(base) != g["distinct"] or len(base) < 100:
        raise Broken("scenario generation: %d lines for %d initial states" % (len(base), g["distinct"]))
    rnd = random.Random(seed)
    scen = []
    for s in base:
        scen.append(dict(s, scale=1, **{"class": "tlc-" + s["kind"] + "-bytes"}))
    scales = [(350, 1.0)] if quick else [(175, 1.0), (4096, 0.5), (65536, 0.03)]
    for k, frac in scales:
        for s in base:
            if rnd.random() < frac:
                scen.append(dict(s, scale=k, **{"class": "tlc-" + s["kind"] + "-x%d" % k}))
    counts = {"traces": 0, "trace_states": 0, "trace_transitions": 0}
    obs, rej, summ = p_delta.run_and_validate(w, scen, "edits", v, counts)
    # ---- 3. end to end sizes with the generator's block-size rule
    big = big_edit_cases(tier, seed)
    bobs, brej, bsumm = p_delta.run_and_validate(w, big, "big", v, counts)
    # ... and again (other seeds) inside multi-file sender sessions: state that survives from
    # file to file in the sender must not cost matches
    big2 = [c for c in big_edit_cases(tier, seed + 1000) if c["gen"]["size"] >= 70_000]
    rnd.shuffle(big2)
    sobs, srej, ssumm = p_delta.run_and_validate(w, big2, "bigsess", v, counts, session=3, first_id=100000)
    bobs, brej = bobs + sobs, set(brej) | set(srej)
    big = big + big2
    # ---- 4. negative controls: a stream that spends more literal data than allowed must be rejected
    good = [o for o in obs + bobs if o["id"] not in (rej if o in obs else brej) and o["lit"] > 0 and o["bounded"]]
    if len(good) < 10:
        raise Broken("too few accepted bounded traces with literal data (%d)" % len(good))
    bad = []
    for o in rnd.sample(good, min(40, len(good))):
        c = json.loads(json.dumps(o))
        c["inserted"], c["slack"], c["nedits"] = 0, 0, 0
        c["id"] = 10_000_000 + o["id"]
        bad.append(c)
    nrej, _, _, _ = p_delta.validate(w, bad, "negctl")
    if nrej != {c["id"] for c in bad}:
        raise Broken("negative control: over-budget traces accepted by DeltaTrace")
    allobs = obs + bobs
    nreal = sum(1 for o in bobs if o.get("class", "").endswith("+realgen") and o["id"] not in brej and o["blk"] >= 700 and o["count"] > 0)
    if nreal < 20:
        raise Broken("vacuous run: only %d accepted cases used a request captured from the real generator" % nreal)
    nontrivial = sum(1 for o in allobs if o["nedits"] > 0 and any(t["k"] in ("ref", "refrun") for t in o["toks"]))
    samples = []
    for o in ([o for o in obs if o["nedits"] == 2][:2] + bobs[:2]):
        samples.append({"scenario": o["scn"], "literal_bytes": o["lit"], "inserted": o["inserted"], "edits": o["nedits"], "blk": o["blk"],
                        "tlen": o["tlen"], "tokens": [{k: t[k] for k in ("k", "n", "i", "bl", "bytes") if k in t} for t in o["toks"][:8]]})
    v.coverage = {
        "states": r["distinct"], "transitions": r["generated"],
        "traces_validated_against_impl": counts["traces"], "trace_states": counts["trace_states"],
        "samples": samples, "exhaustive": True,
        "design_constants": {"MaxN": N, "MaxBlk": B, "MaxEdits": E, "MaxDel": D, "MaxIns": I},
        "replayed_scenarios": {"tlc_edit_scripts": len(base), "replayed_incl_inflated": len(scen), "scales": [1] + [k for k, _ in scales],
                               "end_to_end_sizes": len(big), "of_which_in_multi_file_sessions": len(big2), "max_file_bytes": max(o["tlen"] for o in bobs)},
        "requests_from_real_generator": nreal,
        "action_coverage": cov,
        "evaluations": len(scen) + len(big), "distinct_nontrivial": nontrivial,
        "rule": "a case is one edited file answered by the real sender; non-trivial = at least one edit and at least one block reference in the answer",
        "negative_controls": {"over_budget_traces": len(bad), "rejected": len(nrej)},
        "worker_crashes": summ["crashed"] + bsumm["crashed"] + ssumm["crashed"],
    }
    v.assumptions = ["high-entropy data has no accidental block matches (random bytes, distinct symbols)",
                     "literal bound = inserted + slack + 2*(block-1) per edit (DeltaOps!LiteralBoundOf), checked by TLC on the greedy model",
                     "block checksums are computed by the reference receiver with the generator's block-size rule (max(700, floor(sqrt(len)))); the +realgen cases use the request the real generator sent in a receiver session of its own (same seed)"]
    return v.finish()
