"""C11 — requested metadata is reproduced at the destination."""
import p_recv
from vlib import Broken, Verdict

JUDGE = ("type", "target", "perm", "mtime")


def sig(o, s):
    diff = p_recv.diff_paths(o, s)
    opts = o.get("opts", {})
    return {"kind": "crash" if str(o.get("err", "")).startswith("CRASHED") else ("error" if o.get("result") != "ok" else "mismatch"),
            "p": opts.get("p"), "t": opts.get("t"), "l": opts.get("l"),
            "diff": sorted({d[1] for d in diff if d[1] in ("type", "target", "perm", "mtime", "missing", "unexpected")}),
            "where": sorted({("dir" if any(e["name"] == d[0] and e["t"] == "dir" for e in o.get("list", [])) else "file") for d in diff})}


def check(w):
    v = Verdict(w, "model_checking")
    r, cov, scen = p_recv.design_and_generate(w, "c11")
    if w.tier == "quick":
        import random
        scen = random.Random(w.seed).sample(scen, len(scen) // 5)
    counts = {"traces": 0, "trace_states": 0}
    obs, rej = p_recv.run_validate_confirm(w, "c11", scen, "c11", v, counts, sig, judge=JUDGE)
    nneg = p_recv.negative_controls(w, "c11", obs, rej, w.seed)
    nontriv = sum(1 for o in obs if any(o["opts"][k] for k in ("p", "t", "l")))
    v.coverage = {
        "states": r["distinct"], "transitions": r["generated"],
        "traces_validated_against_impl": counts["traces"], "trace_states": counts["trace_states"], "exhaustive": w.tier == "thorough",
        "samples": [{"list": o["list"], "opts": o["opts"], "recv": o["recv"], "final": o["final"], "result": o["result"]} for o in obs[:1]],
        "scenarios": len(scen), "evaluations": len(obs), "distinct_nontrivial": nontriv,
        "rule": "attribute classes (file perms 0000/0400/0555/0644/0777/0200, dir perms 0755/0555/0700/0500, mtimes -2e9, -2, 1, 1000, 2e9) x all subsets of {-p,-t,-l,-c} with -D, files, directories, a symlink, a fifo and a character device, x prior destination {absent, present with other attributes}, "
                "incl. a read-only directory with content; non-trivial = at least one preserve option on",
        "action_coverage": cov, "negative_controls": nneg, "worker_crashes": counts.get("crashed", 0),
    }
    v.assumptions = ["only what the property states is constrained: new-file mode without -p, directory mtimes and symlink permissions are not compared"]
    return v.finish()
