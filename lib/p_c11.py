"""C11 — requested metadata is reproduced at the destination."""
import p_recv
import p_sync
from vlib import Broken, Verdict

JUDGE = ("type", "target", "perm", "mtime", "owner")


def sig(o, s):
    diff = p_recv.diff_paths(o, s)
    opts = o.get("opts", {})
    return {"kind": "crash" if str(o.get("err", "")).startswith("CRASHED") else ("error" if o.get("result") != "ok" else "mismatch"),
            "p": opts.get("p"), "t": opts.get("t"), "l": opts.get("l"),
            "diff": sorted({d[1] for d in diff if d[1] in ("type", "target", "perm", "mtime", "missing", "unexpected", "owner")}), "o": opts.get("o"),
            "where": sorted({("dir" if any(e["name"] == d[0] and e["t"] == "dir" for e in o.get("list", [])) else "file") for d in diff})}


def check(w):
    v = Verdict(w, "model_checking")
    r, cov, scen = p_recv.design_and_generate(w, "c11")
    if w.tier == "quick":
        import random
        scen = random.Random(w.seed).sample(scen, len(scen) // 5)
    # ids WITH A LOCAL NAME: a share of the -o/-g scenarios also sends id lists that name the foreign ids after accounts of
    # this machine ("daemon", group "sys") or after accounts that do not exist here.  This implementation receives the
    # lists and looks the names up, but applies owners as the NUMBERS they are (internal/receiver/generatoruid.go uses
    # f.Uid / f.Gid; Transfer.Users / Groups are never read) - which is "the source's owner and group" in the numeric
    # sense and what the specification is told to expect here: no id is mapped (lid = -1 for every name, see
    # RecvTrace!MapId).  What this part decides: id lists with names do not disturb the session or the owners.
    import random as _rn
    users = [{"id": 1234, "name": "daemon"}, {"id": 7, "name": "no-such-user-xq"}]
    groups = [{"id": 4321, "name": "sys"}, {"id": 7, "name": "no-such-group-xq"}]
    umap = [{"id": u["id"], "lid": -1} for u in users]
    gmap = [{"id": g["id"], "lid": -1} for g in groups]
    rn = _rn.Random(w.seed + 11)
    named = [dict(s, users=users, groups=groups, umap=umap, gmap=gmap, named=True) for s in scen if s["opts"].get("o") and rn.random() < (0.25 if w.tier == "quick" else 0.5)]
    scen = scen + named
    counts = {"traces": 0, "trace_states": 0}
    obs, rej = p_recv.run_validate_confirm(w, "c11", scen, "c11", v, counts, sig, judge=JUDGE)
    n_named = sum(1 for o in obs if o.get("umap") and o["id"] not in rej and any(n.get("uid") == 1234 for n in o["final"]))
    if not n_named:
        raise Broken("vacuous: no accepted run in which named id lists were sent and a foreign owner was applied")
    nneg = p_recv.negative_controls(w, "c11", obs, rej, w.seed)
    # ---- the REAL sender on the other end, with TWO source arguments (everything below "d" comes from the second one):
    #      the sender's "same as the previous entry" state must not leak from one source argument into the next.  The last
    #      entry of the first source is owned by 1234:4321, the second source starts with root-owned entries.
    import random as _r
    rnd2 = _r.Random(w.seed + 5)
    pool = [s for s in scen if s["opts"].get("o")]
    lines = []
    for sc in rnd2.sample(pool, min(len(pool), 24 if w.tier == "quick" else 200)):
        src = [dict(p=e["name"], **{x: e[x] for x in ("t", "c", "sz", "mt", "perm", "tgt", "uid", "gid")}, ns=0) for e in sc["list"] if e["name"] != "."]
        for n in src:
            if n["p"] == "ro/f":
                n["uid"], n["gid"] = 1234, 4321
            if n["p"] in ("d", "d/f"):
                n["uid"], n["gid"] = 0, 0
        e2e = {"family": "c11", "universe": sc["universe"], "src": src, "dst": [n for n in sc["dst"] if n["p"] != "."], "opts": sc["opts"], "rules": []}
        for arr in ("local", "push"):
            for form in ("multi", "slash"):
                lines.append(p_sync.mk_line(e2e, arr, JUDGE, form=form))
    ecounts = {}
    eobs, erej = p_sync.run_validate_confirm(w, "c11", lines, "c11-e2e", v, ecounts,
                                             lambda o: {"kind": "e2e-" + ("error" if o["result"] != "ok" else "mismatch"), "arr": o["arr"], "form": o["form"], "o": o["opts"].get("o")})
    nontriv = sum(1 for o in obs if any(o["opts"][k] for k in ("p", "t", "l")))
    chowned = sum(1 for o in obs if o["opts"].get("o") and any(n.get("uid") == 1234 for n in o["final"]))
    if chowned < 10:
        raise Broken("vacuous: only %d runs with -o ended with a destination entry owned by the source's uid" % chowned)
    v.coverage = {
        "states": r["distinct"], "transitions": r["generated"],
        "traces_validated_against_impl": counts["traces"], "trace_states": counts["trace_states"], "exhaustive": w.tier == "thorough",
        "samples": [{"list": o["list"], "opts": o["opts"], "recv": o["recv"], "final": o["final"], "result": o["result"]} for o in obs[:1]],
        "scenarios": len(scen), "evaluations": len(obs), "distinct_nontrivial": nontriv, "runs_with_foreign_owner_applied": chowned, "end_to_end_runs_with_two_sources": len(eobs),
        "rule": "attribute classes (file perms 0000/0400/0555/0644/0777/0200, dir perms 0755/0555/0700/0500, mtimes -2e9, -2, 1, 1000, 2e9) x all subsets of {-p,-t,-l,-c} x {-o -g on/off; sources owned by 1234:4321, 1234:0, 0:4321} with -D, files, directories, a symlink, a fifo and a character device, x prior destination {absent, present with other attributes}, "
                "incl. a read-only directory with content; non-trivial = at least one preserve option on",
        "id_lists_with_names": {"accepted_runs_with_foreign_owner_applied": n_named, "users": users, "groups": groups, "rule": "owners are applied numerically; names are received, looked up and not applied"},
        "action_coverage": cov, "negative_controls": nneg, "worker_crashes": counts.get("crashed", 0),
    }
    v.assumptions = ["only what the property states is constrained: new-file mode without -p, directory mtimes and symlink permissions are not compared"]
    return v.finish()
