"""C15 — the wire format conforms to rsync protocol 27."""
import json
import random

import p_sync
from vlib import clip as vclip
from vlib import unreproduced as vlib_unreproduced, Broken, Verdict, read_ndjson, write_ndjson, require_coverage

TRACE_CFG = "SPECIFICATION Spec\nCHECK_DEADLOCK TRUE\n"
OPTSETS = [dict(uid=u, gid=g, links=l, devices=d, specials=s, checksum=c) for (u, g, l, d, s, c) in
           [(0, 0, 0, 0, 0, 0), (1, 1, 1, 1, 1, 1), (1, 0, 0, 0, 0, 0), (0, 1, 1, 0, 0, 1), (0, 0, 0, 1, 0, 0), (0, 0, 0, 0, 1, 0)]]
OPTSETS = [{k: bool(v) for k, v in o.items()} for o in OPTSETS]
U15 = ["+p", "-d", ".", ".h", "Z", "a b", "data", "data-old", "data.txt", "data/inner"]


def cfg(n, emit=False):
    c = "SPECIFICATION Spec\nCONSTANT MaxEntries = %d\n" % n
    c += "INVARIANT Emit\nCHECK_DEADLOCK FALSE\n" if emit else "INVARIANTS RoundTrip OrderTotal\nCHECK_DEADLOCK TRUE\n"
    return c


def trees(rnd):
    """Small trees for the encode direction."""
    def reg(p, c, sz, mt=1000, perm=0o644):
        return {"p": p, "t": "reg", "c": c, "sz": sz, "mt": mt, "ns": 0, "perm": perm, "tgt": ""}
    def d(p, perm=0o755):
        return {"p": p, "t": "dir", "c": 0, "sz": 0, "mt": 1000, "ns": 0, "perm": perm, "tgt": ""}
    out = []
    out.append([reg("a", 1, 0), reg("ab", 2, 1), reg("abc", 3, 700), d("d"), reg("d/a", 4, 5000), d("d/e"), reg("d/e/a", 5, 3)])
    out.append([reg("éÿ", 1, 10), reg("sp ace", 2, 20), reg("new\nline", 3, 30, mt=-86400), reg("q\"uote'*?[x]", 4, 40, perm=0o7)])
    out.append([d("data"), reg("data/inner", 1, 10), reg("data-old", 2, 20), reg("data.txt", 3, 30), reg(".h", 4, 40), reg("+p", 5, 50)])
    out.append([reg("f", 1, 100, perm=0o600), {"p": "l", "t": "lnk", "tgt": "f", "perm": 0o777, "mt": 1000, "ns": 0, "c": 0, "sz": 0},
                {"p": "ldangling", "t": "lnk", "tgt": "../no/suchü", "perm": 0o777, "mt": 1000, "ns": 0, "c": 0, "sz": 0},
                {"p": "k", "t": "fifo", "perm": 0o640, "mt": 1000, "ns": 0, "c": 0, "sz": 0, "tgt": ""},
                {"p": "dev", "t": "chr", "perm": 0o660, "rdev": 259, "mt": 1000, "ns": 0, "c": 0, "sz": 0, "tgt": ""},
                {"p": "blk", "t": "blk", "perm": 0o660, "rdev": 8 * 256 + 1, "mt": 1000, "ns": 0, "c": 0, "sz": 0, "tgt": ""}])
    out.append([])   # the empty tree: only "."
    for _ in range(10):
        t, names = [], set()
        dirs = [""]
        for _ in range(rnd.randrange(1, 7)):
            nm = dirs[rnd.randrange(len(dirs))] + "".join(rnd.choice("ab.-Zä") for _ in range(rnd.randrange(1, 4)))
            if nm in names or nm.endswith(".") and set(nm.split("/")[-1]) == {"."}:
                continue
            names.add(nm)
            if rnd.random() < 0.3:
                t.append(d(nm, perm=rnd.choice([0o755, 0o700, 0o555])))
                dirs.append(nm + "/")
            else:
                t.append(reg(nm, rnd.randrange(1, 200), rnd.choice([0, 1, 699, 700, 4097]), mt=rnd.choice([1000, 0, -5, 2_000_000_000]), perm=rnd.choice([0o644, 0o400, 0o777, 0])))
        out.append(t)
    return out


def validate(w, obs, label):
    tf = w.path("p27trace-%s-%d.ndjson" % (label, len(w.tlc_runs)))
    write_ndjson(tf, [{k: o[k] for k in ("id", "mode", "opts", "bytes", "err", "decoded", "ioerr", "mismatch")} for o in obs], clamp=True)
    r = w.tlc("Proto27Trace", TRACE_CFG, env={"VERIF_TRACE": tf}, label="Proto27Trace-" + label, timeout=3000)
    if not r["completed"]:
        raise Broken("trace validation did not complete: " + r["out"][-3000:])
    return set(i for i, _ in r["rejects"]), r["generated"], r["distinct"]


def run(w, scen, label):
    sf, of = w.path("flscen-%s.ndjson" % label), w.path("flobs-%s.ndjson" % label)
    write_ndjson(sf, scen)
    summ = w.run_harness("flist", sf, of, case_timeout=120)
    obs = []
    for o in read_ndjson(of):
        if "mode" not in o:
            scn = o.get("scn") or {}
            o = {"id": scn.get("id", -1), "mode": scn.get("mode", "decode"), "opts": scn.get("opts", OPTSETS[0]), "bytes": scn.get("bytes", []), "decoded": [], "ioerr": 0, "mismatch": 1,
                 "err": ("CRASHED: " if o.get("crashed") else "HUNG: " if o.get("hung") else "HARNESS: " + str(o.get("harness_error"))) + vclip(o.get("stderr"), 1200), "n": 0, "first": ""}
        obs.append(o)
    if len(obs) != len(scen):
        raise Broken("harness returned %d observations for %d scenarios" % (len(obs), len(scen)))
    hb = [o for o in obs if o["err"].startswith("HARNESS")]
    if hb:
        raise Broken("harness error: " + hb[0]["err"])
    return obs, summ


def check(w):
    v = Verdict(w, "model_checking")
    quick = w.tier == "quick"
    rnd = random.Random(w.seed)
    r = w.tlc_ok("Proto27MC", cfg(2), label="Proto27MC")
    out = w.path("p27-scen.raw")
    g = w.tlc_ok("Proto27MC", cfg(2, emit=True), env={"VERIF_OUT": out}, workers=1, label="Proto27Gen", timeout=3000)
    encs = read_ndjson(out)
    if len(encs) < 10000:
        raise Broken("encoding generation: %d lines" % len(encs))
    if quick:
        encs = rnd.sample(encs, 25000)
    scen = [{"mode": "decode", "opts": e["opts"], "bytes": e["bytes"], "entries": e["entries"], "flags": e["flags"]} for e in encs]
    ndec = len(scen)
    for t in trees(rnd):
        for o in OPTSETS:
            scen.append({"mode": "encode", "opts": o, "tree": t})
    nenc = len(scen) - ndec
    for n in ([50, 1000, 10000] if quick else [50, 1000, 10000, 10000, 20000]):
        for o in OPTSETS:
            for k in range(2 if quick else 6):
                scen.append({"mode": "big", "opts": o, "n": n, "seed": rnd.randrange(1 << 30)})
    for i, s in enumerate(scen):
        s["id"] = i + 1
    obs, summ = run(w, scen, "all")
    rej, gen, dist = validate(w, obs, "all")
    if rej:
        byid = {s["id"]: s for s in scen}
        obs2, _ = run(w, [byid[i] for i in sorted(rej)], "confirm")
        rej2, _, _ = validate(w, obs2, "confirm")
        vlib_unreproduced(v, rej, rej2, total=len(obs))
        for o in obs2:
            if o["id"] in rej2:
                s = byid[o["id"]]
                sig = {"mode": o["mode"], "crash": o["err"].startswith("CRASHED"), "error": bool(o["err"])}
                if o["mode"] == "decode":
                    fl = s.get("flags") or []
                    sig["uses"] = sorted({n for f in fl for b, n in ((32, "same-name"), (64, "long-name"), (2, "same-mode"), (128, "same-time"), (8, "same-uid"), (16, "same-gid"), (4, "same-rdev")) if f & b})
                    sig["big_size"] = any(e["size"][2] or e["size"][3] or e["size"][1] >= 32768 for e in s["entries"])
                v.violation(sig, {"scenario": {k: s.get(k) for k in ("mode", "opts", "entries", "bytes", "tree", "n", "seed")}, "observed": {k: o.get(k) for k in ("err", "decoded", "ioerr", "mismatch", "first")}})
    # index agreement end to end: a request by index refers to the same file on both ends
    src = [{"p": p, "t": "reg", "c": 10 + k, "sz": 100 + k, "mt": 1000, "ns": 0, "perm": 0o644, "tgt": ""} for k, p in enumerate(U15) if p not in (".", "data")]
    src.append({"p": "data", "t": "dir", "c": 0, "sz": 0, "mt": 1000, "ns": 0, "perm": 0o755, "tgt": ""})
    opts = {"r": True, "l": False, "p": False, "t": True, "dv": False, "sp": False, "c": False, "I": False, "n": False, "del": False}
    e2e = []
    for arr in ("pull", "push", "local", "lib", "libpush"):
        for dstk in ("empty", "older"):
            dst = [] if dstk == "empty" else [dict(n, c=900 + k, mt=900) for k, n in enumerate(src) if n["t"] == "reg"]
            e2e.append(p_sync.mk_line({"family": "c15", "universe": U15, "src": src, "dst": dst, "opts": opts, "rules": []}, arr, ("type", "content")))
    counts = {}
    eobs, erej = p_sync.run_validate_confirm(w, "c15", e2e, "c15-index", v, counts, lambda o: {"mode": "index-agreement", "arr": o["arr"], "result": o["result"]})
    # negative controls
    good = [o for o in obs if o["id"] not in rej and o["mode"] != "big" and o["decoded"]]
    bad = []
    for o in rnd.sample(good, min(40, len(good))):
        c = json.loads(json.dumps(o))
        c["id"] = 10_000_000 + o["id"]
        e = rnd.choice(c["decoded"])
        f = rnd.choice(["mtime", "mode", "name", "size"])
        if f == "name":
            e["name"] = e["name"] + [120]
        elif f == "size":
            e["size"][0] = (e["size"][0] + 1) % 65536
        else:
            e[f] += 1
        bad.append(c)
    nrej, _, _ = validate(w, bad, "negctl")
    if nrej != {c["id"] for c in bad}:
        raise Broken("negative control: altered entries accepted by Proto27Trace")
    big = [o for o in obs if o["mode"] == "big"]
    v.coverage = {
        "states": r["distinct"], "transitions": r["generated"], "traces_validated_against_impl": len(obs) + len(eobs), "exhaustive": not quick,
        "samples": [{"mode": o["mode"], "opts": o["opts"], "bytes": o["bytes"][:60], "decoded": o["decoded"][:2]} for o in obs[:1] + [o for o in obs if o["mode"] == "encode"][:1]]
                   + [{"mode": "big", "n": o["n"], "mismatch": o["mismatch"]} for o in big[:1]],
        "encodings_fed_to_the_real_decoder": ndec, "trees_listed_by_the_real_sender": nenc, "big_lists": len(big), "big_entries": sum(o["n"] for o in big),
        "index_agreement_runs": len(eobs),
        "evaluations": len(obs) + len(eobs), "distinct_nontrivial": sum(1 for s in scen[:ndec] if any(f & (32 + 2 + 128 + 8 + 16 + 4) for f in s["flags"])),
        "rule": "decode: every valid encoding (any inherited-prefix length, 1- or 4-byte name length, same-mode/time/uid/gid/rdev, top-dir) of every 1..2-entry list from a 10-entry pool under 6 option sets, "
                "fed to the real ReceiveFileList and compared by TLC with Proto27!Decode; encode: small trees (bytes >= 0x80, quotes, newlines, shared prefixes, links, fifo, devices, pre-1970 times) listed by the real sender, "
                "raw bytes decoded by TLC; big: 50..10000-entry random lists (names to 255 bytes, sizes to 2^40) judged by the reference codec; index agreement: a tree whose walk order differs from bytewise order, five arrangements; "
                "non-trivial = the encoding uses at least one 'same as previous' feature",
        "negative_controls": len(bad), "worker_crashes": summ["crashed"],
    }
    v.assumptions = ["the specification's decoder (Proto27.tla) is the decoder of record; the Go reference codec is used alone only for the big lists",
                     "handshake lines, seed and checksum headers are exercised by every other check's reference peer but are not modelled in Proto27.tla", "id-list contents (user/group names) are not generated: the lists are empty"]
    return v.finish()
