"""C06 — a daemon discloses only what lies inside the requested module."""
import json
import random

from vlib import clip as vclip
from vlib import unreproduced as vlib_unreproduced, Broken, Verdict, read_ndjson, write_ndjson, require_coverage

TRACE_CFG = "SPECIFICATION Spec\nCHECK_DEADLOCK TRUE\n"


def normalise(o):
    if "leaks" in o and "id" in o:
        return o
    scn = o.get("scn") or {}
    return {"id": scn.get("id", -1), "arg": "%s|%s" % (scn.get("prefix"), scn.get("path")), "opts": scn.get("opts", []), "fsmod": scn.get("fsmod", False),
            "effective": scn.get("effective", False), "result": "crashed" if o.get("crashed") else "hung",
            "err": ("CRASHED: " if o.get("crashed") else "HUNG: " if o.get("hung") else "HARNESS: " + str(o.get("harness_error"))) + vclip(o.get("stderr"), 1200),
            "listed": [], "fetched": 0, "leaks": [], "events": [], "scn": scn}


def run(w, scen, label):
    sf, of = w.path("dscen-%s.ndjson" % label), w.path("dobs-%s.ndjson" % label)
    write_ndjson(sf, scen)
    summ = w.run_harness("disclose", sf, of, case_timeout=60)
    obs = [normalise(o) for o in read_ndjson(of)]
    if len(obs) != len(scen):
        raise Broken("harness returned %d observations for %d scenarios" % (len(obs), len(scen)))
    hb = [o for o in obs if o["err"].startswith("HARNESS")]
    if hb:
        raise Broken("harness error: " + hb[0]["err"])
    return obs, summ


def validate(w, obs, label):
    tf = w.path("disctrace-%s-%d.ndjson" % (label, len(w.tlc_runs)))
    write_ndjson(tf, [{k: o[k] for k in ("id", "result", "leaks", "events")} for o in obs], clamp=True)
    r = w.tlc("DiscloseTrace", TRACE_CFG, env={"VERIF_TRACE": tf}, label="DiscloseTrace-" + label, timeout=3000)
    if not r["completed"]:
        raise Broken("trace validation did not complete: " + r["out"][-3000:])
    return set(i for i, _ in r["rejects"]), r["generated"], r["distinct"]


def check(w):
    v = Verdict(w, "model_checking")
    depth = 2 if w.tier == "quick" else 3
    cfg = "SPECIFICATION Spec\nCONSTANT MaxDepth = %d\nINVARIANT OnlyInside\nCHECK_DEADLOCK TRUE\n" % depth
    r = w.tlc_ok("Disclose", cfg, coverage=True, label="Disclose")
    cov = require_coverage(r, ["Walk"])
    out = w.path("disclose-scen.raw")
    g = w.tlc_ok("Disclose", "SPECIFICATION GenSpec\nCONSTANT MaxDepth = %d\nINVARIANT Emit\nCHECK_DEADLOCK FALSE\n" % depth, env={"VERIF_OUT": out}, workers=1, label="DiscloseGen")
    scen = read_ndjson(out)
    if len(scen) != g["distinct"] or len(scen) < 1000:
        raise Broken("scenario generation: %d lines" % len(scen))
    # history: "after the same daemon served the sibling module" matters only where file contents are read (-c) and a listing results
    scen = [s for s in scen if not s["prime"] or ("c" in s["opts"] and s["inside"])]
    # ... "the module directory was replaced after an earlier request" matters where a listing results
    scen = [s for s in scen if not s.get("swap") or (s["inside"] and s["path"] in ("", "a") and s["prefix"] in ("m", "m/"))]
    rnd = random.Random(w.seed)
    # the same request grammar against an fs.FS-backed module (a sample)
    fsm = [dict(s, fsmod=True, prime=False, swap=False) for s in rnd.sample(scen, min(400, len(scen)))]
    scen = scen + fsm
    for i, s in enumerate(scen):
        s["id"] = i + 1
    obs, summ = run(w, scen, "all")
    rej, gen, dist = validate(w, obs, "all")
    if rej:
        byid = {s["id"]: s for s in scen}
        obs2, _ = run(w, [byid[i] for i in sorted(rej)], "confirm")
        rej2, _, _ = validate(w, obs2, "confirm")
        vlib_unreproduced(v, rej, rej2, total=len(obs))
        for o in obs2:
            if o["id"] in rej2:
                what = "leak" if o["leaks"] else "accessed" if o["events"] else o["result"]
                v.violation({"what": what, "opts": sorted(o["opts"]), "fsmod": o["fsmod"], "trailing_slash": o["arg"].endswith("/"), "after_other_module": bool((o.get("scn") or {}).get("prime")), "after_directory_replaced": bool((o.get("scn") or {}).get("swap"))},
                            {"request": o["arg"], "opts": o["opts"], "leaks": o["leaks"], "events": o["events"], "listed": o["listed"][:10], "result": o["result"], "err": o["err"][:300]})
    good = [o for o in obs if o["id"] not in rej]
    bad = []
    for o in rnd.sample(good, min(30, len(good))):
        c = dict(o)
        c["id"] = 10_000_000 + o["id"]
        if rnd.random() < 0.5:
            c["leaks"] = ["canary SECRETNAME in the server's byte stream"]
        else:
            c["events"] = ["open outside/file"]
        bad.append(c)
    nrej, _, _ = validate(w, bad, "negctl")
    if nrej != {c["id"] for c in bad}:
        raise Broken("negative control: leaks accepted by DiscloseTrace")
    listing = [o for o in obs if o["listed"]]
    v.coverage = {
        "states": r["distinct"], "transitions": r["generated"], "traces_validated_against_impl": len(obs), "exhaustive": True,
        "samples": [{"request": o["arg"], "opts": o["opts"], "result": o["result"], "listed": o["listed"][:6], "fetched": o["fetched"]} for o in ([o for o in obs if o["effective"]][:2] + listing[:2])],
        "evaluations": len(obs), "distinct_nontrivial": sum(1 for o in obs if o["effective"]),
        "requests_with_a_listing": len(listing), "files_fetched": sum(o["fetched"] for o in obs),
        "rule": "request paths of 0..%d components over {plain dir, link out (relative / absolute / absolute starting with the module path / sibling sharing the module's path prefix), link to an outside file, inside link, '..', '.'} "
                "x module-name spellings {m, m/, m//, mm, absolute, empty} x trailing slash x options {-c, -l} x history {fresh daemon, the same daemon just served a sibling module with the same file names, sizes and mtimes, the same daemon served this module before its directory was replaced}, against a directory-backed module and an fs.FS-backed one, with other modules configured; "
                "non-trivial = a path-joining sender would start its walk outside the module (Disclose!Effective)" % depth,
        "action_coverage": cov, "negative_controls": len(bad), "worker_crashes": summ["crashed"],
    }
    v.assumptions = ["disclosure is detected by canaries (names, contents, link targets, size+mtime, MD4) in the raw server stream and the decoded entries, plus inotify on the outside directories; a bare lstat outside is not observable",
                     "landlock is disabled in the harness"]
    return v.finish()
