"""C20 — SSH listeners admit only authorised keys and expose only the rsync daemon."""
import json
import random

from vlib import clip as vclip
from vlib import unreproduced as vlib_unreproduced, Broken, Verdict, read_ndjson, write_ndjson, require_coverage

DESIGN_CFG = "SPECIFICATION Spec\nINVARIANTS OnlyAuthorised AnonOnlyDaemon DaemonNeedsBoth OnlyConfiguredModules DaemonReachable\nCHECK_DEADLOCK TRUE\n"
GEN_CFG = "SPECIFICATION GenSpec\nINVARIANT Emit\nCHECK_DEADLOCK FALSE\n"
TRACE_CFG = "SPECIFICATION Spec\nCHECK_DEADLOCK TRUE\n"
ACTIONS = ["Handshake", "Serve", "Done"]
FIELDS = ("id", "listener", "req", "admit", "both", "canonical", "admitted", "outcome", "modules", "listed", "canary", "outsideread", "dropped", "alive")


def normalise(o, byid):
    if "outcome" in o and "id" in o:
        o["canonical"] = byid[o["id"]]["canonical"]
        o["scn"] = byid[o["id"]]
        return o
    scn = o.get("scn") or {}
    s = byid.get(scn.get("id"), scn)
    # the worker process died or hung: for an in-process listener that IS the daemon dying
    return {"id": s.get("id", -1), "listener": s.get("listener", ""), "keyfile": s.get("keyfile", ""), "key": s.get("key", ""), "req": s.get("req", ""), "cmd": "",
            "admit": s.get("admit", False), "both": s.get("both", False), "canonical": s.get("canonical", False), "real": s.get("real", False),
            "started": True, "admitted": s.get("admit", False), "accepted": False, "outcome": "command", "modules": [], "listed": False, "first": "", "exit": -1, "nout": 0,
            "canary": False, "outsideread": False, "dropped": False, "alive": False, "events": [],
            "died": "crashed" if o.get("crashed") else ("hung" if o.get("hung") else "harness"), "err": vclip(o.get("stderr") or str(o.get("harness_error")), 1500), "scn": s}


def run(w, scen, label, gokr):
    sf, of = w.path("sscen-%s.ndjson" % label), w.path("sobs-%s.ndjson" % label)
    write_ndjson(sf, scen)
    summ = w.run_harness("ssh", sf, of, case_timeout=60, extra_env={"RSVERIF_GOKR": gokr})
    byid = {s["id"]: s for s in scen}
    obs = [normalise(o, byid) for o in read_ndjson(of)]
    if len(obs) != len(scen):
        raise Broken("harness returned %d observations for %d scenarios" % (len(obs), len(scen)))
    hb = [o for o in obs if o.get("died") in ("harness", "hung")]
    if hb:
        raise Broken("harness error (%s): %s %s" % (hb[0]["died"], json.dumps(hb[0]["scn"]), hb[0]["err"]))
    return obs, summ


def validate(w, obs, label):
    tf = w.path("strace-%s-%d.ndjson" % (label, len(w.tlc_runs)))
    write_ndjson(tf, [{k: o[k] for k in FIELDS} for o in obs], clamp=True)
    r = w.tlc("SshTrace", TRACE_CFG, env={"VERIF_TRACE": tf}, label="SshTrace-" + label, timeout=3000)
    if not r["completed"]:
        raise Broken("trace validation did not complete: " + r["out"][-3000:])
    return set(i for i, _ in r["rejects"]), r["generated"], r["distinct"]


def what_of(o):
    anon = o["listener"] == "anon"
    if o["admitted"] != o["admit"]:
        return "admitted-unlisted-key" if o["admitted"] else "refused-listed-key"
    if o.get("died"):
        return "daemon-" + o["died"]
    if (anon or not o["admitted"]) and not o["alive"]:
        return "daemon-died"
    if o["admitted"] and anon and (o["canary"] or o["outsideread"] or o["dropped"]):
        return "anon-side-effect"
    if o["admitted"] and anon and o["outcome"] not in ("daemon-protocol", "refused"):
        return "anon-ran-command"
    if o["outcome"] == "daemon-protocol" and not (o["req"] == "exec" and o["both"]):
        return "daemon-protocol-without-flags"
    if o["outcome"] == "daemon-protocol":
        return "wrong-modules"
    return "daemon-unreachable"


def check(w):
    v = Verdict(w, "model_checking")
    quick = w.tier == "quick"
    rnd = random.Random(w.seed)
    r = w.tlc_ok("SshFront", DESIGN_CFG, coverage=True, label="SshFront")
    cov = require_coverage(r, ACTIONS)
    out = w.path("ssh-scen.raw")
    g = w.tlc_ok("SshFront", GEN_CFG, env={"VERIF_OUT": out}, workers=1, label="SshFrontGen")
    allscen = read_ndjson(out)
    if len(allscen) != g["distinct"] or len(allscen) < 5000:
        raise Broken("scenario generation: %d lines for %d initial states" % (len(allscen), g["distinct"]))
    gokr = w.build_repo_cmd()
    if quick:
        scen = []
        line = lambda s: (s.get("prog", "rsync"), tuple(s["base"]), tuple(s["extra"]), tuple(s["paths"]), bool(s.get("noreply")))
        anon_exec, auth_exec, other = {}, {}, []
        for s in allscen:
            if s["req"] != "exec":
                other.append(s)
            elif s["listener"] == "anon":
                anon_exec.setdefault(line(s), []).append(s)
            else:
                auth_exec.setdefault((s["keyfile"], s["key"]), []).append(s)
        for k in sorted(anon_exec):              # every command line of the grammar, anonymous, with some key
            scen.append(rnd.choice(anon_exec[k]))
        for k in sorted(auth_exec):              # every key file x client key: the canonical line and two others
            scen += [s for s in auth_exec[k] if s["canonical"]] + rnd.sample(auth_exec[k], 2)
            if auth_exec[k][0]["admit"]:     # authorised users: the same lines an anonymous peer is refused do run (effectiveness twin)
                scen += [s for s in auth_exec[k] if s["base"] == ["--server", "--sender"] and not s["extra"]] + rnd.sample(auth_exec[k], 10)
        scen += [s for s in other if s["listener"] == "anon"]
        scen += rnd.sample([s for s in other if s["listener"] == "auth"], 40)
        nreal = 48
    else:
        scen = list(allscen)
        nreal = 1200
    scen = [dict(s) for s in scen]
    real = [dict(s, real=True) for s in rnd.sample(allscen, nreal)]
    real += [dict(s, real=True) for s in allscen if s["canonical"] and s["key"] == "unlisted-ed25519" and s["keyfile"] == "one-key"]
    scen += real
    rnd.shuffle(scen)
    for i, s in enumerate(scen):
        s["id"] = i + 1
        s.setdefault("real", False)
    obs, summ = run(w, scen, "all", gokr)
    rej, gen, dist = validate(w, obs, "all")
    confirmed = 0
    if rej:
        byid = {s["id"]: s for s in scen}
        obs2, _ = run(w, [byid[i] for i in sorted(rej)], "confirm", gokr)
        rej2, _, _ = validate(w, obs2, "confirm")
        vlib_unreproduced(v, rej, rej2, "rejected sessions", total=len(obs))
        for o in obs2:
            if o["id"] in rej2:
                confirmed += 1
                s = o["scn"]
                v.violation({"what": what_of(o), "listener": o["listener"], "req": o["req"], "prog_word": "rsync" if s.get("prog", "rsync") == "rsync" else ("path" if s["prog"].startswith("/") else "option-like"), "base": " ".join(s["base"]), "keyfile": s["keyfile"] if o["listener"] == "auth" else "", "real": bool(s.get("real"))},
                            {"scenario": s, "cmd": o.get("cmd"), "admitted": o["admitted"], "outcome": o["outcome"], "first": o.get("first"), "exit": o.get("exit"), "modules": o["modules"],
                             "canary": o["canary"], "outsideread": o["outsideread"], "dropped": o["dropped"], "alive": o["alive"], "events": o.get("events", [])[:6], "err": o.get("err", "")[:600]})
    good = [o for o in obs if o["id"] not in rej]
    bad = []
    for o in rnd.sample(good, min(40, len(good))):
        c = dict(o)
        c["id"] = 10_000_000 + o["id"]
        if not o["admitted"]:
            c["admitted"] = True
            c["outcome"] = "refused"
        elif o["listener"] == "anon":
            how = rnd.choice(["command", "canary", "alive", "drop"])
            if how == "command":
                c["outcome"] = "command"
            elif how == "canary":
                c["canary"] = True
            elif how == "alive":
                c["alive"] = False
            else:
                c["dropped"] = True
        elif o["outcome"] == "daemon-protocol":
            c["modules"] = ["m", "etc"]
        else:
            c["admitted"] = False
        bad.append(c)
    nrej, _, _ = validate(w, bad, "negctl")
    if nrej != {c["id"] for c in bad}:
        raise Broken("negative control: forbidden outcomes accepted by SshTrace: %s" % sorted({c["id"] for c in bad} - nrej)[:5])
    n_anon_refused = sum(1 for o in obs if o["listener"] == "anon" and o["outcome"] == "refused")
    n_daemon = sum(1 for o in obs if o["outcome"] == "daemon-protocol")
    n_denied = sum(1 for o in obs if not o["admitted"])
    n_cmd_auth = sum(1 for o in obs if o["listener"] == "auth" and o["outcome"] == "command")
    if not (n_anon_refused and n_daemon and n_denied and n_cmd_auth):
        raise Broken("vacuous run: anon-refused=%d daemon-protocol=%d handshake-denied=%d authorised-command=%d" % (n_anon_refused, n_daemon, n_denied, n_cmd_auth))
    v.coverage = {
        "states": r["distinct"], "transitions": r["generated"], "traces_validated_against_impl": len(obs), "exhaustive": not quick,
        "samples": [{"listener": o["listener"], "keyfile": o["scn"]["keyfile"], "key": o["scn"]["key"], "req": o["req"], "cmd": o.get("cmd"), "admitted": o["admitted"], "outcome": o["outcome"], "first": o.get("first"), "exit": o.get("exit")} for o in obs[:3] + obs[-2:]],
        "scenarios_from_tlc": len(allscen), "sessions_in_process": len(obs) - len(real), "sessions_real_binary": len(real),
        "anon_refused": n_anon_refused, "daemon_protocol_sessions": n_daemon, "handshakes_denied": n_denied, "authorised_command_sessions": n_cmd_auth,
        "rule": "every scenario is one SSH session (golang.org/x/crypto/ssh client) against the real listener: authorized_keys shapes {empty, blank lines, comments only, one key, several keys with comments}, "
                "client keys {listed/unlisted ed25519, ecdsa, rsa, a certificate merely naming a listed key as CA}, requests {exec, shell, env, subsystem, pty-req, direct-tcpip channel}, "
                "exec command lines = program word {rsync, a path, --daemon, --server, --no-detach, --config=...: the first word is never an option} x 6 option bases x 14 extras (-e/--rsh canary, -a, --help, --version, --gokr.modulemap / --gokr.config naming outside paths, --daemon / --server as the argument of -e, --rsh, --exclude, --filter) x 6 path argument shapes; "
                + ("quick: every anonymous command line, every key file x key pair with the canonical and two random lines, every non-exec anonymous request" if quick else "all %d scenarios" % len(allscen))
                + "; plus a sample driven against the gokr-rsync binary built from the tree (its own namespace/privilege-drop path and maincmd's session closure)",
        "action_coverage": cov, "negative_controls": len(bad), "worker_deaths": summ["crashed"], "confirmed_rejections": confirmed,
    }
    v.assumptions = ["in-process sessions use the same session environment as internal/maincmd's SSH closures (DontRestrict, NoExit); the real-binary sessions run maincmd's own closures, but inside the daemon's mount namespace, where side effects outside the modules cannot be observed",
                     "an accepted request that ends with an error status without writing a byte to the channel counts as refused",
                     "authorised users may run any rsync command line (that is what rsync over ssh does): their sessions are judged on the handshake, on the daemon-protocol rules and on reachability only"]
    return v.finish()
