"""C12 — files are re-sent exactly when the update rule says so; repeat syncs are no-ops."""
import p_recv
import p_sync
from vlib import Broken, Verdict


def sig(o, s):
    subj = next((n for n in o.get("dst", []) if n["p"] == "f"), None)
    want = [r["name"] for r in (s.get("expreqs") or [])]
    got = [r["name"] for r in (o.get("reqs") or [])]
    opts = o.get("opts", {})
    return {"kind": "crash" if str(o.get("err", "")).startswith("CRASHED") else ("error" if o.get("result") != "ok" else "mismatch"),
            "c": opts.get("c"), "I": opts.get("I"),
            "wrongly_requested": sorted(set(got) - set(want)), "wrongly_skipped": sorted(set(want) - set(got)),
            "diff": sorted({d[1] for d in p_recv.diff_paths(o, s) if d[1] in ("content", "type", "missing", "unexpected", "mtime")}),
            "repeat_requests": bool(o.get("reqs2")) and bool(opts.get("t")) and not opts.get("I")}


def check(w):
    v = Verdict(w, "model_checking")
    quick = w.tier == "quick"
    r, cov, scen = p_recv.design_and_generate(w, "c12")
    counts = {"traces": 0, "trace_states": 0}
    chunks = (0, 1, 7) if w.tier == "thorough" else (0,)
    obs, rej = p_recv.run_validate_confirm(w, "c12", scen, "c12", v, counts, sig, chunks=chunks, judge=("reqs", "type", "content", "mtime", "repeat"))
    nneg = p_recv.negative_controls(w, "c12", obs, rej, w.seed)
    # ---- the same decision table with the REAL sender on the other end (library client <-> server over the instrumented
    #      transport, both directions): the requests on the wire must be the specification's (RsyncTrace), the outcome
    #      Expected's (SyncTrace), and with -t (no -I) the immediately repeated sync must re-send nothing.  Half of the
    #      rows get an up-to-date EMPTY file "z" at the destination (what a checksum of no data looks like matters under -c).
    lines = []
    for k, sc in enumerate(scen):
        src = [dict(p=e["name"], **{x: e[x] for x in ("t", "c", "sz", "mt", "perm", "tgt")}, ns=0) for e in sc["list"]]
        dst = [n for n in sc["dst"] if n["p"] != "."]
        if k % 2 == 0:
            dst = dst + [dict(next(n for n in src if n["p"] == "z"))]
        o = sc["opts"]
        rep = o["t"] and not o["I"]
        e2e = {"family": "c12", "universe": sc["universe"], "src": [n for n in src if n["p"] != "."], "dst": dst, "opts": o, "rules": []}
        for arr in (("lib", "libpush") if not quick or k % 3 else ("lib", "libpush", "pull")):
            lines.append(p_sync.mk_line(e2e, arr, ("type", "content") + (("repeat",) if rep else ()), repeat=rep))
    ecounts = {}
    eobs, erej = p_sync.run_validate_confirm(w, "c12", lines, "c12-e2e", v, ecounts, lambda o: {"kind": "e2e-" + ("error" if o["result"] != "ok" else "mismatch"), "arr": o["arr"],
                                                                                             "c": o["opts"].get("c"), "I": o["opts"].get("I"), "resent_on_repeat": bool(o.get("resent2"))})
    nontriv = len({(json_key(o)) for o in obs if o["reqs"]})
    v.coverage = {
        "states": r["distinct"], "transitions": r["generated"],
        "traces_validated_against_impl": counts["traces"], "trace_states": counts["trace_states"],
        "exhaustive": True,
        "samples": [{"dst_f": next((n for n in o["dst"] if n["p"] == "f"), None), "opts": o["opts"], "recv": o["recv"],
                     "requests": o["reqs"], "result": o["result"]} for o in obs[:3]],
        "decision_table_rows": len(scen), "receivers": ["client", "daemon"],
        "evaluations": len(obs), "distinct_nontrivial": nontriv,
        "repeat_sessions": sum(1 for o in obs if o.get("result2")),
        "rule": "one row of the decision table {f missing / dir, symlink, fifo in the way / regular with size, mtime(+-1 s, sub-second, far), content} x {-c, -I, -t}, "
                "embedded in a tree with an up-to-date and a missing sibling, each followed by the same session again (with -t it must request nothing); non-trivial = the receiver requested at least one file",
        "action_coverage": cov, "negative_controls": nneg, "worker_crashes": counts.get("crashed", 0),
        "end_to_end_rows_with_the_real_sender": len(eobs),
    }
    v.coverage.update(p_sync.wire_coverage(ecounts))
    v.coverage["traces_validated_against_impl"] += len(eobs)
    v.assumptions = ["content ids stand for byte contents (distinct ids = distinct pseudo-random contents, equal sizes where the row says so)",
                     "the reference sender (wirekit) answers every request with a correct delta"]
    return v.finish()


def json_key(o):
    import json
    return json.dumps([o["dst"], o["opts"], o["recv"]], sort_keys=True)
