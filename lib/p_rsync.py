"""The composed session specification Rsync.tla (handshake, rules, file list, delete pass,
generator || sender || receiver, statistics, goodbye = RecvSide /\\ Session with file identity):
design-level model checking and ACTION-LEVEL validation of complete real sessions (library
client <-> server over the instrumented transport, pull and push) against RsyncTrace.tla."""
import json
import random

import p_recv
from vlib import Broken, read_ndjson, write_ndjson, require_coverage

INVARIANTS = ("Confluent DryRunNoChange NoCollateralDelete DeleteComplete ContentIdentical RepeatIsNoOp FilterExact "
              "CleanEnd ChannelsBounded IndexPairing NoDataUnderN RequestsFollowRule")
PROPERTIES = "RefinesRecvSide CommitOnlyVerified Termination"
SECOND = 5_000_000      # id offset of the transcript of a repeated run
ACTIONS = ["SndHandshake", "SndList", "SndLoop", "MainHandshake", "MainList", "MainDelete", "MainJoin", "MainEnd",
           "GenEntry", "GenSums", "GenMarkers", "RcvRead", "RcvToks", "RcvCommit"]


def design_cfg(fam, capup, capdown, liveness=True, mutant=False, modes='{"cmd"}', orders='{"asc", "desc"}'):
    u, p = p_recv.FAMILIES[fam]
    c = ("SPECIFICATION RSpec\nCONSTANTS\n  Family = \"%s\"\n  Universe <- %s\n  ParentMap <- %s\n  BaseMap <- BaseAll\n  MaxRules = 1\n"
         "  CapUp = %d\n  CapDown = %d\n  Modes = %s\n  ListOrders = %s\n  RcvAfterGen = %s\nINVARIANTS %s\nPROPERTIES %s\nCHECK_DEADLOCK TRUE\n" % (
             fam[:3], u, p, capup, capdown, modes, orders, "TRUE" if mutant else "FALSE", INVARIANTS, PROPERTIES if liveness else "RefinesRecvSide CommitOnlyVerified"))
    return c


def design(w, caps=((0, 0), (1, 1), (2, 3)), fam="rs", any_order_at=None):
    """Model-check Rsync.tla on a scenario family for several channel capacities."""
    runs = []
    for k, (cu, cd) in enumerate(caps):
        # the daemon greeting exchange (both ends write before they read) needs a buffering transport: capacity >= 1
        modes = '{"cmd"}' if 0 in (cu, cd) else '{"cmd", "daemon"}'
        orders = '{"any"}' if any_order_at == (cu, cd) else '{"asc", "desc"}'
        r = w.tlc_ok("MCRsync", design_cfg(fam, cu, cd, modes=modes, orders=orders), coverage=(k == 0), label="Rsync-%s-cap%d_%d" % (fam, cu, cd), timeout=3000)
        if k == 0:
            r["cov"] = require_coverage(r, ACTIONS)
        runs.append(r)
    # control: the mutant whose receiver starts only after the generator has finished must deadlock at capacity 0
    m = w.tlc("MCRsync", design_cfg(fam, 0, 0, liveness=False, mutant=True), label="Rsync-%s-mutant" % fam, timeout=3000)
    if not m["deadlock"]:
        raise Broken("Rsync.tla: the sequential-receiver mutant does not deadlock at capacity 0 - the model cannot tell")
    # ... and the daemon greeting exchange over zero-capacity pipes cannot start (design fact, stated in Rsync.tla)
    d = w.tlc("MCRsync", design_cfg(fam, 0, 0, liveness=False, modes='{"daemon"}'), label="Rsync-%s-daemon-cap0" % fam, timeout=3000)
    if not d["deadlock"]:
        raise Broken("Rsync.tla: the daemon greeting exchange does not deadlock at capacity 0 - the channel model is wrong")
    return runs


def trace_cfg(fam):
    u, p = p_recv.FAMILIES[fam]
    basemap = "Bconc" if fam == "conc" else "BaseAll"
    return ("SPECIFICATION TSpec\nCONSTANTS\n  Family = \"%s\"\n  Universe <- %s\n  ParentMap <- %s\n  BaseMap <- %s\n  MaxRules = 0\n"
            "  CapUp = 1000000\n  CapDown = 1000000\n  Modes = {\"cmd\", \"daemon\"}\n  ListOrders = {\"any\"}\n  RcvAfterGen = FALSE\nCHECK_DEADLOCK TRUE\n" % (fam[:3], u, p, basemap))


def slim_nodes(nodes):
    return [{k: n.get(k, 0 if k not in ("p", "t", "tgt") else "") for k in ("p", "t", "c", "sz", "mt", "ns", "perm", "tgt", "uid", "gid")} for n in nodes]


def rows_of(obs):
    """Trace rows from sync observations that carry a complete transcript."""
    rows = []
    for o in obs:
        fw = o.get("fullwire")
        if not fw:
            continue
        judge = [j for j in o["judge"] if j not in ("peers", "repeat")]
        rows.append({"id": o["id"], "dir": fw["dir"], "mode": fw.get("mode", "cmd"), "events": fw["events"], "parse_err": fw.get("err", ""),
                     "src": slim_nodes(o["src"]), "dst": slim_nodes(o["dst"]), "final": slim_nodes(o["final"]), "extra": o["extra"],
                     "result": o["result"], "opts": o["opts"], "rules": o["rules"], "judge": judge, "ioerr": o.get("ioerr", 0)})
        fw2 = o.get("fullwire2")
        if fw2 and o.get("result2") == "ok":
            # the immediately repeated run: the same specification, started from the destination the first run left
            # (so its requests are exactly what the update rule says about THAT tree - none with -t)
            rows.append({"id": SECOND + o["id"], "dir": fw2["dir"], "mode": fw2.get("mode", "cmd"), "events": fw2["events"], "parse_err": fw2.get("err", ""),
                         "src": slim_nodes(o["src"]), "dst": slim_nodes(o["final"]), "final": slim_nodes(o["final2"]), "extra": o["extra"],
                         "result": "ok", "opts": o["opts"], "rules": o["rules"], "judge": judge, "ioerr": o.get("ioerr", 0)})
    return rows


def validate(w, fam, rows, label):
    """Returns ({rejected id: events explained before the rejection}, generated, distinct)."""
    if not rows:
        return {}, 0, 0
    bad = {r["id"]: 0 for r in rows if r["parse_err"]}          # the transcript does not even parse as protocol 27
    ok = [r for r in rows if not r["parse_err"]]
    tf = w.path("rstrace-%s-%d.ndjson" % (label, len(w.tlc_runs)))
    write_ndjson(tf, ok, clamp=True)
    r = w.tlc("MCRsyncTrace", trace_cfg(fam), env={"VERIF_TRACE": tf}, label="RsyncTrace-" + label, timeout=3000)
    if not r["completed"]:
        raise Broken("RsyncTrace validation did not complete: " + r["out"][-3000:])
    rej = dict(r["rejects"])
    rej.update(bad)
    return rej, r["generated"], r["distinct"]


def corrupt(row, rnd):
    """Negative control: damage a transcript so that RsyncTrace must reject it."""
    c = json.loads(json.dumps(row))
    c["id"] = 20_000_000 + row["id"]
    ev = c["events"]
    kinds = ["swap", "drop", "final"]
    idx = [i for i, e in enumerate(ev) if e["item"] == "idx"]
    ents = [i for i, e in enumerate(ev) if e["item"] == "ent" and e["t"] == "reg"]
    toks = [i for i, e in enumerate(ev) if e["item"] == "tok"]
    if idx:
        kinds.append("idx")
    if ents:
        kinds.append("ent")
    if toks:
        kinds.append("tok")
    args = [i for i, e in enumerate(ev) if e["item"] == "args"]
    if args:
        kinds += ["args", "args"]
    how = rnd.choice(kinds)
    if how == "swap":          # the goodbye before the second phase marker's acknowledgement / statistics
        i = max(i for i, e in enumerate(ev) if e["item"] == "bye")
        j = max(i2 for i2, e in enumerate(ev) if e["item"] == "ack" and e["f"] == 2)
        ev[i], ev[j] = ev[j], ev[i]
    elif how == "drop":
        del ev[rnd.randrange(len(ev))]
    elif how == "idx":         # a request for an entry the update rule does not select (or out of order)
        i = rnd.choice(idx)
        ev[i]["f"] += 1
    elif how == "ent":
        ev[rnd.choice(ents)]["sz"] += 1
    elif how == "args":        # an option does not reach the server (or one reaches it that the user did not give)
        k = rnd.choice(["r", "l", "p", "t", "dv", "sp", "c", "I", "n", "del"])
        ev[args[0]]["sopts"][k] = not ev[args[0]]["sopts"][k]
    elif how == "tok":
        ev[rnd.choice(toks)]["lit"] += 1
    else:
        leaves = [n for n in c["final"] if n["p"] != "." and not any(x["p"].startswith(n["p"] + "/") for x in c["final"])]
        if leaves:
            c["final"].remove(rnd.choice(leaves))
        else:
            c["result"] = "err"
    c["how"] = how
    return c


def negative_controls(w, fam, rows, rej, seed, n=24):
    rnd = random.Random(seed + 11)
    good = [r for r in rows if r["id"] not in rej and not r["parse_err"] and len(r["events"]) > 8]
    if len(good) < 4:
        raise Broken("too few accepted transcripts (%d) for negative controls" % len(good))
    bad = [corrupt(r, rnd) for r in rnd.sample(good, min(n, len(good)))]
    nrej, _, _ = validate(w, fam, bad + good[:3], "negctl")
    miss = [(c["id"], c["how"]) for c in bad if c["id"] not in nrej]
    if miss:
        raise Broken("negative control: damaged transcripts accepted by RsyncTrace: %s" % miss[:5])
    if set(nrej) & {g["id"] for g in good[:3]}:
        raise Broken("negative control: intact transcripts rejected")
    return len(bad)
