"""C18 — sessions terminate and do not interfere under any interleaving."""
import hashlib
import json
import random

import p_rsync

from vlib import clip as vclip
from vlib import Broken, Verdict, read_ndjson, write_ndjson, require_coverage

TRACE_CFG = "SPECIFICATION Spec\nCHECK_DEADLOCK TRUE\n"
STEPS = ["GenStep", "SndStep", "RcvStep", "MainStep"]


def cfg(nf, ns, nt, cu, cd, split=True, errors=False):
    return ("SPECIFICATION %s\nCONSTANTS\n NF = %d\n NSums = %d\n NToks = %d\n CapUp = %d\n CapDown = %d\n SplitGenRcv = %s\n"
            "INVARIANTS ChannelsBounded CleanEnd\nPROPERTY Termination\nCHECK_DEADLOCK TRUE\n" % ("Spec" if errors else "SpecOK", nf, ns, nt, cu, cd, "TRUE" if split else "FALSE"))


def mixes():
    def reg(p, c, sz, mt=1000):
        return {"p": p, "t": "reg", "c": c, "sz": sz, "mt": mt, "ns": 0, "perm": 0o644, "tgt": ""}
    tiny = [reg("t%03d" % i, 1000 + i, 1 + i % 9) for i in range(150)]
    lit = [reg("big", 7, 2 * 1048576 + 333)]
    sums_src = [reg("big", 8, 2 * 1048576 + 333)]
    sums_dst = [reg("big", 9, 2 * 1048576 + 333, mt=900)]     # same size, unrelated content: a huge checksum list and a huge literal
    mixed = tiny[:40] + [reg("m1", 20, 300000), reg("m2", 21, 700)]
    mixed_dst = [reg("m1", 22, 300000, mt=900)]
    # many files that each exist on the receiving side as an earlier version (one local change): for every one of them the
    # generator reads the old copy to compute checksums while the receiver reads old copies of EARLIER files to apply
    # block references -- the two halves of the receiving side work on different files at the same time
    delta_src = [reg("v%02d" % i, 300 + i, 120000 + 20011 * (i % 7)) for i in range(16)]
    delta_dst = [dict(reg("v%02d" % i, 400 + i, 120000 + 20011 * (i % 7), mt=900), of=300 + i, ofsz=120000 + 20011 * (i % 7), ed="rep:%d:%d" % (5000 + 777 * i, 64))
                 for i in range(16)]
    # entries of other types in the way of regular files (a named pipe nobody writes to, a socket, symlinks - dangling and
    # to a directory -, a directory): making room for them must not block on them
    def other(p, t, tgt=""):
        return {"p": p, "t": t, "c": 0, "sz": 0, "mt": 900, "ns": 0, "perm": 0o644 if t != "dir" else 0o755, "tgt": tgt}
    inway_src = [reg("w%d" % i, 500 + i, 3000 + 700 * i) for i in range(7)]
    inway_dst = [other("w0", "fifo"), other("w1", "lnk", "nowhere"), other("w2", "dir"), other("w3", "sock"), other("w4", "lnk", "w2"), reg("w5", 507, 3000 + 700 * 5, mt=900)]
    return {"tiny": (tiny, []), "literal": (lit, []), "sums": (sums_src, sums_dst), "mixed": (mixed, mixed_dst), "delta": (delta_src, delta_dst), "inway": (inway_src, inway_dst)}


WIRE_CFG = "SPECIFICATION WSpec\nCONSTANTS\n NF = %d\n NSums = 1\n NToks = 1\n CapUp = %d\n CapDown = %d\n SplitGenRcv = TRUE\nCHECK_DEADLOCK FALSE\n"


def capclass(c):
    return 0 if c == -2 else 1000


def wire_validate(w, wtraces, label):
    """Action-level validation: one TLC run of SessionWire per (NF, capacity class) group."""
    tf = w.path("c18-wire-%s.ndjson" % label)
    write_ndjson(tf, wtraces, clamp=True)
    rej, gen, dist, runs = {}, 0, 0, 0
    for nf, cu, cd in sorted({(t["nf"], t["cu"], t["cd"]) for t in wtraces}):
        r = w.tlc("SessionWire", WIRE_CFG % (nf, cu, cd), env={"VERIF_TRACE": tf}, workers=1, label="SessionWire-%s-%d-%d-%d" % (label, nf, cu, cd), timeout=1800)
        if not r["completed"]:
            raise Broken("SessionWire validation did not complete: " + r["out"][-3000:])
        for i, l in r["rejects"]:
            rej[i] = l
        gen += r["generated"]
        dist += r["distinct"]
        runs += 1
    return rej, gen, dist, runs


def wire_traces(lines, byid):
    out = []
    for ln in lines:
        if not ln.get("wire"):
            continue
        o = byid[ln["id"]]
        if o.get("result") != "ok":
            continue                       # judged by SessionTrace (termination, result)
        wi = o.get("wire")
        if not wi:
            raise Broken("no action-level trace for scenario %d" % ln["id"])
        if wi.get("err"):
            raise Broken("the recorded streams of scenario %d could not be parsed into Session items: %s" % (ln["id"], wi["err"]))
        if wi["nf"] < 1:
            continue
        out.append({"id": ln["id"], "nf": wi["nf"], "cu": capclass(ln.get("capup", 0)), "cd": capclass(ln.get("capdown", 0)), "events": wi["events"]})
    return out


def digest(o):
    nodes = sorted((n["p"], n["t"], n.get("c"), n.get("sz"), n.get("tgt")) for n in o.get("final") or [])
    return hashlib.sha1(json.dumps([nodes, sorted(o.get("extra") or [])]).encode()).hexdigest()[:16]


def check(w):
    v = Verdict(w, "model_checking")
    quick = w.tier == "quick"
    rnd = random.Random(w.seed)
    # ---- 1. design level: termination and deadlock freedom for every capacity pair; error paths
    states = trans = 0
    pairs = [(0, 0), (1, 1), (2, 3), (64, 64), (0, 64), (64, 0), (1, 64), (64, 1)]
    for cu, cd in pairs:
        r = w.tlc_ok("Session", cfg(3, 2, 2, cu, cd), coverage=(cu, cd) == (2, 3), label="Session-%d-%d" % (cu, cd))
        states += r["distinct"]
        trans += r["generated"]
        if (cu, cd) == (2, 3):
            cov = require_coverage(r, STEPS)
    for cu, cd in [(0, 0), (1, 2), (64, 64)]:
        r = w.tlc_ok("Session", cfg(2, 1, 1, cu, cd, errors=True), coverage=(cu == 1), label="Session-errors-%d-%d" % (cu, cd))
        states += r["distinct"]
        trans += r["generated"]
        if cu == 1:
            cov.update(require_coverage(r, ["Fail", "TearDown"]))
    # discrimination control: a receiver that starts only after the generator must deadlock with small buffers
    m = w.tlc("Session", cfg(3, 2, 2, 0, 0, split=False), label="Session-mutant")
    if not m["deadlock"]:
        raise Broken("the Session model does not separate a schedule-dependent deadlock (mutant passes at capacity 0)")
    # ---- 2. the real code over transports of every capacity class
    caps = [-2, 1, 17, 65536, 0]        # rendezvous, 1 byte, small, 64 KiB, unbounded
    mx = mixes()
    uni = sorted({n["p"] for s, d in mx.values() for n in s + d} | {"."})
    lines = []
    for name, (src, dst) in mx.items():
        for arr in ("lib", "libpush"):
            base = {"family": "c18", "universe": uni, "src": src, "dst": dst, "flags": ["-rt"], "arr": arr, "form": "slash", "judge": [], "echo": {"mix": name}}
            lines.append(dict(base, group=(name, arr), baseline=True))
            for cu in caps:
                for cd in caps:
                    if quick and rnd.random() < 0.5 and (cu, cd) not in ((-2, -2), (1, 1), (-2, 0), (0, -2)):
                        continue
                    chunk = rnd.choice([0, 0, 7, 4096]) if name in ("literal", "sums") else rnd.choice([0, 1, 3, 4096])
                    lines.append(dict(base, capup=cu, capdown=cd, chunk=chunk, jitter=rnd.randrange(1, 1 << 30), group=(name, arr), wire=(arr == "lib")))
        lines.append({"family": "c18", "universe": uni, "src": src, "dst": dst, "flags": ["-rt"], "arr": "local", "form": "slash", "judge": [], "echo": {"mix": name}, "group": (name, "lib")})
        # a fault in the middle of the transfer, with buffers too small to hold what is still in flight
        for arr in ("lib", "libpush"):
            for cu, cd in ((-2, -2), (1, 17), (17, 1), (65536, 65536), (0, 0)):
                for flip in ([400, 3000] if name == "tiny" else [5000, 300000, 1500000]):
                    if quick and (name in ("literal", "sums") and flip != 300000 or rnd.random() < 0.5):
                        continue
                    lines.append({"family": "c18", "universe": uni, "src": src, "dst": dst, "flags": ["-rt"], "arr": arr, "form": "slash", "judge": [], "echo": {"mix": name},
                                  "capup": cu, "capdown": cd, "flip": flip, "jitter": rnd.randrange(1, 1 << 30), "group": (name, arr), "fault": True})
    for i, ln in enumerate(lines):
        ln["id"] = i + 1
    sf, of = w.path("c18-scen.ndjson"), w.path("c18-obs.ndjson")
    write_ndjson(sf, [{k: x for k, x in ln.items() if k not in ("group", "baseline", "fault")} for ln in lines])
    summ = w.run_harness("sync", sf, of, case_timeout=300)
    raw = read_ndjson(of)
    byid = {}
    for o in raw:
        if "final" in o and "id" in o:
            byid[o["id"]] = o
        else:
            scn = o.get("scn") or {}
            byid[scn.get("id", -1)] = {"id": scn.get("id", -1), "result": "crashed" if o.get("crashed") else "hung", "err": vclip(o.get("stderr"), 1500), "final": [], "extra": []}
    base_digest = {}
    for ln in lines:
        if ln.get("baseline"):
            o = byid[ln["id"]]
            if o["result"] != "ok":
                # the plain run (unbounded transport, no chunking) is a transfer like any other: it must succeed.  It is judged
                # below as a capacity run (result ok required); the runs of its group are then judged on termination and result only
                base_digest[tuple(ln["group"])] = None
                continue
            base_digest[tuple(ln["group"])] = digest(o)
    if all(d is None for d in base_digest.values()):
        raise Broken("every baseline run failed: %s" % str(byid[lines[0]["id"]].get("err"))[:500])
    traces = []
    for ln in lines:
        o = byid[ln["id"]]
        err = str(o.get("err") or "")
        traces.append({"id": ln["id"], "kind": "caperr" if ln.get("fault") else "cap", "hung": err.startswith("HUNG") or o["result"] == "hung", "result": o["result"], "digest": digest(o),
                       "basedigest": base_digest[tuple(ln["group"])] or ("no-baseline" if ln.get("baseline") else digest(o)), "race": False, "solook": True, "results": [], "equal": [],
                       "_err": err[:2500], "_scn": {k: ln.get(k) for k in ("arr", "capup", "capdown", "chunk", "jitter", "flip")}, "_mix": ln["echo"]["mix"]})
    # ---- 3. concurrent sessions against one daemon under the race detector
    race_bin = w.build(race=True)
    conc = []
    ns = [2, 8] if quick else [2, 8, 32]
    for n in ns:
        for kind in ("pull", "push", "mixed"):
            for same in (False, True):
                for procs in ((1, 16) if quick else (1, 2, 16)):
                    if quick and rnd.random() < 0.6:
                        continue
                    conc.append({"n": n, "kind": kind, "same": same, "procs": procs, "wire": not same})
    # destinations that hold earlier versions of the larger files: delta transfers with block references, many at once
    for n, kind, procs in ((2, "pull", 16), (8, "mixed", 16), (2, "push", 1)) if quick else ((2, "pull", 16), (2, "push", 16), (8, "mixed", 16), (8, "mixed", 2), (2, "pull", 1), (2, "push", 1), (32, "mixed", 16)):
        conc.append({"n": n, "kind": kind, "same": False, "procs": procs, "wire": False, "prior": True})
    if not any(c.get("wire") for c in conc):
        conc.append({"n": 8, "kind": "mixed", "same": False, "procs": 16, "wire": True})
    if not conc:
        conc = [{"n": 8, "kind": "mixed", "same": True, "procs": 16}]
    conc.append({"n": 8, "kind": "mixed", "same": True, "procs": 16})
    for i, c in enumerate(conc):
        c["id"] = 100000 + i
    cf, cof = w.path("c18-conc.ndjson"), w.path("c18-conc-obs.ndjson")
    write_ndjson(cf, conc)
    csumm = w.run_harness("conc", cf, cof, workers=4, binary=race_bin, extra_env={"GORACE": "halt_on_error=1", "RSVERIF_WORKER_PROCS": "16"}, case_timeout=600)
    conc_rows = []
    OPTS_RLT = {"r": True, "l": True, "p": False, "t": True, "dv": False, "sp": False, "c": False, "I": False, "n": False, "del": False}
    for o in read_ndjson(cof):
        if "results" in o and "id" in o:
            # every session of a distinct-target scenario carries its own complete transcript (tap proxy per session)
            for cs in o.get("sessions") or []:
                fw = cs.get("fullwire")
                if cs["result"] != "ok" or not fw:
                    continue
                conc_rows.append({"id": o["id"] * 100 + cs["i"], "dir": fw["dir"], "mode": fw.get("mode", "daemon"), "events": fw["events"], "parse_err": fw.get("err", ""),
                                  "src": p_rsync.slim_nodes(o["src"]), "dst": p_rsync.slim_nodes([n for n in o["src"] if n["p"] == "."]), "final": p_rsync.slim_nodes(cs["final"]), "extra": [],
                                  "result": "ok", "opts": OPTS_RLT, "rules": [], "judge": ["type", "content", "target"], "ioerr": 0})
            traces.append({"id": o["id"], "kind": "conc", "hung": False, "result": "", "digest": "", "basedigest": "", "race": False, "solook": o["solook"], "results": o["results"], "equal": o["equal"],
                           "_err": o.get("diff", ""), "_scn": {k: o.get(k) for k in ("n", "kind", "same", "procs", "prior")}, "_mix": "conc"})
        else:
            scn = o.get("scn") or {}
            st = o.get("stderr") or ""
            traces.append({"id": scn.get("id", -1), "kind": "conc", "hung": bool(o.get("hung")), "result": "", "digest": "", "basedigest": "", "race": "DATA RACE" in st, "solook": False, "results": [], "equal": [],
                           "_err": st[-2500:], "_scn": scn, "_mix": "conc"})
    tf = w.path("c18-trace.ndjson")
    write_ndjson(tf, [{k: x for k, x in t.items() if not k.startswith("_")} for t in traces], clamp=True)
    r = w.tlc("SessionTrace", TRACE_CFG, env={"VERIF_TRACE": tf}, label="SessionTrace", timeout=3000)
    if not r["completed"]:
        raise Broken("trace validation did not complete: " + r["out"][-3000:])
    rej = set(i for i, _ in r["rejects"])
    if rej:
        # confirmation: re-run the rejected cases; concurrency failures are races and need not recur identically
        cap_again = [ln for ln in lines if ln["id"] in rej]
        confirmed = []
        if cap_again:
            write_ndjson(w.path("c18-again.ndjson"), [{k: x for k, x in ln.items() if k not in ("group", "baseline", "fault")} for ln in cap_again])
            w.run_harness("sync", w.path("c18-again.ndjson"), w.path("c18-again-obs.ndjson"), case_timeout=300)
            for o in read_ndjson(w.path("c18-again-obs.ndjson")):
                oid = o.get("id", (o.get("scn") or {}).get("id"))
                t = next(x for x in traces if x["id"] == oid)
                if t["kind"] == "caperr":
                    ok = not str(o.get("err") or "").startswith("HUNG") and o.get("result") in ("ok", "err")
                else:
                    ok = o.get("result") == "ok" and (t["basedigest"] == "no-baseline" or digest(o) == t["basedigest"])
                if not ok:
                    confirmed.append(t)
            if not confirmed:
                if len(cap_again) > max(3, len(lines) // 1000):
                    raise Broken("rejected capacity runs passed on re-run (no verdict): ids %s" % sorted(i for i in rej if i < 100000)[:10])
                v.notes.append("%d rejected capacity run(s) passed on re-run and were dropped (no verdict from them): ids %s" % (len(cap_again), sorted(ln["id"] for ln in cap_again)[:10]))
        for t in [x for x in traces if x["id"] in rej and x["kind"] == "conc"]:
            confirmed.append(t)        # a recorded race report / wrong result of a real run is its own evidence
        for t in confirmed:
            what = "hang" if t["hung"] else "race" if t["race"] else ("interference" if t["kind"] == "conc" else "failure")
            sig = {"what": what, "kind": t["kind"], "mix": t["_mix"]}
            if t["kind"] in ("cap", "caperr"):
                sig["arr"] = t["_scn"]["arr"]
            v.violation(sig, {"scenario": t["_scn"], "result": t["result"], "evidence": t["_err"], "results": t["results"], "equal": t["equal"]})
    # ---- 3b. NonInterference at the wire: the transcript of EVERY concurrent session must be a behaviour of the composed
    #          specification Rsync.tla on its own (a solo behaviour), validated action by action (RsyncTrace.tla)
    if len(conc_rows) < 4:
        raise Broken("only %d transcripts of concurrent sessions recorded" % len(conc_rows))
    crej, _, cdist = p_rsync.validate(w, "conc", conc_rows, "conc")
    for row in conc_rows:
        if row["id"] in crej:
            k = crej[row["id"]]
            ev = row["events"]
            v.violation({"what": "interference-wire", "kind": "conc", "mix": "conc"},
                        {"session": row["id"] % 100, "scenario_id": row["id"] // 100, "dir": row["dir"], "parse_error": row["parse_err"], "events_explained": max(0, k - 1),
                         "first_unexplained": ev[k - 1] if 0 < k <= len(ev) else "end of session / final tree"})
    cneg = p_rsync.negative_controls(w, "conc", conc_rows, crej, w.seed, n=8)
    # negative controls
    good = [t for t in traces if t["id"] not in rej]
    bad = []
    for t in rnd.sample(good, min(20, len(good))):
        c = {k: x for k, x in t.items() if not k.startswith("_")}
        c["id"] = 10_000_000 + t["id"]
        if c["kind"] in ("cap", "caperr"):
            c["hung"] = True
        else:
            c["race"] = True
        bad.append(c)
    tf2 = w.path("c18-negctl.ndjson")
    write_ndjson(tf2, bad, clamp=True)
    r2 = w.tlc("SessionTrace", TRACE_CFG, env={"VERIF_TRACE": tf2}, label="SessionTrace-negctl")
    if set(i for i, _ in r2["rejects"]) != {c["id"] for c in bad}:
        raise Broken("negative control: hangs/races accepted by SessionTrace")
    # ---- 4. action-level validation of the pull sessions against Session.tla (SessionWire)
    wtr = wire_traces(lines, byid)
    if len(wtr) < 10:
        raise Broken("only %d action-level traces recorded" % len(wtr))
    wrej, wgen, wdist, wruns = wire_validate(w, wtr, "all")
    if wrej:
        again = [ln for ln in lines if ln["id"] in wrej]
        write_ndjson(w.path("c18-wire-again.ndjson"), [{k: x for k, x in ln.items() if k not in ("group", "baseline", "fault")} for ln in again])
        w.run_harness("sync", w.path("c18-wire-again.ndjson"), w.path("c18-wire-again-obs.ndjson"), case_timeout=300)
        byid2 = {o["id"]: o for o in read_ndjson(w.path("c18-wire-again-obs.ndjson")) if "id" in o and "final" in o}
        wtr2 = wire_traces([ln for ln in again if ln["id"] in byid2], byid2)
        wrej2 = wire_validate(w, wtr2, "confirm")[0] if wtr2 else {}
        if not wrej2:
            if len(wrej) > max(3, len(wtr) // 1000):
                raise Broken("action-level rejections not reproduced on re-run: %s" % sorted(wrej)[:8])
            v.notes.append("%d action-level rejection(s) did not reproduce on re-run and were dropped (no verdict from them): %s" % (len(wrej), sorted(wrej)[:8]))
        for t in wtr2:
            if t["id"] in wrej2:
                ln = next(x for x in lines if x["id"] == t["id"])
                k = wrej2[t["id"]]
                v.violation({"what": "action-order", "kind": "cap", "arr": "lib", "mix": ln["echo"]["mix"], "item": t["events"][k - 1]["item"] if 0 < k <= len(t["events"]) else "end"},
                            {"scenario": {x: ln.get(x) for x in ("arr", "capup", "capdown", "chunk", "jitter")}, "rejected_at_event": k,
                             "events_around": t["events"][max(0, k - 6):k + 2], "note": "the logged put is not enabled in Session.tla after the eager silent steps"})
    # negative controls for SessionWire: swapped causally ordered events; a run-ahead trace relabelled as rendezvous
    wgood = [t for t in wtr if t["id"] not in wrej]
    wbad = []
    for t in rnd.sample(wgood, min(12, len(wgood))):
        ev = [dict(e) for e in t["events"]]
        how = rnd.choice(["ack", "stats", "ans"])
        pos = {(e["ch"], e["item"], e["f"]): k for k, e in enumerate(ev)}
        if how == "ack":
            i, j = pos[("up", "m", 1)], pos[("down", "ack", 1)]
        elif how == "stats":
            i, j = pos[("down", "stats", 0)], pos[("up", "bye", 0)]
        else:
            f = rnd.randrange(1, t["nf"] + 1)
            i, j = pos[("up", "sum", f)], pos[("down", "ans", f)]
        ev[i], ev[j] = ev[j], ev[i]
        wbad.append(dict(t, id=20_000_000 + t["id"], events=ev))
    ahead = [t for t in wgood if t["cu"] == 1000 and t["nf"] >= 2 and
             next(k for k, e in enumerate(t["events"]) if e["item"] == "idx" and e["f"] == 2) < next(k for k, e in enumerate(t["events"]) if e["item"] == "ans" and e["f"] == 1)]
    for t in ahead[:3]:
        wbad.append(dict(t, id=30_000_000 + t["id"], cu=0))
    nrej = wire_validate(w, wbad, "negctl")[0]
    if set(nrej) != {t["id"] for t in wbad}:
        raise Broken("negative control: causally impossible event orders accepted by SessionWire: %s" % sorted({t["id"] for t in wbad} - set(nrej))[:5])
    capt = [t for t in traces if t["kind"] in ("cap", "caperr")]
    conct = [t for t in traces if t["kind"] == "conc"]
    v.coverage = {
        "states": states, "transitions": trans, "traces_validated_against_impl": len(traces), "exhaustive": False,
        "samples": [{"scenario": t["_scn"], "mix": t["_mix"], "result": t["result"], "hung": t["hung"]} for t in capt[:3]] + [{"scenario": t["_scn"], "results": t["results"][:4], "equal": t["equal"][:4], "race": t["race"]} for t in conct[:2]],
        "concurrent_transcripts_validated": len(conc_rows), "concurrent_transcript_states": cdist, "concurrent_transcript_negative_controls": cneg,
        "capacity_pairs_model_checked": pairs, "capacity_runs": len(capt), "fault_runs": sum(1 for t in capt if t["kind"] == "caperr"), "concurrent_scenarios": len(conct), "concurrent_sessions": sum(len(t["results"]) for t in conct),
        "evaluations": len(traces), "distinct_nontrivial": sum(1 for t in capt if t["_scn"].get("capup") in (-2, 1, 17) or t["_scn"].get("capdown") in (-2, 1, 17)) + len(conct),
        "rule": "cap: a real client <-> real server transfer (library pull and push; local copy over io.Pipe) over a transport with capacity {rendezvous, 1 B, 17 B, 64 KiB, unbounded} per direction, read chunking {1, 3, 7, 4096 B} and random yields, "
                "on trees of 150 tiny files / a 2 MiB literal / a 2 MiB file with a full checksum list / a mix / 16 files that each exist as an earlier version (block references) / files with a fifo, socket, symlinks and a directory in their way; conc: 2..32 simultaneous pulls, pushes or both against one daemon, distinct and identical targets, empty destinations and destinations holding earlier versions, GOMAXPROCS 1/2/16, race detector on; "
                "non-trivial = a bounded capacity in at least one direction, or a concurrent scenario",
        "action_coverage": cov, "negative_controls": len(bad) + len(wbad), "mutant_deadlocks_in_model": True,
        "action_level_traces": len(wtr), "action_level_events": sum(len(t["events"]) for t in wtr), "action_level_rendezvous_traces": sum(1 for t in wtr if t["cu"] == 0 or t["cd"] == 0),
        "action_level_run_ahead_traces": len(ahead), "action_level_tlc_runs": wruns, "action_level_states": wdist,
    }
    v.assumptions = ["a hang is reported only when no byte moved on the transport for 3 s and the session had not finished (goroutine dump attached)",
                     "action-level validation (SessionWire) covers the pull arrangement and logs puts only: both ends read through bufio, so the moment an item is consumed is not observable; byte capacities > 0 are validated against an unbounded channel, rendezvous against capacity 0"]
    return v.finish()
