"""C07 — read-only modules are never modified."""
import json
import random

from vlib import unreproduced as vlib_unreproduced, Broken, Verdict, read_ndjson, write_ndjson, require_coverage

TRACE_CFG = "SPECIFICATION Spec\nCHECK_DEADLOCK TRUE\n"
ACTIONS = ["Greet", "SelectModule", "CheckAcl", "ParseArgs", "Gate", "Session"]


def validate(w, obs, label):
    tf = w.path("dtrace-%s-%d.ndjson" % (label, len(w.tlc_runs)))
    write_ndjson(tf, [{k: o[k] for k in ("id", "kind", "changed", "refused", "requests")} for o in obs], clamp=True)
    r = w.tlc("DaemonTrace", TRACE_CFG, env={"VERIF_TRACE": tf}, label="DaemonTrace-" + label, timeout=3000)
    if not r["completed"]:
        raise Broken("trace validation did not complete: " + r["out"][-3000:])
    return set(i for i, _ in r["rejects"]), r["generated"], r["distinct"]


def run(w, scen, label):
    sf, of = w.path("roscen-%s.ndjson" % label), w.path("roobs-%s.ndjson" % label)
    write_ndjson(sf, scen)
    summ = w.run_harness("romod", sf, of, case_timeout=60)
    obs = read_ndjson(of)
    bad = [o for o in obs if "changed" not in o]
    if bad:
        raise Broken("romod harness: %d cases crashed/failed: %s" % (len(bad), json.dumps(bad[0])[:800]))
    return obs, summ


def check(w):
    v = Verdict(w, "model_checking")
    r = w.tlc_ok("Daemon", "SPECIFICATION Spec\nINVARIANTS ReadOnlyIntact Refused KeepsServing\nPROPERTY EverySessionEnds\nCHECK_DEADLOCK TRUE\n", coverage=True, label="Daemon")
    cov = require_coverage(r, ACTIONS)
    out = w.path("daemon-scen.raw")
    g = w.tlc_ok("Daemon", "SPECIFICATION GenSpec\nINVARIANT Emit\nCHECK_DEADLOCK FALSE\n", env={"VERIF_OUT": out}, workers=1, label="DaemonGen")
    base = read_ndjson(out)
    if len(base) < 100:
        raise Broken("scenario generation: %d lines" % len(base))
    scen = []
    for s in base:
        scen.append(dict(s))
        if s["kind"] == "ro" and s["layout"] == "alone":
            scen.append(dict(s, missing=True))
    for i, s in enumerate(scen):
        s["id"] = i + 1
    obs, summ = run(w, scen, "all")
    rej, gen, dist = validate(w, obs, "all")
    if rej:
        byid = {s["id"]: s for s in scen}
        obs2, _ = run(w, [byid[i] for i in sorted(rej)], "confirm")
        rej2, _, _ = validate(w, obs2, "confirm")
        vlib_unreproduced(v, rej, rej2, total=len(obs))
        for o in obs2:
            if o["id"] in rej2:
                v.violation({"kind": o["kind"], "changed": o["changed"], "refused": o["refused"], "dry_run": "n" in o["flags"], "sub": o["sub"], "missing": o["missing"],
                             "layout": (o.get("scn") or {}).get("layout"), "argform": (o.get("scn") or {}).get("argform")},
                            {"scenario": o["scn"], "diff": o["diff"][:10], "errtext": o["errtext"], "requests": o["requests"]})
    # effectiveness: the same upload against a writable twin changes the module
    key = lambda o: json.dumps([o["upload"], o["sub"], sorted(o["flags"]), o["transport"], (o.get("scn") or {}).get("argform")])
    changed_rw = {key(o) for o in obs if o["kind"] == "rw" and o["changed"]}
    ro = [o for o in obs if o["kind"] != "rw"]
    effective = sum(1 for o in ro if key(o) in changed_rw)
    if effective < 30:
        raise Broken("vacuous: only %d read-only scenarios have a writable twin that changes its module" % effective)
    rnd = random.Random(w.seed)
    bad = []
    for o in rnd.sample([o for o in ro if o["id"] not in rej], 20):
        c = dict(o)
        c["id"] = 10_000_000 + o["id"]
        if rnd.random() < 0.5:
            c["changed"] = True
        else:
            c["refused"] = False
        bad.append(c)
    nrej, _, _ = validate(w, bad, "negctl")
    if nrej != {c["id"] for c in bad}:
        raise Broken("negative control: modified read-only modules accepted by DaemonTrace")
    v.coverage = {
        "states": r["distinct"], "transitions": r["generated"], "traces_validated_against_impl": len(obs), "exhaustive": True,
        "samples": [{k: o[k] for k in ("kind", "upload", "sub", "flags", "transport", "missing", "refused", "errtext", "changed")} for o in ro[:3]],
        "evaluations": len(obs), "distinct_nontrivial": effective,
        "rule": "upload attempts over the daemon protocol (connection and stdin/stdout) with flag sets {-n, --delete}, destinations {module root, existing sub-directory, new nested path}, "
                "uploads {benign tree, hostile list, empty tree with --delete} against directory-backed read-only, fs.FS-backed and (as effectiveness control) writable modules, "
                "alone and in module tables with writable modules as siblings, with a path that is a string prefix of the module's, above and below the module's directory, also with the module directory missing; non-trivial = the writable twin of the scenario changes its module",
        "action_coverage": cov, "negative_controls": len(bad), "worker_crashes": summ["crashed"],
    }
    v.assumptions = ["the whole sandbox directory (module, sibling modules) is compared before/after: names, types, file contents and mtimes"]
    return v.finish()
