"""End-to-end driver (real code on both ends, four arrangements) for C01, C13, C14:
scenarios come from the RecvScen e2e families (TLC) plus concrete-domain cases;
runs are validated by TLC against SyncTrace (SenderList + Expected of RecvOps)."""
import json
import random

import p_recv
import p_rsync
from vlib import clip as vclip
from vlib import unreproduced as vlib_unreproduced, Broken, read_ndjson, write_ndjson


def trace_cfg(fam):
    u, p = p_recv.FAMILIES[fam]
    return "SPECIFICATION TSpec\nCONSTANTS\n  Universe <- %s\n  ParentMap <- %s\n  BaseMap <- BaseAll\nCHECK_DEADLOCK TRUE\n" % (u, p)


def normalise(o):
    if "final" in o and "id" in o:
        for k in ("final", "extra", "src", "dst", "final2", "resent2", "judge"):
            if o.get(k) is None:
                o[k] = []
        e = o.get("echo") or {}
        o["opts"], o["rules"], o["wild"] = e.get("opts", {}), e.get("rules", []), bool(e.get("wild"))
        o["ioerr"] = 1 if e.get("missing") else 0
        o["missing"] = e.get("missing") or ""
        return o
    scn = o.get("scn") or {}
    e = scn.get("echo") or {}
    n = {"id": scn.get("id", -1), "family": scn.get("family", ""), "universe": scn.get("universe", []), "arr": scn.get("arr", ""), "form": scn.get("form", ""),
         "flags": scn.get("flags", []), "judge": scn.get("judge", []), "src": scn.get("src", []), "dst": scn.get("dst", []), "final": [], "extra": [],
         "result": "crashed" if o.get("crashed") else "hung", "result2": "", "final2": [], "changed2": False, "resent2": [],
         "opts": e.get("opts", {}), "rules": e.get("rules", []), "wild": bool(e.get("wild")), "ioerr": 1 if e.get("missing") else 0, "missing": e.get("missing") or "",
         "err": ("CRASHED: " if o.get("crashed") else "HUNG: " if o.get("hung") else "HARNESS: " + str(o.get("harness_error"))) + vclip(o.get("stderr"), 1500)}
    return n


KEEP = ("id", "universe", "judge", "src", "dst", "final", "extra", "result", "result2", "changed2", "resent2", "opts", "rules", "wild", "peers", "ioerr")


def slim_nodes(nodes):
    return [{k: n.get(k, 0 if k not in ("p", "t", "tgt") else "") for k in ("p", "t", "c", "sz", "mt", "ns", "perm", "tgt", "uid", "gid")} for n in nodes]


def validate(w, fam, obs, label):
    if not obs:
        return set(), 0, 0
    tf = w.path("strace-%s-%d.ndjson" % (label, len(w.tlc_runs)))
    rows = []
    for o in obs:
        o.setdefault("peers", [])
        r = {k: o[k] for k in KEEP}
        for k in ("src", "dst", "final"):
            r[k] = slim_nodes(o[k])
        r["peers"] = [slim_nodes(p) for p in o["peers"]]
        rows.append(r)
    write_ndjson(tf, rows, clamp=True)
    r = w.tlc("MCSyncTrace", trace_cfg(fam), env={"VERIF_TRACE": tf}, label="SyncTrace-" + label, timeout=3000)
    if not r["completed"]:
        raise Broken("trace validation did not complete: " + r["out"][-3000:])
    return set(i for i, _ in r["rejects"]), r["generated"], r["distinct"]


def run(w, lines, label, case_timeout=200):
    sf, of = w.path("sscen-%s.ndjson" % label), w.path("sobs-%s.ndjson" % label)
    write_ndjson(sf, lines)
    summ = w.run_harness("sync", sf, of, case_timeout=case_timeout)
    obs = [normalise(o) for o in read_ndjson(of)]
    if len(obs) != len(lines):
        raise Broken("harness returned %d observations for %d scenarios" % (len(obs), len(lines)))
    hb = [o for o in obs if str(o.get("err", "")).startswith("HARNESS")]
    if hb:
        raise Broken("harness error: " + hb[0]["err"])
    return obs, summ


def mk_line(s, arr, judge, form="slash", rule_style="opt", repeat=False, extra_flags=(), wild=False, missing=""):
    """A sync scenario line from a RecvScen e2e scenario (TLC JSON)."""
    nodes = lambda ns: [n for n in ns if n["p"] != "."] if False else ns
    return {"family": s.get("family", ""), "universe": s["universe"], "src": [n for n in s["src"] if n["p"] != "."], "dst": [n for n in s["dst"] if n["p"] != "."],
            "flags": p_recv.flags_of(s["opts"], s.get("rules", []), rule_style) + list(extra_flags), "arr": arr, "form": form, "judge": list(judge), "repeat": repeat,
            "echo": {"opts": s["opts"], "rules": s.get("rules", []), "wild": wild, "missing": missing}, "missing": missing,
            # library arrangements run over the instrumented transport: record the complete session
            # transcript, validated action by action against the composed specification (RsyncTrace.tla)
            # (daemon arrangements: through a tap proxy in front of the daemon's socket)
            "full": arr in ("lib", "libpush", "pull", "push") and form == "slash" and not wild}


def attach_peers(obs, lines):
    """For lines that carry a group key: give each observation the final trees of the other
    arrangements of the same scenario (C14)."""
    byid = {ln["id"]: ln for ln in lines}
    groups = {}
    for o in obs:
        g = byid[o["id"]].get("group")
        if g is not None:
            groups.setdefault(g, []).append(o)
    for g, os_ in groups.items():
        for o in os_:
            o["peers"] = [p["final"] for p in os_ if p is not o and p["result"] == "ok"]


def run_validate_confirm(w, fam, lines, label, v, counts, sigfn, peers=False):
    for i, ln in enumerate(lines):
        ln["id"] = i + 1
    obs, summ = run(w, lines, label)
    if peers:
        attach_peers(obs, lines)
    rej, gen, dist = validate(w, fam, obs, label)
    counts["traces"] = counts.get("traces", 0) + len(obs)
    counts["trace_states"] = counts.get("trace_states", 0) + dist
    counts["crashed"] = counts.get("crashed", 0) + summ["crashed"]
    # action-level validation of the complete transcripts (library arrangements)
    rows = p_rsync.rows_of(obs)
    wrej = {}
    if rows:
        wrej, _, wdist = p_rsync.validate(w, fam, rows, label)
        wrej = {(i if i < p_rsync.SECOND else i - p_rsync.SECOND): l for i, l in wrej.items()}      # (a rejected second run counts for its scenario)
        counts["wire_traces"] = counts.get("wire_traces", 0) + len(rows)
        counts["wire_events"] = counts.get("wire_events", 0) + sum(len(r["events"]) for r in rows)
        counts["wire_states"] = counts.get("wire_states", 0) + wdist
        if not counts.get("wire_sample"):
            acc = [r for r in rows if r["id"] not in wrej and len(r["events"]) > 12]
            if acc:
                counts["wire_sample"] = {"dir": acc[0]["dir"], "opts": acc[0]["opts"], "rules": acc[0]["rules"],
                                         "events": [{k: v for k, v in e.items() if v not in (0, "", False)} for e in acc[0]["events"]]}
        if len(rows) - len(wrej) >= 4 and not counts.get("wire_negctl"):
            counts["wire_negctl"] = p_rsync.negative_controls(w, fam, rows, wrej, w.seed)
        rej = set(rej) | set(wrej)
    if rej:
        byid = {ln["id"]: ln for ln in lines}
        again = [byid[i] for i in sorted(rej)]
        if peers:       # re-run whole groups
            gs = {byid[i].get("group") for i in rej}
            again = [ln for ln in lines if ln.get("group") in gs]
        obs2, _ = run(w, again, label + "-confirm")
        if peers:
            attach_peers(obs2, lines)
        rej2, _, _ = validate(w, fam, obs2, label + "-confirm")
        wrej2, _, _ = p_rsync.validate(w, fam, p_rsync.rows_of(obs2), label + "-confirm")
        wire_where = {}
        rows2 = {r["id"]: r for r in p_rsync.rows_of(obs2)}
        for i, l in list(wrej2.items()):
            ev = rows2[i]["events"]
            base = i if i < p_rsync.SECOND else i - p_rsync.SECOND
            wire_where[base] = {"run": 1 if i < p_rsync.SECOND else 2, "events_explained": max(0, l - 1),
                                "first_unexplained": (ev[l - 1] if 0 < l <= len(ev) else "end of session / final tree"), "parse_error": rows2[i]["parse_err"]}
        wrej2 = {(i if i < p_rsync.SECOND else i - p_rsync.SECOND): l for i, l in wrej2.items()}
        rej2 = set(rej2) | set(wrej2)
        vlib_unreproduced(v, rej, rej2, total=len(obs))
        for o in obs2:
            if o["id"] in rej2:
                sg = sigfn(o)
                if o["id"] in wire_where:
                    sg["wire"] = True
                v.violation(sg, {"wire_level_rejection": wire_where.get(o["id"]), "arr": o["arr"], "form": o["form"], "flags": o["flags"], "src": slim_nodes(o["src"]), "dst": slim_nodes(o["dst"]),
                                       "final": slim_nodes(o["final"]), "extra": o["extra"], "result": o["result"], "err": str(o.get("err", ""))[:1500],
                                       "log": str(o.get("log", ""))[-1500:], "resent2": o.get("resent2"), "changed2": o.get("changed2")})
    return obs, rej


def negative_controls(w, fam, obs, rej, seed, n=30):
    rnd = random.Random(seed)
    good = [o for o in obs if o["id"] not in rej and not o["wild"] and o["final"]]
    if len(good) < 5:
        raise Broken("too few accepted e2e traces (%d) for negative controls" % len(good))
    bad = []
    for o in rnd.sample(good, min(n, len(good))):
        c = json.loads(json.dumps(o))
        c["id"] = 10_000_000 + o["id"]
        names = [x["p"] for x in c["final"]]
        leaves = [x for x in c["final"] if x["p"] != "." and not any(y.startswith(x["p"] + "/") for y in names)]
        if leaves and rnd.random() < 0.7:
            c["final"].remove(rnd.choice(leaves))
        else:
            c["result"] = "err"
        bad.append(c)
    nrej, _, _ = validate(w, fam, bad, "negctl")
    if {c["id"] for c in bad} - nrej:
        raise Broken("negative control: damaged e2e runs accepted by SyncTrace")
    return len(bad)


def wire_coverage(counts):
    """Evidence keys of the action-level transcript validation (RsyncTrace.tla)."""
    if not counts.get("wire_traces"):
        return {}
    return {"wire_transcripts_validated": counts["wire_traces"], "wire_events": counts.get("wire_events", 0), "wire_trace_states": counts.get("wire_states", 0),
            "wire_negative_controls": counts.get("wire_negctl", 0), "wire_sample": counts.get("wire_sample")}
